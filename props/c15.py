"""C15 — library calls never modify caller-owned inputs."""
import functools

from vlib import x_registry as X
from vlib.engine import SubCheck

PROPERTY = "C15"
RULE = ("One sub-check per public entry point of the shared registry vlib/x_registry (decompositions and their class "
        "wrappers, solvers, proximal operators, tenalg functions under both tenalg backends, SVD front end, factorised-tensor "
        "conversions/transforms, metrics, preprocessing, regressors, random generators). Hypothesis draws shapes (order 1-4, "
        "sides 1-4), ranks 1-3, 1-3 iterations, option sets, argument kinds (tuple / list / wrapper object inits, caller-owned "
        "option lists, masks, cases built to exit by exception), the dtype (float64/float32/complex128 where supported) and a "
        "memory layout per array (C, F, transposed view, strided and offset views of a larger buffer). Oracle: a deep snapshot "
        "(dtype, shape, bytes of every array; lengths, entry values and slot identities of every container / wrapper attribute) "
        "of every non-exempt argument before the call equals the snapshot after it, whether the call returned or raised; "
        "second detector: the same call on arrays flagged read-only must not die on an assignment issued from library code. "
        "Exempt exactly: copy=False mode products (the factorised argument), hals_nnls V, RandomState objects (consumed). "
        "Non-trivial: a mutable container / wrapper object or at least two caller arrays are passed; distinct = distinct case hash.")
ASSUMPTIONS = ["NumPy tobytes / flags.writeable behave as documented", "Hypothesis generates what its strategies describe",
               "an in-place write manifests as a byte difference on the drawn data, or as a read-only assignment error"]


def subchecks(tier):
    out = []
    for e in X.load():
        if not e.c15:
            continue
        out.append(SubCheck(e.name, X.c15_case(e), functools.partial(X.c15_oracle, e), quick=e.quick, thorough=e.thorough,
                            budget_quick=45.0, case_timeout=30))
    return out
