"""C06 - reported reconstruction errors are finite and equal the true error of the iterate
they belong to; the last reported value is the error of the returned decomposition."""
import numpy as np
from vlib.cmp import close
from hypothesis import strategies as st

from vlib import gen
from vlib import x_iter as xi
from vlib.engine import SubCheck, check, discard

PROPERTY = "C06"
RULE = ("Hypothesis draws a data tensor (order 2-4, sides 2-5; Gaussian, non-negative, small-integer, exactly low-rank "
        "CP/Tucker/TR, noisy low-rank; PARAFAC2: 2-4 slices with 2-5 rows, structured or generic; CMTF: coupled pair), "
        "a rank 1-3 (mostly <= the mode sizes), an initialisation (svd / random(seed) / user factors), "
        "n_iter_max in {1,2,3,7,8,9,12}, tol in {1e-14, 1e-2} and the option group of the sub-check. "
        "Iterates are captured by deep-copying callbacks or by prefix runs n_iter_max = 1..K with the same seed. "
        "Oracle: every reported value is a finite non-negative number and |reported^2 - true^2| <= 1e-9 (1 + |model|^2/|X|^2) "
        "with true = |X - dense(iterate)| / |X| rebuilt from scratch by vlib.ref (einsum sublists); the last reported value "
        "is compared with the returned decomposition. Non-trivial: at least two reported values were compared and the "
        "true error of the last iterate exceeds 1e-6 (near-exact fits are counted separately under label fit=exact); "
        "distinct = distinct case hash.")
ASSUMPTIONS = ["NumPy einsum / tensordot / norm are correct", "Hypothesis generates what its strategies describe",
               "prefix runs: the algorithms are deterministic given the seed (property C16), so the run with "
               "n_iter_max = k ends on iterate k of the longer run",
               "the global NumPy RNG is seeded per call for the entry points that ignore random_state (D10, CMTF)"]

ITERS = [1, 2, 3, 7, 8, 9, 12]
LinAlg = (np.linalg.LinAlgError,)


# ----------------------------------------------------------------------------
# case strategies
# ----------------------------------------------------------------------------
def _rank(draw, mn, hi=3):
    r = draw(st.integers(1, hi))
    over = draw(st.integers(0, 5)) == 0       # rank > smallest side in about one case out of six
    return r if over else min(r, mn)


@st.composite
def cp_case(draw, orders=(2, 3, 4), kinds=xi.KINDS_ALL, inits=("svd", "random", "user"), iters=ITERS,
            tols=(1e-14, 1e-2), opts=None, max_rank=3, scales=None, iweights=None):
    X = draw(xi.tensor_enc(orders=orders, kinds=kinds, scales=scales))
    c = {"X": X, "rank": _rank(draw, min(X["s"]), max_rank), "init": draw(xi.init_spec(inits, weights=iweights)),
         "n_iter": draw(st.sampled_from(list(iters))), "tol": draw(st.sampled_from(list(tols)))}
    if opts:
        c.update(opts(draw, c))
    return c


def fixed_modes_of(draw, order):
    """non-empty subset of the modes that may be fixed (never the last one)"""
    return sorted(draw(st.sets(st.integers(0, order - 2), min_size=1, max_size=order - 1)))


def parafac_opts(group):
    def f(draw, c):
        order = len(c["X"]["s"])
        o = {"cvg": draw(st.sampled_from(["abs_rec_error", "rec_error"])), "return_errors": draw(st.booleans())}
        if group == "fixed_modes":
            o["fixed_modes"] = fixed_modes_of(draw, order)
            o["normalize"] = draw(st.booleans())
        if group == "l2_reg":
            # the reported values stay plain relative reconstruction errors (docstring: "reconstruction errors"),
            # not the penalised objective
            o["l2_reg"] = draw(st.sampled_from([0.01, 0.1, 0.5, 2.0]))
            o["normalize"] = draw(st.booleans())
        if group == "orthogonalise":
            o["orthogonalise"] = draw(st.sampled_from([True, 1, 2, 3]))
            o["normalize"] = draw(st.booleans())
        if group in ("l2_reg", "orthogonalise", "plain", "normalize"):
            o["api"] = draw(st.sampled_from(["function", "function", "class"]))
        if group in ("normalize", "normalize_o2"):
            o["normalize"] = True
        if group == "linesearch":
            o["linesearch"] = True
            o["normalize"] = bool(order >= 3 and draw(st.booleans()))     # order-2 + normalise is D1's class
        if group == "sparsity":
            n = xi.prod(c["X"]["s"])
            if draw(st.booleans()):
                k = draw(st.integers(1, max(1, min(4, n - 1))))
                o["sparsity"] = k
            else:
                o["sparsity"] = draw(st.sampled_from([0.25, 0.5]))        # int(0.25 * n) >= 1 for n >= 4
            o["normalize"] = bool(order >= 3 and draw(st.booleans()))
        return o
    return f


def nn_opts(group, hals):
    def f(draw, c):
        order = len(c["X"]["s"])
        o = {}
        if group == "normalize_o2":
            o["normalize"] = True
        else:
            o["normalize"] = bool(order >= 3 and draw(st.booleans()))
        o["cvg"] = draw(st.sampled_from(["abs_rec_error", "rec_error"]))
        if c["init"]["kind"] == "user" and order >= 2 and draw(st.integers(0, 3)) == 0:
            o["fixed_modes"] = fixed_modes_of(draw, order)
        if hals and group != "svd_init":
            nn = draw(st.sampled_from(["all", "all", "subset", "none"]))
            if nn == "subset":
                o["nn_modes"] = sorted(draw(st.sets(st.integers(0, order - 1), min_size=1, max_size=order - 1)))
            elif nn == "none":
                o["nn_modes"] = None
            else:
                o["nn_modes"] = "all"
            if draw(st.booleans()):
                o["sparsity_coefficients"] = [draw(st.sampled_from([None, 0.01, 0.1])) for _ in range(order)]
        return o
    return f


def constrained_opts(draw, c):
    names = sorted(xi.CONSTRAINTS)      # rank 1 with simplex / soft_sparsity included (crashed before c831d82)
    o = {"constraint": draw(st.sampled_from(names)), "n_inner": draw(st.sampled_from([1, 3, 10])),
         "tol_inner": draw(st.sampled_from([1e-6, 1e-2])), "cvg": draw(st.sampled_from(["abs_rec_error", "rec_error"]))}
    if c["init"]["kind"] == "user" and draw(st.integers(0, 3)) == 0:
        o["fixed_modes"] = fixed_modes_of(draw, len(c["X"]["s"]))
    return o


@st.composite
def tucker_case(draw, orders=(2, 3, 4), kinds=xi.KINDS_ALL, inits=("svd", "random", "user"), iters=ITERS,
                tols=(1e-14, 1e-2), partial=False, opts=None):
    X = draw(xi.tensor_enc(orders=orders, kinds=kinds))
    shape = X["s"]
    c = {"X": X, "init": draw(xi.init_spec(inits)), "n_iter": draw(st.sampled_from(list(iters))),
         "tol": draw(st.sampled_from(list(tols)))}
    if partial:
        modes = sorted(draw(st.sets(st.integers(0, len(shape) - 1), min_size=1, max_size=len(shape))))
        c["modes"] = modes
        c["ranks"] = [draw(st.integers(1, min(3, shape[m]))) for m in modes]
    else:
        c["ranks"] = [_rank(draw, s) for s in shape]
    if draw(st.integers(0, 3)) == 0:
        # seed-independence pass: an *uncompressed* mode (rank == mode size, also for sides 4-5) in a quarter of the
        # cases, preferably together with a user init (the class of C07-m2: shortcuts for full-rank modes)
        j = draw(st.integers(0, len(c["ranks"]) - 1))
        c["ranks"][j] = shape[c["modes"][j]] if partial else shape[j]
        if "user" in inits and draw(st.booleans()):
            c["init"] = dict(c["init"], kind="user")
    if opts:
        c.update(opts(draw, c))
    return c


def nn_tucker_opts(algorithm=None):
    def f(draw, c):
        o = {"normalize": draw(st.booleans())}
        if algorithm:
            o["algorithm"] = algorithm
            if draw(st.booleans()):
                o["sparsity_coefficients"] = [draw(st.sampled_from([None, 0.01, 0.1])) for _ in c["X"]["s"]]
            if algorithm == "fista" and draw(st.booleans()):
                o["core_sparsity"] = draw(st.sampled_from([0.01, 0.1]))
        return o
    return f


@st.composite
def parafac2_case(draw, group, iters=ITERS, tols=(1e-14, 1e-2), nn_choices=([0], [2], [0, 2], "all")):
    if group == "exactfit":
        kinds = ("pf2",)
    elif group in ("nn", "linesearch_nn1"):
        kinds = ("nonneg", "pf2_noise", "pf2_nonneg", "normal")
    else:
        kinds = ("normal", "nonneg", "pf2_noise", "int")
    # line-search groups also draw a data scale (||X|| << 1 and >> 1): acceptance tests mix absolute and relative errors
    X = draw(xi.slices_enc(kinds=kinds, scales=xi.SCALES if group.startswith("linesearch") else None))
    hi = min(min(X["J"]), X["K"], 3)                  # P_i needs J_i >= rank, the assertion rank <= K
    rank = draw(st.integers(1, hi))
    if group == "exactfit":
        rank = min(hi, max(rank, X["r"]))
    # seed-independence pass: user inits are half of the cases and three quarters of them carry non-unit weights
    # (the class that C07-r2m3 needs: a weighted user init, in particular with normalize_factors=False)
    init = draw(xi.init_spec(("random", "svd", "user", "user"), weights=("none", "pos", "pos", "pos")))
    if init["kind"] == "user":
        init["form"] = draw(st.sampled_from(["pf2", "cp"]))      # Parafac2Tensor triple / CP pair (B split by QR)
    else:
        init.pop("w", None)
    c = {"X": X, "rank": rank, "init": init,
         "n_iter": draw(st.sampled_from(list(iters))), "tol": draw(st.sampled_from(list(tols))),
         "n_iter_parafac": draw(st.sampled_from([1, 2, 5])), "normalize": draw(st.booleans()),
         "linesearch": group == "linesearch"}
    if group == "linesearch_nn1":
        # line search + a non-negativity request that includes mode 1 (see notes/c07.md, defect N2)
        c["linesearch"] = True
        c["nn_modes"] = draw(st.sampled_from(["all", [1], [0, 1], [1, 2]]))
        c["n_iter_parafac"] = draw(st.sampled_from([1, 2]))
    elif group == "nn" or (group == "linesearch" and draw(st.integers(0, 2)) == 0):
        c["nn_modes"] = draw(st.sampled_from(nn_choices))
        c["n_iter_parafac"] = draw(st.sampled_from([1, 2]))
    return c


@st.composite
def tr_case(draw, solver, iters=ITERS, tols=(1e-14, 1e-2, 0.0), kinds=xi.KINDS_ALL):
    X = draw(xi.tensor_enc(orders=(2, 3, 4), kinds=kinds))
    shape = X["s"]
    n = len(shape)
    ranks = [draw(st.integers(1, 3)) for _ in range(n)]
    tot = xi.prod(shape)
    if draw(st.integers(0, 5)) != 0:          # mostly over-determined block problems
        for d in range(n):
            while ranks[d] * ranks[(d + 1) % n] > tot // shape[d] and (ranks[d] > 1 or ranks[(d + 1) % n] > 1):
                if ranks[d] >= ranks[(d + 1) % n]:
                    ranks[d] -= 1
                else:
                    ranks[(d + 1) % n] -= 1
    return {"X": X, "ranks": ranks + [ranks[0]], "ls_solve": solver, "init": draw(xi.init_spec(("random",))),
            "n_iter": draw(st.sampled_from(list(iters))), "tol": draw(st.sampled_from(list(tols)))}


@st.composite
def cmtf_case(draw, iters=ITERS, tols=(1e-14, 1e-2)):
    X = draw(xi.cmtf_enc())
    return {"X": X, "rank": _rank(draw, min(X["s"][:3])), "init": draw(xi.init_spec(("svd", "random"))),
            "n_iter": draw(st.sampled_from(list(iters))), "tol": draw(st.sampled_from(list(tols))),
            "normalize": draw(st.booleans())}


@st.composite
def rand_case(draw):
    # tol 0 / None and max_stagnation 0 = no stopping rule: the callback must still receive the current error
    c = draw(cp_case(orders=(2, 3, 4), inits=("random", "svd"), tols=(1e-14, 1e-2, 0.0, None)))
    c["n_samples"] = draw(st.integers(max(c["rank"], 2), 12)) if draw(st.integers(0, 7)) else draw(st.integers(1, 3))
    c["max_stagnation"] = draw(st.sampled_from([20, 0, 2]))
    return c


# ----------------------------------------------------------------------------
# oracles
# ----------------------------------------------------------------------------
def _labels(case, n_vals, true_last, extra=()):
    X = case["X"]
    shape = X.get("s") or X.get("J")
    lb = [f"order={len(X['s'])}" if "s" in X else "order=pf2", f"data={X['k']}", f"init={case['init']['kind']}",
          f"tol={case['tol']}", "fit=exact" if true_last <= 1e-6 else "fit=inexact"]
    if "rank" in case and "s" in X:
        lb.append("rank>side" if case["rank"] > min(shape) else "rank<=side")
    return {"nontrivial": bool(n_vals >= 2 and true_last > 1e-6), "labels": lb + list(extra)}


def _is_ls_iter(case, it):
    return bool(case.get("linesearch") and it > 5 and it % 2 == 0)


def o_callback(A):
    """every (decomposition, error) pair handed to the callback: error == true error of that decomposition"""
    def oracle(case):
        data = A.data(case)
        xv = A.xvec(data)
        rec = xi.Recorder(A.copy)
        dec, _ = A.run(data, case, case["n_iter"], callback=rec, return_errors=bool(case.get("return_errors", True)))
        calls = rec.calls
        check(len(calls) >= 1, "callback/invoked", "the callback was never invoked")
        n_vals, true = 0, 1.0
        for i, (snap, err) in enumerate(calls):
            if err is None:          # randomised_parafac's initial invocation carries no value
                continue
            sfx = "@ls" if _is_ls_iter(case, i - 1) else ""
            clause = ("callback/initial" if i == 0 else "callback/value") + sfx
            true = A.check_reported(err, xv, A.mvec(snap, data, case), clause, snap)
            n_vals += 1
        last_err = calls[-1][1]
        if last_err is not None and len(calls) > 1:
            sfx = "@ls" if _is_ls_iter(case, len(calls) - 2) else ""
            fin = A.copy(dec)
            true = A.check_reported(last_err, xv, A.mvec(fin, data, case), "callback/last-is-returned" + sfx, fin)
        return _labels(case, n_vals, true, [f"calls={min(len(calls), 13)}",
                                            "exit=early" if len(calls) - 1 < case["n_iter"] else "exit=cap"])
    return oracle


def o_errors_cb(A):
    """return_errors list of an algorithm that also has a callback: errors[j] belongs to sweep j"""
    def oracle(case):
        data = A.data(case)
        xv = A.xvec(data)
        rec = xi.Recorder(A.copy)
        dec, errs = A.run(data, case, case["n_iter"], callback=rec, return_errors=True)
        errs = xi.all_finite(errs, "errors")
        sweeps = [s for (s, _) in rec.calls[1:]]
        check(len(sweeps) >= 1, "callback/invoked", "the callback was never invoked after a sweep")
        if not errs and A.errors_optional(case):
            # no stopping rule active: the function keeps no history (nothing is reported, nothing to check)
            return _labels(case, 0, 1.0, ["history=none(no stopping rule)"])
        check(len(errs) >= 1, "errors/empty", lambda: f"no error reported for {len(sweeps)} sweeps")
        mvs = [A.mvec(s, data, case) for s in sweeps]
        ls = bool(case.get("linesearch"))
        extra = []
        if len(errs) == len(sweeps):
            for j, e in enumerate(errs):
                A.check_reported(e, xv, mvs[j], "errors/value" + ("@ls" if _is_ls_iter(case, j) else ""), sweeps[j])
        else:
            # cannot index: every reported value must still belong to *some* sweep, in order
            extra.append("count_mismatch")
            p = 0
            for j, e in enumerate(errs):
                while p < len(mvs) and not A.matches(e, xv, mvs[p], sweeps[p]):
                    p += 1
                check(p < len(mvs), "errors/value-unmatched" + ("@ls" if ls else ""),
                      lambda: f"errors[{j}] = {e!r} is not the error of any later sweep "
                              f"({len(errs)} errors for {len(sweeps)} sweeps)")
                p += 1
        sfx = "@ls" if _is_ls_iter(case, len(sweeps) - 1) else ""
        fin = A.copy(dec)
        true = A.check_reported(errs[-1], xv, A.mvec(fin, data, case), "errors/last" + sfx, fin)
        return _labels(case, len(errs), true, extra + ["exit=early" if len(sweeps) < case["n_iter"] else "exit=cap"])
    return oracle


def o_errors(A, converged_label=False):
    """single run: history finite, non-empty, and its last value is the error of the returned decomposition"""
    def oracle(case):
        data = A.data(case)
        xv = A.xvec(data)
        dec, errs = A.run(data, case, case["n_iter"])
        errs = xi.all_finite(errs, "errors")
        check(len(errs) >= 1, "errors/empty", "no error reported")
        check(len(errs) <= case["n_iter"], "errors/count", lambda: f"{len(errs)} errors for n_iter_max={case['n_iter']}")
        early = len(errs) < case["n_iter"]
        sfx = "@converged" if (converged_label and early) else ""
        if case.get("linesearch") and _is_ls_iter(case, case["n_iter"] - 1):
            sfx = "@ls"
        fin = A.copy(dec)
        true = A.check_reported(errs[-1], xv, A.mvec(fin, data, case), "errors/last" + sfx, fin)
        return _labels(case, len(errs), true, ["exit=early" if early else "exit=cap"])
    return oracle


def o_prefix(A, skip_early=False):
    """prefix runs n_iter_max = 1..K: the last value of run k is the error of iterate k, and the
    history of the longest run agrees index by index with the iterates of the shorter runs"""
    def oracle(case):
        data = A.data(case)
        xv = A.xvec(data)
        runs = xi.prefix_runs(A, data, case, case["n_iter"])
        n_vals, true, skipped = 0, 1.0, 0
        mvs = {}
        for k, snap, errs in runs:
            errs = xi.all_finite(errs, "prefix/errors")
            check(len(errs) >= 1, "prefix/empty", lambda: f"no error reported with n_iter_max={k}")
            check(len(errs) <= k, "prefix/count", lambda: f"{len(errs)} errors for n_iter_max={k}")
            if skip_early and len(errs) < k:      # convergence exit: checked by the '/last' sub-check
                skipped += 1
                continue
            mvs[k] = (A.mvec(snap, data, case), len(errs) == k, snap)
            sfx = "@ls" if _is_ls_iter(case, k - 1) else ""
            true = A.check_reported(errs[-1], xv, mvs[k][0], "prefix/last" + sfx, snap)
            n_vals += 1
        kL, _, errsL = runs[-1]
        ls = "@ls" if case.get("linesearch") else ""
        if not skip_early:
            # every prefix run ended on a different iterate => the longest run executed kL iterations
            # and ("a list of reconstruction errors at each iteration") must report kL values
            ks = sorted(mvs)
            moved = len(ks) == kL and all(not np.array_equal(mvs[a][0], mvs[b][0]) for a, b in zip(ks, ks[1:]))
            if moved:
                check(len(errsL) == kL, "prefix/count" + ls,
                      lambda: f"{len(errsL)} errors reported for {kL} executed iterations")
        if len(errsL) == kL:
            for j in range(len(errsL) - 1):
                if (j + 1) in mvs and mvs[j + 1][1]:
                    A.check_reported(errsL[j], xv, mvs[j + 1][0],
                                     "prefix/value" + ("@ls" if _is_ls_iter(case, j) else ""), mvs[j + 1][2])
        return _labels(case, n_vals, true, [f"skipped_converged={skipped}"] if skip_early else [])
    return oracle


def o_notol(A):
    """parafac with a callback and convergence checking switched off (tol 0 / None)"""
    def oracle(case):
        data = A.data(case)
        xv = A.xvec(data)
        rec = xi.Recorder(A.copy)
        c = dict(case)
        A.run(data, c, case["n_iter"], callback=rec, return_errors=False)
        n, true = 0, 1.0
        for i, (snap, err) in enumerate(rec.calls):
            if err is None:
                continue
            true = A.check_reported(err, xv, A.mvec(snap, data, case), "callback/value", snap)
            n += 1
        # the same run without any observer (no callback, no error list, no tolerance) must still work and end at
        # the iterate the callback saw last (observing must not be what keeps the error bookkeeping alive)
        res, _ = A.run(data, c, case["n_iter"], callback=None, return_errors=False)
        if rec.calls:
            last = A.mvec(rec.calls[-1][0], data, case)
            got = A.mvec(A.copy(res), data, case)
            scale = max(float(np.max(np.abs(last))), float(np.max(np.abs(xv))), 1e-300)
            close(got, last, "unobserved_run/same_final_iterate", rel=1e-8, scale=scale)
        return _labels(case, n, true)
    return oracle


# ----------------------------------------------------------------------------
# sub-checks
# ----------------------------------------------------------------------------
def subchecks(tier):
    S = []

    def add(name, strat, oracle, quick=50, thorough=250, exc=LinAlg, **kw):
        S.append(SubCheck(name, strat, oracle, quick=3 * quick, thorough=4 * thorough, discard_exc=exc,
                          budget_quick=45.0, budget_thorough=100.0, shards_thorough=2, **kw))

    # --- parafac -----------------------------------------------------------
    P = xi.Parafac()
    groups = {"plain": dict(orders=(2, 3, 4)), "normalize": dict(orders=(3, 4)), "normalize_o2": dict(orders=(2,)),
              "linesearch": dict(orders=(2, 3, 4), iters=[3, 7, 8, 9, 12, 12, 17, 24], scales=xi.SCALES), "sparsity": dict(orders=(2, 3, 4)),
              "fixed_modes": dict(orders=(2, 3, 4), inits=("user",), iweights=("none", "ones", "pos", "mixed")),
              "l2_reg": dict(orders=(2, 3, 4)), "orthogonalise": dict(orders=(2, 3, 4))}
    for g, kw in groups.items():
        strat = cp_case(opts=parafac_opts(g), **kw)
        add(f"parafac/{g}/callback", strat, o_callback(P), quick=80, thorough=400)
        add(f"parafac/{g}/return_errors", strat, o_errors_cb(P), quick=80, thorough=400)
    add("parafac/notol/callback", cp_case(opts=parafac_opts("plain"), tols=(0.0, None), iters=[1, 2, 3, 7]),
        o_notol(P), quick=40, thorough=100)
    # line search with convergence checking switched off: the jump must still be compared with tracked errors
    add("parafac/notol_linesearch/callback", cp_case(opts=parafac_opts("linesearch"), tols=(0.0, None), iters=[7, 8, 9, 12]),
        o_notol(P), quick=30, thorough=100)

    # --- randomised_parafac ------------------------------------------------
    R = xi.RandomisedParafac()
    add("randomised_parafac/callback", rand_case(), o_callback(R), quick=80, thorough=400)
    add("randomised_parafac/return_errors", rand_case(), o_errors_cb(R), quick=80, thorough=400)

    # --- non-negative CP (MU, HALS) ----------------------------------------
    MU, H = xi.NNParafacMU(), xi.NNParafacHALS()
    nn_kinds = ("nonneg", "lowrank_nonneg", "normal", "int", "lowrank_noise")
    for name, A, hals, q in (("non_negative_parafac", MU, False, 60), ("non_negative_parafac_hals", H, True, 30)):
        small = [1, 2, 3, 5] if hals else ITERS
        for g, kw in {"random_init": dict(orders=(2, 3, 4), inits=("random", "user")),
                      "svd_init": dict(orders=(2, 3, 4), inits=("svd",)),
                      "normalize_o2": dict(orders=(2,), inits=("random", "user"))}.items():
            exc = () if g == "svd_init" else LinAlg
            add(f"{name}/{g}/return_errors", cp_case(kinds=nn_kinds, opts=nn_opts(g, hals), iters=small, **kw),
                o_errors(A), quick=q, thorough=4 * q, exc=exc)
            if g != "svd_init":
                add(f"{name}/{g}/prefix",
                    cp_case(kinds=nn_kinds, opts=nn_opts(g, hals), tols=(1e-14,), iters=[2, 3, 5] if hals else [2, 3, 7, 9], **kw),
                    o_prefix(A), quick=q // 2 if hals else q, thorough=2 * q, exc=exc)

    # --- constrained_parafac -----------------------------------------------
    C = xi.ConstrainedParafac()
    add("constrained_parafac/return_errors", cp_case(opts=constrained_opts, tols=(1e-14, 1e-2, 0.0)), o_errors(C), quick=50, thorough=250)
    add("constrained_parafac/prefix", cp_case(opts=constrained_opts, tols=(1e-14,), iters=[2, 3, 5, 7]), o_prefix(C),
        quick=40, thorough=160)

    # --- Tucker ------------------------------------------------------------
    T, PT = xi.TuckerHOOI(), xi.PartialTucker()
    add("tucker/return_errors", tucker_case(tols=(1e-14, 1e-2, 0.0)), o_errors(T), quick=80, thorough=400)
    add("tucker/prefix", tucker_case(tols=(1e-14,), iters=[2, 3, 7, 9]), o_prefix(T), quick=60, thorough=300)
    add("partial_tucker/return_errors", tucker_case(partial=True, tols=(1e-14, 1e-2, 0.0)), o_errors(PT), quick=80, thorough=400)
    add("partial_tucker/prefix", tucker_case(partial=True, tols=(1e-14,), iters=[2, 3, 7, 9]), o_prefix(PT),
        quick=60, thorough=300)

    NT, NH = xi.NNTuckerMU(), xi.NNTuckerHALS()
    add("non_negative_tucker/random_init/return_errors",
        tucker_case(kinds=nn_kinds, inits=("random", "user"), opts=nn_tucker_opts(), tols=(1e-14, 1e-2, 0.0)), o_errors(NT), quick=60, thorough=300)
    add("non_negative_tucker/random_init/prefix",
        tucker_case(kinds=nn_kinds, inits=("random", "user"), opts=nn_tucker_opts(), tols=(1e-14,), iters=[2, 3, 7, 9]),
        o_prefix(NT), quick=50, thorough=250)
    add("non_negative_tucker/svd_init/return_errors",
        tucker_case(kinds=nn_kinds, inits=("svd",), opts=nn_tucker_opts()), o_errors(NT), quick=60, thorough=300, exc=())
    for alg in ("fista", "active_set"):
        add(f"non_negative_tucker_hals/{alg}/return_errors",
            tucker_case(kinds=nn_kinds, inits=("random", "user"), opts=nn_tucker_opts(alg), iters=[1, 2, 3, 5], tols=(1e-14, 1e-2, 0.0)),
            o_errors(NH), quick=30, thorough=120)
    add("non_negative_tucker_hals/svd_init/return_errors",
        tucker_case(kinds=nn_kinds, inits=("svd",), opts=nn_tucker_opts("fista"), iters=[1, 2, 3, 5]),
        o_errors(NH), quick=30, thorough=120, exc=())

    # --- PARAFAC2 ----------------------------------------------------------
    F2 = xi.Parafac2()
    for g in ("plain", "nn", "linesearch", "exactfit"):
        its = {"nn": [1, 2, 3, 5], "linesearch": [3, 7, 8, 9, 12]}.get(g, ITERS)
        pits = {"nn": [2, 3, 4], "linesearch": [7, 9, 11]}.get(g, [2, 3, 7])
        q = 25 if g == "nn" else 50
        add(f"parafac2/{g}/return_errors", parafac2_case(g, iters=its), o_errors(F2), quick=q, thorough=4 * q)
        add(f"parafac2/{g}/prefix", parafac2_case(g, iters=pits, tols=(1e-14,)), o_prefix(F2),
            quick=q // 2 if g in ("nn", "linesearch") else q, thorough=(q // 2 if g == "linesearch" else 2 * q))

    # --- tensor ring ALS ---------------------------------------------------
    TR = xi.TensorRingALS()
    for solver in ("lstsq", "normal_eq"):
        add(f"tensor_ring_als/{solver}/callback", tr_case(solver), o_callback(TR), quick=80, thorough=400)

    # --- CMTF --------------------------------------------------------------
    CM = xi.CMTF()
    add("cmtf/prefix", cmtf_case(tols=(1e-14,), iters=[2, 3, 7, 9]), o_prefix(CM, skip_early=True), quick=60, thorough=300)
    add("cmtf/last", cmtf_case(tols=(1e-14, 1e-2, 0.0)), o_errors(CM, converged_label=True), quick=80, thorough=400)
    return S
