"""C08 — decomposition outputs honour requested structure and canonical form.

One sub-check per (algorithm x option group x clause group).  Expected concrete ranks
come from the library's validate_*_rank functions (as the property speaks of "requested
(validated) ranks"), followed by an independent clipping by the unfolding sizes; the
validators themselves get independent clauses.  Everything else (orthonormality, core
projection, left-orthogonality, unit columns, exact-ones weights) is plain NumPy /
vlib.ref.
"""
import numpy as np
from hypothesis import strategies as st

import tensorly as tl
from tensorly.cp_tensor import validate_cp_rank
from tensorly.tucker_tensor import validate_tucker_rank
from tensorly.tt_tensor import validate_tt_rank
from tensorly.tr_tensor import validate_tr_rank
from tensorly.decomposition import (
    parafac, randomised_parafac, non_negative_parafac, non_negative_parafac_hals, constrained_parafac,
    tucker, partial_tucker, non_negative_tucker, non_negative_tucker_hals,
    tensor_train, tensor_train_matrix, tensor_ring, tensor_ring_als, tensor_ring_als_sampled,
    parafac2, coupled_matrix_tensor_3d_factorization,
)
from tensorly.contrib.decomposition import tensor_train_cross

from vlib import gen, ref
from vlib import x_c10 as X
from vlib.engine import SubCheck, check, discard, Fail
from vlib.cmp import close, assert_shape

PROPERTY = "C08"
RULE = ("Hypothesis: data tensors of order 2-5 (sides 1-4, <= 400 entries; classes signed normal / exactly low CP rank / "
        "non-negative / ints / sparse), every decomposition entry point, rank specs int / list / 'same' / fractions 0.3-1.0, "
        "inits svd / random / user, tol from 1e-1 (convergence exit) to 0 (cap exit), n_iter_max in {0,1,2,5,8}, "
        "normalize_factors both, every TR start mode, partial_tucker on every mode subset; parafac / randomised_parafac / "
        "TR-ALS also stopped by a user callback at a drawn sweep (third stop path, label stop=callback); Tucker data also of "
        "exactly low multilinear rank or with duplicated / zeroed slices (over-requested ranks), svd truncated / symeig; "
        "two-call histories reusing one rank list object for tensor_train / tensor_ring; parafac / parafac2 (function and "
        "Parafac2 class) with line search and caps 7 / 9 / 11 so that runs END on a line-search sweep (label "
        "stop=..._on_linesearch_iteration). Oracle: factor/core shapes from the "
        "library's validate_*_rank followed by an independent sequential clipping by unfolding sizes; TT boundary ranks 1, TR "
        "r0 = rN and chain consistency, one orthonormal projection per PARAFAC2 slice and equal cross-products; HOOI factors "
        "orthonormal and core = ref.multi_mode_dot(X, U^T); TT-SVD cores left-orthogonal except the last; with "
        "normalize_factors every factor column has unit norm (or is zero with weight zero) and weights >= 0 on BOTH stop paths "
        "(label stop=converged|cap decided from the returned error list), otherwise CP weights are exactly ones; validators: "
        "int/list pass through, boundary conditions enforced, 'same'/float with floor rounding never exceed the parameter "
        "budget.  LinAlgError = discard.  Non-trivial: order >= 3 (validators: always).")
ASSUMPTIONS = ["NumPy linalg / einsum are correct", "Hypothesis generates what its strategies describe",
               "the library's validate_*_rank define what 'requested (validated) rank' means for 'same' / fractional specs "
               "(they are cross-checked by independent budget clauses)"]

LIN = (np.linalg.LinAlgError,)
KINDS = ("normal", "lowrank", "nonneg", "int", "sparse", "lowrank_nonneg")
ORTHO_TOL = 1e-8


def _data(c, key="x"):
    x = X.dec_data(c[key])
    if not np.any(x):
        discard("zero tensor")
    return x


@st.composite
def _tensor(draw, min_order=2, max_order=4, min_side=1, max_side=4, kinds=KINDS, max_size=400):
    # orders drawn explicitly (list-length bias of Hypothesis would favour order 2; non-trivial = order >= 3)
    order = draw(st.sampled_from([o for o in (2, 3, 3, 3, 4, 4, 5) if min_order <= o <= max_order]))
    shape = draw(gen.shapes(order, order, min_side, max_side).filter(lambda s: gen.prod(s) <= max_size))
    x = draw(X.data(shape=shape, kinds=kinds))
    sc = draw(st.sampled_from([None, None, None, None, 1e-4, 1e-8, 1e4]))   # data magnitude class (structure is scale-free)
    if sc is not None:
        x["xscale"] = sc
    return x


# ----------------------------------------------------------------------------
# shared clause helpers
# ----------------------------------------------------------------------------
def unpack_cp(res, nd, clause):
    try:
        w, facs = res
        facs = list(facs)
    except Exception:  # noqa
        raise Fail(clause + "/structure", f"result is not (weights, factors): {type(res).__name__}")
    check(len(facs) == nd, clause + "/structure", f"{len(facs)} factors for order {nd}")
    return w, facs


def cp_shapes(w, facs, shape, rank, clause):
    for m, f in enumerate(facs):
        assert_shape(f, (shape[m], rank), f"{clause}/factor_shape")
    assert_shape(w, (rank,), f"{clause}/weights_shape")


def weights_are_ones(w, clause):
    w = np.asarray(w)
    check(bool(np.all(w == 1)), clause + "/weights_ones", lambda: f"weights {w.tolist()} are not exactly ones")


def unit_columns(w, facs, clause):
    w = np.asarray(w, dtype=float)
    check(bool(np.all(np.isfinite(w))), clause + "/weights_finite", lambda: f"weights {w.tolist()}")
    check(bool(np.all(w >= 0)), clause + "/weights_nonneg", lambda: f"weights {w.tolist()} have negative entries")
    for m, f in enumerate(facs):
        f = np.asarray(f, dtype=float)
        check(bool(np.all(np.isfinite(f))), clause + "/finite", lambda: f"factor[{m}] has non-finite entries")
        nrm = np.linalg.norm(f, axis=0)
        for j, n in enumerate(nrm):
            ok = abs(n - 1) <= ORTHO_TOL or (n == 0 and (w.ndim == 0 or w[j] == 0))
            check(ok, clause + "/unit_columns",
                  lambda: f"factor[{m}] column {j} has norm {n:.9g} (weight {w[j] if w.ndim else w})")


def stop_path(errors, n_iter, tol, cvg="abs_rec_error", first=1):
    """'converged' iff the criterion the algorithm documents is met on the last two returned errors"""
    errors = [float(e) for e in errors]
    if not tol or len(errors) < 2 or len(errors) < first + 1:
        return "cap"
    dec = errors[-2] - errors[-1]
    hit = abs(dec) < tol if cvg == "abs_rec_error" else dec < tol
    return "converged" if hit else "cap"


def _ls_suffix(stop, errors, c):
    """the last executed sweep (index len(errors) - 1 when errors are recorded, else the cap) was a line-search sweep
    (even index > 5): the run ENDS on a line-search iteration -> stop label '<stop>_on_linesearch_iteration'"""
    if not c.get("linesearch") or not c["n_iter"]:
        return stop
    last = (len(errors) - 1) if (c["tol"] and len(errors)) else c["n_iter"] - 1
    if last % 2 == 0 and last > 5:
        return stop + "_on_linesearch_iteration"
    return stop


def orthonormal_cols(U, clause, what):
    U = np.asarray(U, dtype=float)
    check(U.ndim == 2, clause + "/shape", f"{what} has ndim {U.ndim}")
    G = U.T @ U
    d = float(np.max(np.abs(G - np.eye(U.shape[1])))) if U.shape[1] else 0.0
    check(np.isfinite(d) and d <= ORTHO_TOL, clause, lambda: f"{what}: max|U^T U - I| = {d:.3e}")


# ----------------------------------------------------------------------------
# CP family
# ----------------------------------------------------------------------------
RANKSPECS_CP = ["int", "int", "same", "frac"]


@st.composite
def _cp_rankspec(draw, shape):
    k = draw(st.sampled_from(RANKSPECS_CP))
    if k == "int":
        return draw(st.integers(1, 3))
    if k == "same":
        return "same"
    return draw(st.sampled_from([0.3, 0.5, 0.75, 1.0]))


@st.composite
def _cp_case(draw, algo, normalize, iters=(0, 1, 2, 5, 8), inits=("svd", "random", "user"), tols=(1e-1, 1e-2, 1e-9, 0),
             min_order=2, max_order=4, kinds=KINDS):
    x = draw(_tensor(min_order, max_order, 1, 4, kinds=kinds, max_size=200))
    shape = x["s"]
    c = {"x": x, "algo": algo, "rank": draw(_cp_rankspec(shape)), "init": draw(st.sampled_from(list(inits))),
         "seed": draw(st.integers(0, 10 ** 6)), "n_iter": draw(st.sampled_from(list(iters))),
         "tol": draw(st.sampled_from(list(tols))), "normalize": normalize,
         "cvg": draw(st.sampled_from(["abs_rec_error", "abs_rec_error", "rec_error"]))}
    if algo == "parafac":
        c["linesearch"] = draw(st.booleans()) and (normalize or draw(st.booleans()))
        if normalize and c["linesearch"] and draw(st.booleans()):
            c["n_iter"] = draw(st.sampled_from([7, 9]))         # the capped run ends on a line-search sweep (6 or 8)
            c["tol"] = draw(st.sampled_from([1e-5, 1e-12, 0]))
        # third stop path: the user callback returns True at sweep `cb_stop` (0-based); None = no callback
        c["cb_stop"] = draw(st.one_of(st.none(), st.integers(0, max(0, c["n_iter"] - 1)))) if c["n_iter"] >= 1 else None
        if normalize and c["linesearch"] and c["n_iter"] in (7, 9) and draw(st.booleans()):
            c["cb_stop"] = None
    if algo == "nn_hals":
        c["nn_sub"] = draw(st.booleans()) and draw(st.booleans())
    if c["init"] == "user":
        c["uw"] = draw(st.sampled_from(["none", "ones", "pos"]))
        c["useed"] = draw(gen.seeds)
        nd = len(shape)
        c["fixed"] = draw(st.one_of(st.none(), st.lists(st.integers(0, max(0, nd - 2)), unique=True, max_size=nd - 1).map(sorted)))
    return c


def _cp_rank(shape, spec):
    r = validate_cp_rank(tuple(shape), rank=spec)
    if not isinstance(r, (int, np.integer)) or r < 1:
        discard("validated CP rank < 1")
    return int(r)


def _cp_user_init(c, shape, rank, nonneg):
    rs = np.random.RandomState(c["useed"] % (2 ** 32))
    facs = [rs.standard_normal((s, rank)) for s in shape]
    if nonneg:
        facs = [np.abs(f) for f in facs]
    w = {"none": None, "ones": np.ones(rank), "pos": np.arange(1, rank + 1) / 2.0}[c["uw"]]
    return (w, facs)


class _StopAt:
    """stopping callback: call 0 is the library's call on the initial iterate (return value ignored there), call i >= 1
    belongs to sweep i - 1; returns True exactly at sweep `k`.  Records in the *transient* key "_cb_fired" of the case
    whether the stop request was issued (the run may have ended earlier by convergence)."""

    def __init__(self, k, case=None, initial_call=True):
        self.k, self.calls, self.fired, self.initial = k, 0, False, initial_call

    def __call__(self, *args):
        sweep = self.calls - (1 if self.initial else 0)
        self.calls += 1
        if sweep == self.k:
            self.fired = True
            return True
        return None


def _run_cp(c, x, rank):
    algo = c["algo"]
    init = c["init"] if c["init"] != "user" else _cp_user_init(c, x.shape, rank, algo in ("nn_mu", "nn_hals"))
    kw = {}
    if c.get("fixed") is not None and c["init"] == "user":
        kw["fixed_modes"] = list(c["fixed"])
    if algo == "parafac":
        if c.get("cb_stop") is not None:
            kw["callback"] = _StopAt(c["cb_stop"], c)
        return parafac(x, c["rank"], n_iter_max=c["n_iter"], init=init, normalize_factors=c["normalize"], tol=c["tol"],
                       random_state=c["seed"], return_errors=True, cvg_criterion=c["cvg"], linesearch=c["linesearch"], **kw)
    if algo == "nn_mu":
        return non_negative_parafac(x, c["rank"], n_iter_max=c["n_iter"], init=init, normalize_factors=c["normalize"],
                                    tol=c["tol"], random_state=c["seed"], return_errors=True, cvg_criterion=c["cvg"], **kw)
    if algo == "nn_hals":
        nn = "all" if not c.get("nn_sub") else [0]
        return non_negative_parafac_hals(x, rank, n_iter_max=c["n_iter"], init=init, normalize_factors=c["normalize"],
                                         tol=c["tol"], random_state=c["seed"], return_errors=True, cvg_criterion=c["cvg"],
                                         nn_modes=nn, **kw)
    raise AssertionError(algo)


def o_cp(c):
    x = _data(c)
    rank = _cp_rank(x.shape, c["rank"])
    res, errors = _run_cp(c, x.copy(), rank)
    clause = c["algo"]
    w, facs = unpack_cp(res, x.ndim, clause)
    cp_shapes(w, facs, x.shape, rank, clause)
    stop = stop_path(errors, c["n_iter"], c["tol"], c["cvg"])
    if c["n_iter"] == 0:
        stop = "iter0"
    if c["algo"] == "parafac":
        stop = _ls_suffix(stop, errors, c)
    if c.get("cb_stop") is not None and len(errors) == c["cb_stop"] + 1:
        # the run ended in the sweep at which the callback answered True (the callback is consulted before the
        # convergence test, so this exit is the callback's even if the tolerance was met in the same sweep)
        stop = "callback"
    if c["normalize"]:
        unit_columns(w, facs, f"{clause}/normalized/{stop}")
    else:
        weights_are_ones(w, clause)
    return {"nontrivial": x.ndim >= 3,
            "labels": [f"order={x.ndim}", f"stop={stop}", f"init={c['init']}", f"n_iter={c['n_iter']}", f"tol={c['tol']}",
                       f"rankspec={type(c['rank']).__name__}", f"rank_gt_side={rank > min(x.shape)}",
                       f"callback={c.get('cb_stop') is not None}"]}


# randomised_parafac / constrained_parafac: shapes + exact-ones weights
@st.composite
def _cp_other_case(draw, algo):
    x = draw(_tensor(3 if algo == "constrained" else 2, 4, 1 if algo != "constrained" else 2, 4, max_size=200))
    c = {"x": x, "algo": algo, "rank": draw(st.integers(1, 3)) if algo == "randomised" else draw(_cp_rankspec(x["s"])),
         "init": draw(st.sampled_from(["svd", "random"])), "seed": draw(st.integers(0, 10 ** 6)),
         "n_iter": draw(st.sampled_from([0, 1, 2, 5])), "tol": draw(st.sampled_from([1e-1, 1e-9, 0]))}
    if algo == "randomised":
        c["n_samples"] = draw(st.integers(c["rank"] + 2, 16))
        c["n_iter"] = max(1, c["n_iter"])
        c["cb_stop"] = draw(st.one_of(st.none(), st.integers(0, c["n_iter"] - 1)))
    else:
        c["cons"] = draw(st.sampled_from(["non_negative", "l1_reg", "normalize", "unimodality"]))
    return c


def o_cp_other(c):
    x = _data(c)
    rank = _cp_rank(x.shape, c["rank"])
    if c["algo"] == "randomised":
        kw = {}
        if c.get("cb_stop") is not None:
            kw["callback"] = _StopAt(c["cb_stop"])
        res = randomised_parafac(x.copy(), c["rank"], c["n_samples"], n_iter_max=c["n_iter"], init=c["init"], tol=c["tol"],
                                 random_state=c["seed"], **kw)
    else:
        np.random.seed(c["seed"] % (2 ** 32))
        kw = {c["cons"]: (0.1 if c["cons"] == "l1_reg" else True)}
        res = constrained_parafac(x.copy(), c["rank"], n_iter_max=c["n_iter"], n_iter_max_inner=3, init=c["init"],
                                  tol_outer=c["tol"], random_state=c["seed"], **kw)
    w, facs = unpack_cp(res, x.ndim, c["algo"])
    cp_shapes(w, facs, x.shape, rank, c["algo"])
    weights_are_ones(w, c["algo"])
    return {"nontrivial": x.ndim >= 3, "labels": [f"order={x.ndim}", f"init={c['init']}", f"n_iter={c['n_iter']}",
                                                  f"rankspec={type(c['rank']).__name__}",
                                                  f"callback={c.get('cb_stop') is not None}"]}


# ----------------------------------------------------------------------------
# PARAFAC2 and CMTF
# ----------------------------------------------------------------------------
@st.composite
def _p2_case(draw, normalize):
    n = draw(st.integers(2, 4))
    K = draw(st.integers(2, 4))
    rank = draw(st.integers(1, min(3, K)))
    uniform = draw(st.booleans())
    J0 = draw(st.integers(rank, 4))
    Js = [J0] * n if uniform else [draw(st.integers(rank, 4)) for _ in range(n)]
    c = {"Js": Js, "K": K, "rank": rank, "dseed": draw(gen.seeds), "lowrank": draw(st.booleans()),
            "as_array": bool(uniform and draw(st.booleans())), "init": draw(st.sampled_from(["random", "svd"])),
            "seed": draw(st.integers(0, 10 ** 6)),
            # line-search iterations are the even sweeps 6, 8, 10: caps 7, 9, 11 END the run on one of them
            "n_iter": draw(st.sampled_from([0, 1, 2, 5, 7, 8, 9, 11] if not normalize else [1, 2, 5, 7, 7, 8, 9, 9, 11])),
            # 1e-12 / 0: the cap is reached; 1e-4 / 1e-6: converges late (possibly on a line-search sweep); >= 1e-2: early
            "tol": draw(st.sampled_from([3e-1, 1e-1, 1e-2, 1e-4, 1e-6, 1e-12, 0])), "normalize": normalize,
            "nn": draw(st.sampled_from([None, None, [0], [0, 2]])), "linesearch": draw(st.booleans()),
            "n_iter_parafac": draw(st.integers(1, 5)), "via_class": draw(st.booleans())}
    if normalize and c["linesearch"] and draw(st.integers(0, 2)) > 0:
        c["n_iter"] = draw(st.sampled_from([7, 9, 11]))     # weight the runs that end on a line-search sweep
        c["tol"] = draw(st.sampled_from([1e-4, 1e-6, 1e-12, 0]))
    return c


def o_p2(c):
    rs = np.random.RandomState(c["dseed"] % (2 ** 32))
    n, K, r = len(c["Js"]), c["K"], c["rank"]
    if c["lowrank"]:
        A = rs.standard_normal((n, r)) + 0.5
        C = rs.standard_normal((K, r))
        B = rs.standard_normal((r, r))
        slices = [gen.orthonormal(int(rs.randint(0, 2 ** 31 - 1)), J, r) @ B @ np.diag(A[i]) @ C.T for i, J in enumerate(c["Js"])]
    else:
        slices = [rs.standard_normal((J, K)) for J in c["Js"]]
    data = np.stack(slices) if c["as_array"] else [s.copy() for s in slices]
    p2kw = dict(n_iter_max=c["n_iter"], init=c["init"], normalize_factors=c["normalize"], tol=c["tol"], nn_modes=c["nn"],
                random_state=c["seed"], n_iter_parafac=c["n_iter_parafac"], linesearch=c["linesearch"], return_errors=True)
    if c.get("via_class"):
        from tensorly.decomposition import Parafac2
        est = Parafac2(r, **p2kw)
        res = est.fit_transform(data)
        errors = est.errors_
    else:
        res, errors = parafac2(data, r, **p2kw)
    try:
        w, facs, projs = res
        facs, projs = list(facs), list(projs)
    except Exception:  # noqa
        raise Fail("parafac2/structure", f"result is not (weights, factors, projections): {type(res).__name__}")
    check(len(facs) == 3, "parafac2/structure", f"{len(facs)} factors")
    assert_shape(facs[0], (n, r), "parafac2/factor_shape")
    assert_shape(facs[1], (r, r), "parafac2/factor_shape")
    assert_shape(facs[2], (K, r), "parafac2/factor_shape")
    assert_shape(w, (r,), "parafac2/weights_shape")
    check(len(projs) == n, "parafac2/projections/count", f"{len(projs)} projections for {n} slices")
    Bm = np.asarray(facs[1], dtype=float)
    cross = []
    for i, P in enumerate(projs):
        assert_shape(P, (c["Js"][i], r), "parafac2/projections/shape")
        orthonormal_cols(P, "parafac2/projections/orthonormal", f"projection[{i}]")
        Bi = np.asarray(P, dtype=float) @ Bm
        cross.append(Bi.T @ Bi)
    sc = max(1.0, float(np.max(np.abs(cross[0]))))
    for i in range(1, n):
        close(cross[i], cross[0], "parafac2/cross_product", rel=1e-8, scale=sc)
    stop = stop_path(errors, c["n_iter"], c["tol"]) if c["n_iter"] else "iter0"
    stop = _ls_suffix(stop, errors, c)
    if c["normalize"] and c["n_iter"] >= 1:
        unit_columns(w, facs, f"parafac2/normalized/{stop}")
    elif not c["normalize"]:
        weights_are_ones(w, "parafac2")
    return {"nontrivial": True, "labels": [f"stop={stop}", f"init={c['init']}", f"n_iter={c['n_iter']}", f"nn={c['nn']}",
                                           f"linesearch={c['linesearch']}", f"uniform={len(set(c['Js'])) == 1}",
                                           f"class={bool(c.get('via_class'))}"]}


@st.composite
def _cmtf_case(draw, normalize):
    shape = draw(gen.shapes(3, 3, 2, 4))
    return {"x": draw(X.data(shape=shape, kinds=("normal", "lowrank", "nonneg"))), "J": draw(st.integers(1, 4)),
            "mseed": draw(gen.seeds), "rank": draw(st.integers(1, 3)), "init": draw(st.sampled_from(["svd", "random"])),
            "seed": draw(st.integers(0, 10 ** 6)), "n_iter": draw(st.sampled_from([1, 2, 5, 8])),
            "tol": draw(st.sampled_from([3e-1, 1e-1, 1e-2, 1e-9, 0])), "normalize": normalize}


def o_cmtf(c):
    x = _data(c)
    rs = np.random.RandomState(c["mseed"] % (2 ** 32))
    Y = rs.standard_normal((x.shape[0], c["J"]))
    r = c["rank"]
    np.random.seed(c["seed"] % (2 ** 32))   # init="random" draws from the global RNG (no random_state parameter)
    res = coupled_matrix_tensor_3d_factorization(x.copy(), Y.copy(), r, init=c["init"], n_iter_max=c["n_iter"], tol=c["tol"],
                                                 normalize_factors=c["normalize"])
    try:
        tcp, mcp, errors = res
    except Exception:  # noqa
        raise Fail("cmtf/structure", "result is not (tensor_cp, matrix_cp, errors)")
    w, facs = unpack_cp(tcp, 3, "cmtf/tensor")
    cp_shapes(w, facs, x.shape, r, "cmtf/tensor")
    wm, fm = unpack_cp(mcp, 2, "cmtf/matrix")
    cp_shapes(wm, fm, (x.shape[0], c["J"]), r, "cmtf/matrix")
    errors = [float(e) for e in errors]
    conv = len(errors) >= 2 and c["tol"] and (abs(errors[-1] - errors[-2]) / errors[-2] <= c["tol"] or errors[-1] < c["tol"])
    stop = "converged" if conv else "cap"
    if c["normalize"]:
        unit_columns(w, facs, f"cmtf/tensor/normalized/{stop}")
        unit_columns(wm, fm, f"cmtf/matrix/normalized/{stop}")
    else:
        weights_are_ones(w, "cmtf/tensor")
        weights_are_ones(wm, "cmtf/matrix")
    return {"nontrivial": True, "labels": [f"stop={stop}", f"init={c['init']}", f"n_iter={c['n_iter']}"]}


# ----------------------------------------------------------------------------
# Tucker family
# ----------------------------------------------------------------------------
@st.composite
def _tucker_rankspec(draw, nd):
    k = draw(st.sampled_from(["int", "list", "list", "same", "frac"]))
    if k == "int":
        return draw(st.integers(1, 4))
    if k == "list":
        return [draw(st.integers(1, 5)) for _ in range(nd)]
    if k == "same":
        return "same"
    return draw(st.sampled_from([0.3, 0.5, 0.75, 1.0]))


TUCKER_KINDS = KINDS + ("lowtucker", "lowtucker", "dupslice", "dupslice")


@st.composite
def _tucker_case(draw):
    x = draw(_tensor(2, 5, 1, 4, max_size=300, kinds=TUCKER_KINDS))
    nd = len(x["s"])
    return {"x": x, "rank": draw(_tucker_rankspec(nd)), "init": draw(st.sampled_from(["svd", "svd", "random"])),
            "seed": draw(st.integers(0, 10 ** 6)), "n_iter": draw(st.sampled_from([0, 1, 2, 5])),
            "tol": draw(st.sampled_from([1e-1, 1e-5, 0])), "svd": draw(st.sampled_from(["truncated_svd", "truncated_svd", "symeig_svd"]))}


def _hooi_clauses(x, core, facs, modes, ranks, clause, check_ortho, check_core):
    """ranks: validated rank per decomposed mode (already ints)"""
    exp_core = list(x.shape)
    for f, m, r in zip(facs, modes, ranks):
        k = min(int(r), x.shape[m])
        assert_shape(f, (x.shape[m], k), f"{clause}/factor_shape")
        exp_core[m] = k
    assert_shape(core, exp_core, f"{clause}/core_shape")
    if check_ortho:
        for f, m in zip(facs, modes):
            orthonormal_cols(f, f"{clause}/orthonormal", f"factor of mode {m}")
    if check_core:
        want = ref.multi_mode_dot(x, [np.asarray(f, dtype=float).T for f in facs], list(modes))
        close(core, want, f"{clause}/core_projection", rel=1e-8, scale=float(np.linalg.norm(x)))


def _over_requested(x, modes, ranks):
    """label: some requested (side-clipped) rank exceeds the numerical rank of that mode's unfolding"""
    for m, r in zip(modes, ranks):
        unf = np.moveaxis(x, m, 0).reshape(x.shape[m], -1)
        if min(int(r), x.shape[m]) > np.linalg.matrix_rank(unf):
            return True
    return False


def o_tucker(c):
    x = _data(c)
    ranks = validate_tucker_rank(tuple(x.shape), rank=c["rank"] if not isinstance(c["rank"], list) else list(c["rank"]))
    res, errors = tucker(x.copy(), c["rank"] if not isinstance(c["rank"], list) else list(c["rank"]), n_iter_max=c["n_iter"],
                         init=c["init"], tol=c["tol"], random_state=c["seed"], svd=c["svd"], return_errors=True)
    try:
        core, facs = res
        facs = list(facs)
    except Exception:  # noqa
        raise Fail("tucker/structure", "result is not (core, factors)")
    check(len(facs) == x.ndim, "tucker/structure", f"{len(facs)} factors")
    svd_based = c["n_iter"] >= 1 or c["init"] == "svd"
    if c["init"] == "random" and c["n_iter"] == 0:
        # random init returned as is: shapes (side, r) unclipped, no canonical form promised
        for m, f in enumerate(facs):
            assert_shape(f, (x.shape[m], int(ranks[m])), "tucker/random_iter0/factor_shape")
        assert_shape(core, [int(r) for r in ranks], "tucker/random_iter0/core_shape")
    else:
        # `svd` only selects the routine of the *initialisation*; every HOOI sweep uses the default truncated SVD, so after
        # >= 1 sweep the factors are orthonormal whatever `svd` is.  Only (symeig_svd init, no sweep) on rank-deficient
        # unfoldings is KF-C05-1's class and not asserted.
        ortho = c["n_iter"] >= 1 or (c["init"] == "svd" and c["svd"] == "truncated_svd")
        _hooi_clauses(x, core, facs, list(range(x.ndim)), ranks, "tucker", ortho, svd_based)
    stop = "cap"
    if c["tol"] and len(errors) >= 3 and abs(errors[-2] - errors[-1]) < c["tol"]:
        stop = "converged"
    return {"nontrivial": x.ndim >= 3, "labels": [f"order={x.ndim}", f"stop={stop}", f"init={c['init']}", f"n_iter={c['n_iter']}",
                                                  f"rankspec={type(c['rank']).__name__}", f"svd={c['svd']}", f"data={c['x']['kind']}",
                                                  f"clipped={any(int(r) > s for r, s in zip(ranks, x.shape))}",
                                                  f"rank_deficient={_over_requested(x, list(range(x.ndim)), ranks)}"]}


@st.composite
def _tucker_fixed_case(draw):
    """tucker with a user init and a subset of fixed factors, unequal ranks"""
    x = draw(_tensor(3, 4, 2, 4, max_size=300))
    nd = len(x["s"])
    ranks = [draw(st.integers(1, s)) for s in x["s"]]
    k = draw(st.integers(1, nd - 1))
    fixed = sorted(draw(st.permutations(list(range(nd))))[:k])
    return {"x": x, "rank": ranks, "fixed": fixed, "seed": draw(st.integers(0, 10 ** 6)),
            "n_iter": draw(st.sampled_from([1, 2, 4])), "rank_as": draw(st.sampled_from(["list", "tuple"]))}


def o_tucker_fixed(c):
    x = _data(c)
    rs = np.random.RandomState(c["seed"])
    ranks = [int(r) for r in c["rank"]]
    core0 = rs.standard_normal(ranks)
    facs0 = [np.linalg.qr(rs.standard_normal((s, s)))[0][:, :r] for s, r in zip(x.shape, ranks)]
    rank_arg = list(ranks) if c["rank_as"] == "list" else tuple(ranks)
    res = tucker(x.copy(), rank_arg, fixed_factors=list(c["fixed"]), init=(core0.copy(), [f.copy() for f in facs0]),
                 n_iter_max=c["n_iter"], tol=0)
    try:
        core, facs = res
        facs = list(facs)
    except Exception:  # noqa
        raise Fail("tucker_fixed/structure", "result is not (core, factors)")
    check(len(facs) == x.ndim, "tucker_fixed/structure", f"{len(facs)} factors for order {x.ndim}")
    for m, f in enumerate(facs):
        assert_shape(f, (x.shape[m], ranks[m]), "tucker_fixed/factor_shape")
    assert_shape(core, ranks, "tucker_fixed/core_shape")
    for m in range(x.ndim):
        if m not in c["fixed"]:
            orthonormal_cols(facs[m], "tucker_fixed/orthonormal", f"free factor of mode {m}")
    return {"nontrivial": len(set(ranks)) > 1, "labels": [f"order={x.ndim}", f"n_fixed={len(c['fixed'])}",
                                                          f"unequal_ranks={len(set(ranks)) > 1}"]}


@st.composite
def _partial_case(draw):
    x = draw(_tensor(2, 4, 1, 4, max_size=300, kinds=TUCKER_KINDS))
    nd = len(x["s"])
    modes = draw(st.lists(st.integers(0, nd - 1), unique=True, min_size=1, max_size=nd).map(sorted))
    rk = draw(st.sampled_from(["int", "list", "list"]))
    rank = draw(st.integers(1, 4)) if rk == "int" else [draw(st.integers(1, 5)) for _ in modes]
    return {"x": x, "modes": modes, "rank": rank, "init": draw(st.sampled_from(["svd", "svd", "random"])),
            "seed": draw(st.integers(0, 10 ** 6)), "n_iter": draw(st.sampled_from([0, 1, 2, 5])),
            "tol": draw(st.sampled_from([1e-1, 1e-5, 0])),
            "svd": draw(st.sampled_from(["truncated_svd", "symeig_svd"]))}


def o_partial(c):
    x = _data(c)
    modes = list(c["modes"])
    rank = c["rank"] if not isinstance(c["rank"], list) else list(c["rank"])
    ranks = [rank] * len(modes) if isinstance(rank, int) else list(rank)
    res = partial_tucker(x.copy(), rank, modes=list(modes), n_iter_max=c["n_iter"], init=c["init"], tol=c["tol"],
                         random_state=c["seed"], svd=c.get("svd", "truncated_svd"))
    try:
        (core, facs), errors = res
        facs = list(facs)
    except Exception:  # noqa
        raise Fail("partial_tucker/structure", "result is not ((core, factors), errors)")
    check(len(facs) == len(modes), "partial_tucker/structure", f"{len(facs)} factors for {len(modes)} modes")
    svd_based = c["n_iter"] >= 1 or c["init"] == "svd"
    if not svd_based:
        for f, m, r in zip(facs, modes, ranks):
            assert_shape(f, (x.shape[m], r), "partial_tucker/random_iter0/factor_shape")
    else:
        ortho = c["n_iter"] >= 1 or c.get("svd", "truncated_svd") == "truncated_svd"   # see o_tucker
        _hooi_clauses(x, core, facs, modes, ranks, "partial_tucker", ortho, True)
    return {"nontrivial": x.ndim >= 3, "labels": [f"order={x.ndim}", f"nmodes={len(modes)}/{x.ndim}", f"init={c['init']}",
                                                  f"n_iter={c['n_iter']}", f"rankspec={type(c['rank']).__name__}",
                                                  f"svd={c.get('svd')}", f"data={c['x']['kind']}",
                                                  f"rank_deficient={_over_requested(x, modes, ranks)}"]}


@st.composite
def _nntucker_case(draw, algo, normalize):
    x = draw(_tensor(2, 4 if algo == "mu" else 3, 1, 4 if algo == "mu" else 3, kinds=("nonneg", "normal", "lowrank_nonneg", "int"),
                     max_size=200))
    nd = len(x["s"])
    rk = draw(st.sampled_from(["int", "list", "same", "frac"]))
    rank = (draw(st.integers(1, 3)) if rk == "int" else [draw(st.integers(1, 4)) for _ in range(nd)] if rk == "list"
            else "same" if rk == "same" else draw(st.sampled_from([0.5, 1.0])))
    c = {"x": x, "rank": rank, "algo": algo, "init": draw(st.sampled_from(["svd", "random"])),
         "seed": draw(st.integers(0, 10 ** 6)), "n_iter": draw(st.sampled_from([0, 1, 2, 5, 8])),
         "tol": draw(st.sampled_from([3e-1, 1e-1, 1e-2, 1e-9])), "normalize": normalize}
    if algo == "hals":
        c["alg"] = draw(st.sampled_from(["fista", "active_set"]))
        c["n_iter"] = min(c["n_iter"], 5)
    return c


def o_nntucker(c):
    x = _data(c)
    rank = c["rank"] if not isinstance(c["rank"], list) else list(c["rank"])
    ranks = [int(r) for r in validate_tucker_rank(tuple(x.shape), rank=rank)]
    if c["algo"] == "mu":
        res, errors = non_negative_tucker(x.copy(), rank, n_iter_max=c["n_iter"], init=c["init"], tol=c["tol"],
                                          random_state=c["seed"], normalize_factors=c["normalize"], return_errors=True)
    else:
        res, errors = non_negative_tucker_hals(x.copy(), rank, n_iter_max=c["n_iter"], init=c["init"], tol=c["tol"],
                                               random_state=c["seed"], normalize_factors=c["normalize"], return_errors=True,
                                               algorithm=c["alg"])
    clause = f"nn_tucker_{c['algo']}"
    try:
        core, facs = res
        facs = list(facs)
    except Exception:  # noqa
        raise Fail(clause + "/structure", "result is not (core, factors)")
    check(len(facs) == x.ndim, clause + "/structure", f"{len(facs)} factors")
    cshape = []
    for m, f in enumerate(facs):
        f = np.asarray(f)
        # svd init clips the rank by the mode size, random init does not: both are (side, k) with k <= r, k = r if r <= side
        check(f.ndim == 2 and f.shape[0] == x.shape[m] and f.shape[1] <= ranks[m]
              and (f.shape[1] == ranks[m] or ranks[m] > x.shape[m]), clause + "/factor_shape",
              lambda: f"factor[{m}] shape {f.shape}, side {x.shape[m]}, validated rank {ranks[m]}")
        cshape.append(f.shape[1])
    assert_shape(core, cshape, clause + "/core_shape")
    errors = [float(e) for e in errors]
    stop = "converged" if (c["tol"] and len(errors) >= 3 and abs(errors[-2] - errors[-1]) < c["tol"]) else "cap"
    if c["n_iter"] == 0:
        stop = "iter0"
    if c["normalize"] and c["n_iter"] >= 1:
        for m, f in enumerate(facs):
            f = np.asarray(f, dtype=float)
            check(bool(np.all(np.isfinite(f))), f"{clause}/normalized/{stop}/finite", f"factor[{m}] non-finite")
            nrm = np.linalg.norm(f, axis=0)
            ok = (np.abs(nrm - 1) <= ORTHO_TOL) | (nrm == 0)
            check(bool(np.all(ok)), f"{clause}/normalized/{stop}/unit_columns",
                  lambda: f"factor[{m}] column norms {nrm.tolist()}")
    return {"nontrivial": x.ndim >= 3, "labels": [f"order={x.ndim}", f"stop={stop}", f"init={c['init']}", f"n_iter={c['n_iter']}",
                                                  f"rankspec={type(c['rank']).__name__}"]}


# ----------------------------------------------------------------------------
# TT / TT-matrix / TR
# ----------------------------------------------------------------------------
@st.composite
def _tt_rankspec(draw, nd, hi=5):
    k = draw(st.sampled_from(["int", "list", "list", "same", "frac"]))
    if k == "int":
        return draw(st.integers(1, hi))
    if k == "list":
        return [1] + [draw(st.integers(1, hi)) for _ in range(nd - 1)] + [1]
    if k == "same":
        return "same"
    return draw(st.sampled_from([0.3, 0.5, 0.75, 1.0]))


def _tt_expected(shape, req):
    """sequential clipping of the requested bond ranks by the unfolding sizes (independent of the library).
    `req` may be the raw request or the validator's output v (v_{k+1} = min(req_k n_k, ncol, req_{k+1})): because the
    running rank r_k <= req_k, min(r_k n_k, ncol, v_{k+1}) = min(r_k n_k, ncol, req_{k+1}), so both give the same chain."""
    r = [1]
    for k in range(len(shape) - 1):
        n_row = r[k] * shape[k]
        n_col = gen.prod(shape[k + 1:])
        r.append(int(min(n_row, n_col, req[k + 1])))
    r.append(1)
    return r


def _tt_clauses(cores, shape, exp, clause, left_orth=True):
    check(len(cores) == len(shape), clause + "/structure", f"{len(cores)} cores for order {len(shape)}")
    for k, core in enumerate(cores):
        assert_shape(core, (exp[k], shape[k], exp[k + 1]), clause + "/core_shape")
    check(np.shape(cores[0])[0] == 1 and np.shape(cores[-1])[-1] == 1, clause + "/boundary", "boundary ranks are not 1")
    if left_orth:
        for k, core in enumerate(cores[:-1]):
            a = np.asarray(core, dtype=float)
            orthonormal_cols(a.reshape(-1, a.shape[-1]), clause + "/left_orthogonal", f"core {k}")


@st.composite
def _tt_case(draw):
    x = draw(_tensor(2, 5, 1, 4, max_size=400))
    return {"x": x, "rank": draw(_tt_rankspec(len(x["s"]))), "svd": draw(st.sampled_from(["truncated_svd", "truncated_svd", "symeig_svd"]))}


def o_tt(c):
    x = _data(c)
    rank = c["rank"] if not isinstance(c["rank"], list) else list(c["rank"])
    req = validate_tt_rank(tuple(x.shape), rank=rank)
    exp = _tt_expected(x.shape, req)
    res = tensor_train(x.copy(), rank, svd=c["svd"])
    cores = list(res)
    _tt_clauses(cores, x.shape, exp, "tensor_train", left_orth=(c["svd"] == "truncated_svd"))
    return {"nontrivial": x.ndim >= 3, "labels": [f"order={x.ndim}", f"rankspec={type(c['rank']).__name__}", f"svd={c['svd']}",
                                                  f"clipped={exp != [int(r) for r in (req if not isinstance(rank, int) else [1] + [rank] * (x.ndim - 1) + [1])]}"]}


@st.composite
def _tt_history_case(draw, fam):
    """the same Python list object is passed as `rank` to two successive calls: first on a small tensor A for which some
    requested bond rank is unattainable, then on a larger tensor B"""
    nd = draw(st.integers(3, 4))
    small = [draw(st.integers(1, 2)) for _ in range(nd)]
    big = [s + draw(st.integers(1, 2)) for s in small]
    inner = [draw(st.integers(2, 6)) for _ in range(nd - 1)]
    r0 = 1 if fam == "tt" else draw(st.integers(1, 2))
    rank = [r0] + inner + [r0]
    if fam == "tr":
        rank[1] = 1 if r0 == 2 else draw(st.integers(1, 2))     # keep r0*r1 <= 2 admissible for the small first unfolding
        small[0], small[1] = 2, 2
        big = [s + draw(st.integers(1, 2)) for s in small]
    return {"fam": fam, "small": small, "big": big, "rank": rank, "seedA": draw(gen.seeds), "seedB": draw(gen.seeds)}


def _tr_expected(shape, req):
    er = [req[0], req[1]]
    nd = len(shape)
    for k in range(1, nd - 1):
        er.append(int(min(er[k] * shape[k], gen.prod(shape[k + 1:]) * er[0], req[k + 1])))
    er.append(er[0])
    return er


def o_tt_history(c):
    A = np.random.RandomState(c["seedA"] % (2 ** 32)).standard_normal(tuple(c["small"]))
    B = np.random.RandomState(c["seedB"] % (2 ** 32)).standard_normal(tuple(c["big"]))
    original = [int(r) for r in c["rank"]]
    shared = list(original)                      # ONE list object used for both calls
    fam = c["fam"]
    if fam == "tr":
        for shp in (A.shape, B.shape):
            if original[0] * original[1] > min(shp[0], gen.prod(shp[1:])):
                discard("first TR ranks inadmissible")
        first = list(tensor_ring(A, shared))
        second = list(tensor_ring(B, shared))
        expA, expB = _tr_expected(A.shape, original), _tr_expected(B.shape, original)
    else:
        first = list(tensor_train(A, shared))
        second = list(tensor_train(B, shared))
        expA, expB = _tt_expected(A.shape, original), _tt_expected(B.shape, original)
    name = "tensor_train" if fam == "tt" else "tensor_ring"
    for k, core in enumerate(first):
        assert_shape(core, (expA[k], A.shape[k], expA[k + 1]), f"{name}/history/first_call")
    for k, core in enumerate(second):
        assert_shape(core, (expB[k], B.shape[k], expB[k + 1]), f"{name}/history/second_call")
    return {"nontrivial": expA != original and expB != expA,
            "labels": [f"fam={fam}", f"first_clipped={expA != original}", f"second_differs={expB != expA}"]}


@st.composite
def _ttm_case(draw):
    n = draw(st.integers(1, 3))
    ins = [draw(st.integers(1, 3)) for _ in range(n)]
    outs = [draw(st.integers(1, 3)) for _ in range(n)]
    rk = draw(st.sampled_from(["int", "list", "same", "frac"]))
    rank = (draw(st.integers(1, 5)) if rk == "int" else [1] + [draw(st.integers(1, 5)) for _ in range(n - 1)] + [1] if rk == "list"
            else "same" if rk == "same" else draw(st.sampled_from([0.5, 1.0])))
    return {"ins": ins, "outs": outs, "seed": draw(gen.seeds), "rank": rank}


def o_ttm(c):
    ins, outs = c["ins"], c["outs"]
    n = len(ins)
    rs = np.random.RandomState(c["seed"] % (2 ** 32))
    x = rs.standard_normal(tuple(ins) + tuple(outs))
    rank = c["rank"] if not isinstance(c["rank"], list) else list(c["rank"])
    merged = [a * b for a, b in zip(ins, outs)]
    if n == 1:
        exp = [1, 1]
    else:
        exp = _tt_expected(merged, validate_tt_rank(tuple(merged), rank=rank))
    res = tensor_train_matrix(x.copy(), rank)
    cores = list(res)
    check(len(cores) == n, "tt_matrix/structure", f"{len(cores)} cores for {n} index pairs")
    for k, core in enumerate(cores):
        assert_shape(core, (exp[k], ins[k], outs[k], exp[k + 1]), "tt_matrix/core_shape")
    return {"nontrivial": n >= 2, "labels": [f"pairs={n}", f"rankspec={type(c['rank']).__name__}"]}


@st.composite
def _tr_case(draw):
    x = draw(_tensor(2, 4, 1, 4, max_size=300))
    nd = len(x["s"])
    rk = draw(st.sampled_from(["int", "list", "list", "same", "frac"]))
    if rk == "int":
        rank = draw(st.integers(1, 3))
    elif rk == "list":
        r0 = draw(st.integers(1, 2))
        rank = [r0] + [draw(st.integers(1, 9)) for _ in range(nd - 1)] + [r0]
        rank[1] = min(rank[1], 2)
    else:
        rank = "same" if rk == "same" else draw(st.sampled_from([0.3, 0.5, 1.0]))
    return {"x": x, "rank": rank, "mode": draw(st.integers(0, nd - 1))}


def o_tr(c):
    x = _data(c)
    nd = x.ndim
    rank = c["rank"] if not isinstance(c["rank"], list) else list(c["rank"])
    req = [int(r) for r in validate_tr_rank(tuple(x.shape), rank=rank)]
    if min(req) < 1:
        discard("validated TR rank < 1")
    mode = c["mode"]
    # independent replay of the rank bookkeeping in the rotated order
    sizes = list(x.shape[mode:]) + list(x.shape[:mode])
    rr = req[mode:-1] + req[:mode] + [req[mode]]
    admissible = rr[0] * rr[1] <= min(sizes[0], gen.prod(sizes[1:]))
    try:
        res = tensor_ring(x.copy(), rank, mode=mode)
    except ValueError as e:
        check(not admissible, "tensor_ring/raised_on_admissible", f"ValueError on admissible ranks {req}, mode {mode}: {e}")
        return {"nontrivial": False, "labels": ["rejected=inadmissible_first_ranks", f"order={nd}"]}
    check(admissible, "tensor_ring/accepted_inadmissible", f"ranks {req}, mode {mode}: r0*r1 exceeds the first unfolding")
    er = [rr[0], rr[1]]
    for k in range(1, nd - 1):
        n_row = er[k] * sizes[k]
        n_col = gen.prod(sizes[k + 1:]) * er[0]
        er.append(int(min(n_row, n_col, rr[k + 1])))
    er.append(er[0])
    er = er[:nd + 1] if nd >= 2 else er
    cores = list(res)
    check(len(cores) == nd, "tensor_ring/structure", f"{len(cores)} cores for order {nd}")
    # rotate expectations back to the original mode order
    for j in range(nd):
        k = (j - mode) % nd           # position of original mode j in the rotated chain
        assert_shape(cores[j], (er[k], x.shape[j], er[k + 1] if k + 1 <= nd else er[0]), "tensor_ring/core_shape")
    for j in range(nd):
        check(np.shape(cores[j])[2] == np.shape(cores[(j + 1) % nd])[0], "tensor_ring/chain",
              f"core {j} right rank != core {(j + 1) % nd} left rank")
    return {"nontrivial": nd >= 3, "labels": [f"order={nd}", f"mode={mode}", f"rankspec={type(c['rank']).__name__}",
                                              f"clipped={er[:nd] != rr[:nd]}"]}


@st.composite
def _trals_case(draw, sampled):
    x = draw(_tensor(2 if not sampled else 3, 4, 2, 3, kinds=("normal", "lowrank"), max_size=100))
    nd = len(x["s"])
    rk = draw(st.sampled_from(["int", "list", "same"]))
    if rk == "int":
        rank = draw(st.integers(1, 2))
    elif rk == "list":
        r0 = draw(st.integers(1, 2))
        rank = [r0] + [draw(st.integers(1, 2)) for _ in range(nd - 1)] + [r0]
    else:
        rank = "same"
    c = {"x": x, "rank": rank, "seed": draw(st.integers(0, 10 ** 6)), "n_iter": draw(st.sampled_from([0, 1, 2, 5])),
         "tol": draw(st.sampled_from([1e-1, 1e-6, 0]))}
    if sampled:
        c["n_samples"] = draw(st.integers(2, 10))
        c["uniform"] = draw(st.booleans())
        c["rand_err"] = draw(st.booleans())
    else:
        c["ls"] = draw(st.sampled_from(["lstsq", "normal_eq"]))
    c["cb_stop"] = draw(st.one_of(st.none(), st.integers(0, c["n_iter"] - 1))) if c["n_iter"] >= 1 else None
    return c


def o_trals(c):
    x = _data(c)
    nd = x.ndim
    rank = c["rank"] if not isinstance(c["rank"], list) else list(c["rank"])
    req = [int(r) for r in validate_tr_rank(tuple(x.shape), rank=rank)]
    if min(req) < 1:
        discard("validated TR rank < 1")
    kw = {}
    if c.get("cb_stop") is not None:
        kw["callback"] = _StopAt(c["cb_stop"])
    if "n_samples" in c:
        res = tensor_ring_als_sampled(x.copy(), rank, c["n_samples"], n_iter_max=c["n_iter"], tol=c["tol"],
                                      uniform_sampling=c["uniform"], randomized_error=c["rand_err"], random_state=c["seed"], **kw)
        clause = "tr_als_sampled"
    else:
        res = tensor_ring_als(x.copy(), rank, ls_solve=c["ls"], n_iter_max=c["n_iter"], tol=c["tol"], random_state=c["seed"], **kw)
        clause = "tr_als"
    cores = list(res)
    check(len(cores) == nd, clause + "/structure", f"{len(cores)} cores")
    for k, core in enumerate(cores):
        assert_shape(core, (req[k], x.shape[k], req[k + 1]), clause + "/core_shape")
    check(np.shape(cores[0])[0] == np.shape(cores[-1])[2], clause + "/ring_closure", "r0 != rN")
    return {"nontrivial": nd >= 3, "labels": [f"order={nd}", f"n_iter={c['n_iter']}", f"rankspec={type(c['rank']).__name__}",
                                              f"callback={c.get('cb_stop') is not None}"]}


@st.composite
def _cross_case(draw, int_rank=False):
    shape = draw(gen.shapes(3, 4, 2, 4).filter(lambda s: gen.prod(s) <= 200))
    nd = len(shape)
    if int_rank:
        rank = draw(st.integers(1, 2))
    else:
        rank = [1]
        for k in range(nd - 1):
            hi = min(rank[k] * shape[k], gen.prod(shape[k + 1:]), 3)
            rank.append(draw(st.integers(1, hi)))
        rank.append(1)
        for k in range(nd - 1, 0, -1):      # the right-to-left sweep needs rank[k] <= rank[k+1] * shape[k]
            rank[k] = min(rank[k], rank[k + 1] * shape[k])
    return {"x": draw(X.data(shape=shape, kinds=("normal", "lowrank", "nonneg"))), "rank": rank,
            "seed": draw(st.integers(0, 10 ** 6)), "n_iter": draw(st.sampled_from([5, 20, 100])),
            "tol": draw(st.sampled_from([5e-1, 1e-1, 1e-4]))}


def o_cross(c):
    x = _data(c)
    nd = x.ndim
    rank = c["rank"] if not isinstance(c["rank"], list) else list(c["rank"])
    req = [1] + [rank] * (nd - 1) + [1] if isinstance(rank, int) else list(rank)
    try:
        res = tensor_train_cross(x.copy(), rank, tol=c["tol"], n_iter_max=c["n_iter"], random_state=c["seed"])
    except ValueError as e:
        # the routine documents non-convergence by raising: a legitimate rejection, counted
        if "did not converge" in str(e) or "Maximum number of iterations" in str(e) or "rank is too large" in str(e):
            discard("lib: tt-cross reports non-convergence")
        raise
    cores = list(res)
    check(len(cores) == nd, "tt_cross/structure", f"{len(cores)} cores")
    check(np.shape(cores[0])[0] == 1 and np.shape(cores[-1])[-1] == 1, "tt_cross/boundary", "boundary ranks are not 1")
    for k, core in enumerate(cores):
        s = np.shape(core)
        check(len(s) == 3 and s[1] == x.shape[k] and s[0] <= req[k] and s[2] <= req[k + 1], "tt_cross/core_shape",
              f"core {k} shape {s}, requested ranks {req}")
        if k + 1 < nd:
            check(s[2] == np.shape(cores[k + 1])[0], "tt_cross/chain", f"core {k} right rank != core {k + 1} left rank")
    exact = all(np.shape(cores[k]) == (req[k], x.shape[k], req[k + 1]) for k in range(nd))
    return {"nontrivial": True, "labels": [f"order={nd}", f"exact_ranks={exact}", f"rankspec={type(c['rank']).__name__}"]}


# ----------------------------------------------------------------------------
# validators (independent clauses)
# ----------------------------------------------------------------------------
@st.composite
def _val_case(draw, fam, tt2c=False):
    shape = draw(gen.shapes(2, 5, 1, 6)) if not tt2c else draw(gen.shapes(2, 2, 1, 6))
    nd = len(shape)
    kind = draw(st.sampled_from(["int", "list", "same", "frac", "bad_boundary"] if fam in ("tt", "tr") else ["int", "list", "same", "frac"]))
    c = {"shape": shape, "fam": fam, "kind": kind, "rounding": draw(st.sampled_from(["round", "floor", "ceil"]))}
    if kind == "int":
        c["rank"] = draw(st.integers(1, 7))
    elif kind == "list":
        if fam == "tucker":
            c["rank"] = [draw(st.integers(1, 7)) for _ in range(nd)]
        elif fam == "tt":
            c["rank"] = [1] + [draw(st.integers(1, 7)) for _ in range(nd - 1)] + [1]
        elif fam == "tr":
            r0 = draw(st.integers(1, 4))
            c["rank"] = [r0] + [draw(st.integers(1, 7)) for _ in range(nd - 1)] + [r0]
        else:
            c["rank"] = draw(st.integers(1, 7))
            c["kind"] = "int"
    elif kind == "same":
        c["rank"] = "same"
    elif kind == "frac":
        c["rank"] = draw(st.sampled_from([0.1, 0.3, 0.5, 0.75, 1.0]))
    else:
        a, b = draw(st.integers(1, 4)), draw(st.integers(1, 4))
        if fam == "tt":
            if a == 1 and b == 1:
                a = 2
        elif a == b:
            b = a + 1
        c["rank"] = [a] + [draw(st.integers(1, 4)) for _ in range(nd - 1)] + [b]
    if fam == "tt":
        c["constant"] = draw(st.booleans())
        c["overparam"] = draw(st.booleans())
        if tt2c:      # N8: order 2 + fractional spec + constant_rank=True divides by zero -> own sub-check
            c["kind"], c["rank"], c["constant"] = "frac", draw(st.sampled_from(["same", 0.3, 0.5, 1.0])), True
        elif nd == 2 and c["kind"] in ("frac", "same"):
            c["constant"] = False
    return c


def _nparams(fam, shape, r):
    if fam == "cp":
        return r * sum(shape)
    if fam == "tucker":
        return gen.prod(r) + sum(s * k for s, k in zip(shape, r))
    return sum(r[k] * shape[k] * r[k + 1] for k in range(len(shape)))


def o_validator(c):
    shape, fam, kind = tuple(c["shape"]), c["fam"], c["kind"]
    rank = c["rank"] if not isinstance(c["rank"], list) else list(c["rank"])
    nd = len(shape)
    total = gen.prod(shape)
    kw = {"rounding": c["rounding"]}
    if fam == "cp":
        fn = validate_cp_rank
    elif fam == "tucker":
        fn = validate_tucker_rank
    elif fam == "tt":
        fn = validate_tt_rank
        kw["constant_rank"] = c["constant"]
        kw["allow_overparametrization"] = c["overparam"]
    else:
        fn = validate_tr_rank
    if kind == "bad_boundary":
        try:
            out = fn(shape, rank=rank, **kw)
        except ValueError:
            return {"nontrivial": True, "labels": [f"fam={fam}", "kind=bad_boundary"]}
        raise Fail(f"validate_{fam}/boundary_not_enforced", f"rank {rank} accepted -> {out}")
    out = fn(shape, rank=rank, **kw)
    clause = f"validate_{fam}"
    if fam == "cp":
        check(isinstance(out, (int, np.integer)), clause + "/type", f"returned {out!r}")
        r = int(out)
    else:
        try:
            r = [int(v) for v in out]
        except Exception:  # noqa
            raise Fail(clause + "/type", f"returned {out!r}")
        check(all(float(v) == int(v) for v in out), clause + "/type", f"non-integer ranks {out!r}")
        check(len(r) == (nd if fam == "tucker" else nd + 1), clause + "/length", f"{len(r)} ranks for order {nd}")
    if kind == "int":
        want = rank if fam == "cp" else [rank] * nd if fam == "tucker" else [1] + [rank] * (nd - 1) + [1] if fam == "tt" else [rank] * (nd + 1)
        if fam == "tt" and not c["overparam"]:
            check(all(a <= b for a, b in zip(r, want)) and r[0] == 1 and r[-1] == 1, clause + "/int", f"{rank} -> {r}")
            check(r == _val_tt_clip(shape, want), clause + "/int_clip", f"{rank} -> {r}, expected {_val_tt_clip(shape, want)}")
        else:
            check(r == want, clause + "/int_passthrough", f"{rank} -> {r}")
    elif kind == "list":
        if fam == "tt" and not c["overparam"]:
            check(r == _val_tt_clip(shape, rank), clause + "/list_clip", f"{rank} -> {r}, expected {_val_tt_clip(shape, rank)}")
        else:
            check(r == list(rank), clause + "/list_passthrough", f"{rank} -> {r}")
    else:
        frac = 1.0 if rank == "same" else float(rank)
        if fam == "tt":
            check(r[0] == 1 and r[-1] == 1, clause + "/boundary", f"{r}")
        if fam == "tr":
            check(r[0] == r[-1], clause + "/boundary", f"{r}")
        if c["rounding"] == "floor":
            rr = r if fam == "cp" else r
            positive = (rr >= 1) if fam == "cp" else all(v >= 1 for v in rr)
            # ranks are floored at 1 by the tucker / tt validators (max(..., 1)): the budget clause applies when floor did not hit that clamp
            clamp = (fam in ("tucker", "tt")) and any(v == 1 for v in r[(1 if fam == "tt" else 0):(-1 if fam == "tt" else None)])
            if positive and not clamp and not (fam == "tt" and nd == 2):
                n = _nparams(fam, shape, r)
                check(n <= frac * total * (1 + 1e-9) + 1e-9, clause + "/floor_budget",
                      f"shape {shape} rank {rank}: ranks {r} use {n} parameters > {frac} * {total}")
    return {"nontrivial": True, "labels": [f"fam={fam}", f"kind={kind}", f"rounding={c['rounding']}", f"order={nd}"]}


def _val_tt_clip(shape, req):
    """what validate_tt_rank documents for allow_overparametrization=False: each bond rank is limited by the sizes of the
    unfolding it splits, computed from the *requested* left rank"""
    out = [1]
    for i in range(len(shape) - 1):
        out.append(int(min(req[i] * shape[i], gen.prod(shape[i + 1:]), req[i + 1])))
    out.append(1)
    return out


# ----------------------------------------------------------------------------
# ----------------------------------------------------------------------------
# class wrappers: fit_transform with the constructor defaults returns a decomposition of the input's shape
# ----------------------------------------------------------------------------
_CLASSES = ["CP", "RandomizedCP", "CP_NN", "CP_NN_HALS", "ConstrainedCP", "Tucker", "Tucker_NN", "Tucker_NN_HALS",
            "TensorTrain", "TensorRing", "TensorRingALS", "Parafac2"]


@st.composite
def _class_case(draw):
    name = draw(st.sampled_from(_CLASSES))
    shape = [draw(st.integers(2, 4)) for _ in range(3)]
    return {"cls": name, "x": {"s": shape, "seed": draw(st.integers(0, 10 ** 6)), "k": "uniform"},
            "rank": draw(st.integers(1, 2)), "seed": draw(st.integers(0, 10 ** 6)),
            "n_iter": draw(st.sampled_from([1, 2, 3])), "defaults_only": draw(st.booleans())}


def o_class(c):
    import tensorly.decomposition as D
    from tensorly.decomposition import _tucker as TK
    x = gen.dec(c["x"])
    name, r = c["cls"], int(c["rank"])
    Cls = getattr(D, name, None) or getattr(TK, name)
    kw = {}
    if name in ("TensorTrain",):
        kw["rank"] = [1, r, r, 1]
    elif name in ("TensorRing", "TensorRingALS"):
        kw["rank"] = [1, r, r, 1] if name == "TensorRing" else [r, r, r, r]
    elif name in ("Tucker", "Tucker_NN", "Tucker_NN_HALS"):
        kw["rank"] = [r, r, r]
    else:
        kw["rank"] = r
    if name == "RandomizedCP":
        kw["n_samples"] = 12
    if name == "ConstrainedCP":
        kw["non_negative"] = True
    if not c["defaults_only"]:
        if "n_iter_max" in Cls.__init__.__code__.co_varnames:
            kw["n_iter_max"] = c["n_iter"]
        if "random_state" in Cls.__init__.__code__.co_varnames:
            kw["random_state"] = c["seed"]
    else:
        # constructor defaults (apart from the mandatory arguments); cap the work where the default budget is large
        if "n_iter_max" in Cls.__init__.__code__.co_varnames:
            kw["n_iter_max"] = 3
    if "verbose" in Cls.__init__.__code__.co_varnames:
        kw["verbose"] = False          # (one class defaults to printing progress)
    est = Cls(**kw)
    data = [x[i] for i in range(x.shape[0])] if name == "Parafac2" else x
    res = est.fit_transform(data)
    check(res is not None, "class/returns_decomposition", f"{name}.fit_transform returned None")
    dec = getattr(est, "decomposition_", res)
    try:
        if name == "Parafac2":
            dense = tl.parafac2_tensor.parafac2_to_tensor(dec)
        elif hasattr(dec, "to_tensor"):
            dense = dec.to_tensor()
        else:
            raise Fail("class/decomposition_type", f"{name}: result of type {type(dec).__name__} has no to_tensor()")
    except Fail:
        raise
    assert_shape(dense, x.shape, "class/reconstruction_shape")
    return {"nontrivial": True, "labels": [f"cls={name}", f"defaults_only={c['defaults_only']}"]}


def subchecks(tier):
    S = []
    for algo, q in (("parafac", 150), ("nn_mu", 120), ("nn_hals", 80)):
        S.append(SubCheck(f"{algo}/plain", _cp_case(algo, False), o_cp, quick=q, thorough=q * 10, discard_exc=LIN))
        S.append(SubCheck(f"{algo}/normalized", _cp_case(algo, True, iters=((1, 2, 5, 7, 8, 9, 12) if algo == "parafac" else (1, 2, 5, 8)),
                                                       tols=(3e-1, 1e-1, 1e-2, 1e-5, 1e-12, 0)), o_cp,
                          quick=q + 50, thorough=(q + 50) * 10, discard_exc=LIN))
        S.append(SubCheck(f"{algo}/normalized/iter0", _cp_case(algo, True, iters=(0,), inits=("svd", "random")), o_cp,
                          quick=60, thorough=400, discard_exc=LIN))
    S.append(SubCheck("randomised_parafac/plain", _cp_other_case("randomised"), o_cp_other, quick=80, thorough=800, discard_exc=LIN))
    S.append(SubCheck("constrained_parafac/plain", _cp_other_case("constrained"), o_cp_other, quick=80, thorough=800, discard_exc=LIN))
    S.append(SubCheck("parafac2/plain", _p2_case(False), o_p2, quick=80, thorough=800, discard_exc=LIN))
    S.append(SubCheck("parafac2/normalized", _p2_case(True), o_p2, quick=80, thorough=800, discard_exc=LIN))
    S.append(SubCheck("cmtf/plain", _cmtf_case(False), o_cmtf, quick=80, thorough=800, discard_exc=LIN))
    S.append(SubCheck("cmtf/normalized", _cmtf_case(True), o_cmtf, quick=80, thorough=800, discard_exc=LIN))
    S.append(SubCheck("tucker/hooi", _tucker_case(), o_tucker, quick=200, thorough=2000, discard_exc=LIN))
    S.append(SubCheck("partial_tucker/hooi", _partial_case(), o_partial, quick=200, thorough=2000, discard_exc=LIN))
    S.append(SubCheck("tucker/fixed_factors_ranks", _tucker_fixed_case(), o_tucker_fixed, quick=100, thorough=1000, discard_exc=LIN))
    S.append(SubCheck("classes/fit_transform", _class_case(), o_class, quick=120, thorough=800, discard_exc=LIN))
    for algo in ("mu", "hals"):
        S.append(SubCheck(f"nn_tucker_{algo}/plain", _nntucker_case(algo, False), o_nntucker, quick=80, thorough=800, discard_exc=LIN))
        S.append(SubCheck(f"nn_tucker_{algo}/normalized", _nntucker_case(algo, True), o_nntucker, quick=100, thorough=1000, discard_exc=LIN))
    S.append(SubCheck("tensor_train/svd", _tt_case(), o_tt, quick=300, thorough=3000, discard_exc=LIN))
    S.append(SubCheck("tensor_train/rank_list_reused", _tt_history_case("tt"), o_tt_history, quick=100, thorough=800))
    S.append(SubCheck("tensor_ring/rank_list_reused", _tt_history_case("tr"), o_tt_history, quick=100, thorough=800, discard_exc=LIN))
    S.append(SubCheck("tensor_train_matrix/svd", _ttm_case(), o_ttm, quick=200, thorough=2000, discard_exc=LIN))
    S.append(SubCheck("tensor_ring/svd", _tr_case(), o_tr, quick=300, thorough=3000, discard_exc=LIN, max_discard=0.6))
    S.append(SubCheck("tensor_ring_als/shapes", _trals_case(False), o_trals, quick=80, thorough=800, discard_exc=LIN))
    S.append(SubCheck("tensor_ring_als_sampled/shapes", _trals_case(True), o_trals, quick=60, thorough=600, discard_exc=LIN))
    S.append(SubCheck("tensor_train_cross/list_rank", _cross_case(False), o_cross, quick=60, thorough=600, discard_exc=LIN))
    S.append(SubCheck("tensor_train_cross/int_rank", _cross_case(True), o_cross, quick=30, thorough=200, discard_exc=LIN))
    for fam in ("cp", "tucker", "tt", "tr"):
        S.append(SubCheck(f"validators/{fam}", _val_case(fam), o_validator, quick=300, thorough=3000))
    S.append(SubCheck("validators/tt_order2_constant_rank", _val_case("tt", True), o_validator, quick=40, thorough=200))
    return S
