"""C05 — the SVD interface returns a genuine, sign-canonical truncated SVD.

Entry points: tensorly.tenalg.svd_interface (methods truncated_svd / symeig_svd /
randomized_svd / a callable wrapping numpy.linalg.svd) and tl.truncated_svd.
Reference spectrum: numpy.linalg.svd only.

Clause ids ending in "/below_gap" are emitted only for returned components k whose
reference singular value satisfies sigma_k <= 1e-6 * sigma_1 (numerically in the null
space).  For method symeig_svd these are the planned known finding D19 (class
``symeig_component_below_gap``); for every other method they are ordinary clauses.
"""
import numpy as np
from hypothesis import strategies as st

import tensorly as tl
from tensorly.tenalg import svd_interface

from vlib import gen
from vlib.engine import SubCheck, check, Fail
from vlib.cmp import as_array, assert_shape, finite

PROPERTY = "C05"
RULE = ("Hypothesis: matrices (1-6)x(1-6) incl. 1xN / Nx1 of classes small-int, dyadic, seeded Gaussian, seeded int, "
        "rank-deficient (product of thin factors, real or integer), +-1 matrices (exact sign ties in the singular vectors), prescribed spectrum with repeats / zeros / tiny values "
        "(orthonormal x diag x orthonormal), geometric spectra spanning 2-8 orders of magnitude at sizes up to 12x10 and rank <= 8 "
        "(all methods but symeig; randomized then with n_iter 1-4 and k+n_oversamples >= rank); n_eigenvecs in {None, 1..max(shape)+2}; methods truncated_svd, symeig_svd, "
        "randomized_svd (n_oversamples 0-5, n_iter 0-3, integer random_state from the case), a callable wrapping "
        "numpy.linalg.svd, and tl.truncated_svd directly; flip_sign on/off, u_based_flip_sign both; non_negative in "
        "{True,'nndsvd','nndsvda'} on non-negative, signed, negative-mean and rank-deficient non-negative matrices; "
        "int64-dtype inputs in their own sub-checks; complex128 matrices (Gaussian, Gaussian-integer, rank-deficient) for truncated / randomized (oversampling >= max dim) with the clauses stated with conjugate transposes and the deciding entry real positive. Oracle: numpy.linalg.svd reference spectrum; shapes U:(m,min(k,m)) "
        "S:(min(k,m,n),) V:(min(k,n),n) with k = n_eigenvecs clamped to max(shape); S>=0 non-increasing and equal to the "
        "leading reference values; U^T U = I, V V^T = I; ||M - U_r diag(S) V_r||_F = ||sigma_ref[r:]|| in both directions; "
        "tolerances 1e-9 (symeig: max(1e-6, 50*eps*(sigma_1/smallest above-gap sigma)^2)) relative to sigma_1. randomized_svd is held to the exactness clauses only when "
        "min(k+n_oversamples, max_dim) >= rank(M) (otherwise only shapes, S>=0 sorted, Eckart-Young lower bound). "
        "Sign clause: flipped run vs unflipped run differ only by per-component signs, paired components share the sign, "
        "product and S unchanged, the largest-magnitude entry of each deciding vector (columns of U when u_based, rows of "
        "V otherwise) is > 0 unless the maximum is tied within 1e-9. Non-negative clause: both factors finite, >= 0, "
        "shapes unchanged. Non-trivial: min(m,n) >= 2 and (>= 2 distinct non-zero singular values or rank-deficient); "
        "distinct = distinct case hash.")
ASSUMPTIONS = ["numpy.linalg.svd returns the true singular values to ~1e-14 relative",
               "Hypothesis generates what its strategies describe",
               "Eckart-Young: no rank-r matrix is closer to M than the norm of the discarded reference singular values"]

GAP = 1e-6          # D19 class threshold: sigma_k <= GAP * sigma_1
RANK_TOL = 1e-12    # sigma_k > RANK_TOL * sigma_1 counts towards rank(M) for the randomized coverage rule
TIE = 1e-9          # sign clause is skipped when the largest magnitude is not unique by this margin

METHODS = ["truncated_svd", "symeig_svd", "randomized_svd", "callable", "direct"]
# prescribed-spectrum palette; index 0..2 guarantee a leading value >= 1 (see _spectrum_case)
PALETTE = [1.0, 2.0, 3.0, 0.5, 1e-3, 1e-8, 0.0, 0.0]


def _tol(method):
    return 1e-6 if method == "symeig_svd" else 1e-9


# ----------------------------------------------------------------------------
# case -> matrix
# ----------------------------------------------------------------------------
def _matrix(spec):
    kind = spec["kind"]
    if kind == "enc":
        return gen.dec(spec["a"])
    if kind == "lowrank":
        return gen.dec(spec["A"]) @ gen.dec(spec["B"])
    if kind == "spectrum":
        m, n = spec["m"], spec["n"]
        r = min(m, n)
        U = gen.orthonormal(spec["seed"], m, r)
        V = gen.orthonormal(spec["seed"] + 1, n, r)
        return (U * np.array(spec["sig"], dtype=float)) @ V.T
    raise ValueError(kind)


def _ref_sigma(M):
    return np.linalg.svd(np.asarray(M, dtype=float), compute_uv=False)


def _clamped_k(case, m, n):
    k = case["k"]
    return max(m, n) if k is None else min(int(k), max(m, n))


def _below_gap(sig, r):
    """indices j < r of returned components that lie below the gap"""
    if r == 0:
        return []
    return [j for j in range(r) if sig[j] <= GAP * sig[0]]


def _np_svd_callable(log):
    def fn(matrix, n_eigenvecs=None, **kwargs):
        log.append({"n_eigenvecs": n_eigenvecs, "kwargs": dict(kwargs), "shape": tuple(np.shape(matrix))})
        m, n = matrix.shape
        kk = max(m, n) if n_eigenvecs is None else min(n_eigenvecs, max(m, n))
        U, S, V = np.linalg.svd(matrix, full_matrices=True)
        return U[:, :kk], S[:kk], V[:kk, :]
    return fn


def _run(case, M, **override):
    """call the library as the case says; returns (U, S, V) as arrays"""
    method = case["method"]
    k = case["k"]
    if method == "direct":
        res = tl.truncated_svd(M, n_eigenvecs=k) if k is not None else tl.truncated_svd(M)
    else:
        kw = {"flip_sign": case.get("flip", True), "u_based_flip_sign": case.get("ubased", True)}
        if case.get("nn") is not None:
            kw["non_negative"] = case["nn"]
        if method == "randomized_svd":
            kw.update(n_oversamples=case["os"], n_iter=case["n_iter"], random_state=case["rs"])
        kw.update(override)
        if method == "callable":
            log = []
            kw["marker"] = 7
            res = svd_interface(M, method=_np_svd_callable(log), n_eigenvecs=k, **kw)
            check(len(log) == 1 and log[0]["n_eigenvecs"] == k and log[0]["kwargs"] == {"marker": 7}
                  and log[0]["shape"] == tuple(M.shape), "callable/args",
                  lambda: f"callable invoked as {log}")
        elif k is None and case.get("omit_k"):
            res = svd_interface(M, method=method, **kw)
        else:
            res = svd_interface(M, method=method, n_eigenvecs=k, **kw)
    check(isinstance(res, (tuple, list)) and len(res) == 3, "shape/triple", lambda: f"returned {type(res).__name__}")
    return res


def _ctx(case, M=None):
    M = _matrix(case["M"]) if M is None else M
    m, n = M.shape
    sig = _ref_sigma(M)
    kk = _clamped_k(case, m, n)
    r = min(kk, m, n)
    s1 = float(sig[0]) if sig.size else 0.0
    rank = int(np.sum(sig > RANK_TOL * s1)) if s1 > 0 else 0
    covered = True
    if case["method"] == "randomized_svd":
        covered = min(kk + case["os"], max(m, n)) >= rank
    below = _below_gap(sig, r)
    tol = _tol(case["method"])
    if case["method"] == "symeig_svd":
        # The Gram route resolves component k only to about eps * (sigma_1 / sigma_k)^2: between the D19 gap
        # (sigma_k <= 1e-6 sigma_1, known finding) and sigma_k ~ 1e-4 sigma_1 a fixed 1e-6 would demand more than
        # the method can deliver (seed 5 produced sigma_5 / sigma_1 = 4.1e-6 with an orthonormality error of 7.9e-6).
        good = [float(sig[j]) for j in range(r) if j not in set(below) and sig[j] > 0]
        if good:
            tol = max(tol, 50 * np.finfo(float).eps * (s1 / min(good)) ** 2)
    return {"M": M, "m": m, "n": n, "sig": sig, "kk": kk, "r": r, "s1": s1, "rank": rank, "covered": covered,
            "below": below, "tol": tol}


def _shapes(c, U, S, V, clause="shape"):
    m, n, kk = c["m"], c["n"], c["kk"]
    U = assert_shape(U, (m, min(kk, m)), clause + "/U")
    S = assert_shape(S, (min(kk, m, n),), clause + "/S")
    V = assert_shape(V, (min(kk, n), n), clause + "/V")
    return U, S, V


def _info(case, c):
    sig, s1 = c["sig"], c["s1"]
    nz = sig[sig > RANK_TOL * s1] if s1 > 0 else sig[:0]
    distinct = len(set(np.round(nz / s1, 9))) if s1 > 0 else 0
    deficient = c["rank"] < min(c["m"], c["n"])
    nontrivial = min(c["m"], c["n"]) >= 2 and (distinct >= 2 or deficient)
    shp = "1xN" if c["m"] == 1 else "Nx1" if c["n"] == 1 else "tall" if c["m"] > c["n"] else "wide" if c["m"] < c["n"] else "square"
    k = case["k"]
    kcls = "None" if k is None else "<min" if k < min(c["m"], c["n"]) else "=min" if k == min(c["m"], c["n"]) else \
        "<=max" if k <= max(c["m"], c["n"]) else ">max"
    labels = [f"shape={shp}", f"k={kcls}", f"kind={case['M'].get('sub', case['M']['kind'])}",
              f"deficient={int(deficient)}", f"below_gap={int(bool(c['below']))}"]
    if case["method"] == "randomized_svd":
        labels.append(f"covered={int(c['covered'])}")
        labels.append(f"n_iter={case['n_iter']}")
    if case["M"].get("sub") == "geom":
        labels.append(f"geom_span=1e-{case['M']['e']}")
    if case["method"] != "direct":
        labels.append(f"flip={int(case.get('flip', True))}{'u' if case.get('ubased', True) else 'v'}")
    return {"nontrivial": bool(nontrivial and c["covered"]), "labels": labels}


# ----------------------------------------------------------------------------
# oracles (one per clause group; the method is part of the case)
# ----------------------------------------------------------------------------
def o_shape(case):
    c = _ctx(case)
    U, S, V = _shapes(c, *_run(case, c["M"]))
    finite(U, "shape/finite/U")
    finite(S, "shape/finite/S")
    finite(V, "shape/finite/V")
    for name, a in (("U", U), ("S", S), ("V", V)):
        check(a.dtype.kind == "f", f"shape/real/{name}", lambda: f"dtype {a.dtype}")
    return _info(case, c)


def _check_sigma(c, S, prefix="sigma"):
    """S >= 0, non-increasing, equal to the leading reference values (above-gap components
    first, then the components below the gap under their own clause id)"""
    sig, s1, tol, r = c["sig"], c["s1"], c["tol"], c["r"]
    finite(S, prefix + "/finite")
    check(bool(np.all(S >= 0)), prefix + "/nonneg", lambda: f"S={S.tolist()}")
    below = set(c["below"])
    good = [j for j in range(r) if j not in below]
    scale = max(s1, 1e-300)
    for idx, suffix in ((good, ""), (list(range(r)), "/below_gap")):
        if suffix and not below:
            break
        Sg = S[idx]
        check(bool(np.all(Sg[:-1] >= Sg[1:] - 1e-14 * scale)), prefix + "/sorted" + suffix, lambda: f"S={S.tolist()}")
        if c["covered"]:
            d = float(np.max(np.abs(Sg - sig[idx]))) if len(idx) else 0.0
            check(d <= tol * scale, prefix + "/match" + suffix,
                  lambda: f"max |S - sigma_ref| = {d:.3e} > {tol:g}*{scale:.3e}; S={S.tolist()} ref={sig[:r].tolist()}")


def o_sigma(case):
    c = _ctx(case)
    U, S, V = _shapes(c, *_run(case, c["M"]))
    _check_sigma(c, S)
    return _info(case, c)


def _check_orth(c, U, V, prefix="orth"):
    r, tol = c["r"], c["tol"]
    below = set(c["below"])
    for name, G_of, count in (("U", lambda idx: U[:, idx].T @ U[:, idx], U.shape[1]),
                              ("V", lambda idx: V[idx] @ V[idx].T, V.shape[0])):
        good = [j for j in range(count) if j not in below]
        for idx, suffix in ((good, ""), (list(range(count)), "/below_gap")):
            if suffix and not below:
                break
            G = G_of(idx)
            d = float(np.max(np.abs(G - np.eye(len(idx))))) if len(idx) else 0.0
            check(np.isfinite(d) and d <= tol, f"{prefix}/{name}{suffix}",
                  lambda: f"max |Gram({name}) - I| = {d:.3e} > {tol:g}")


def o_orth(case):
    c = _ctx(case)
    U, S, V = _shapes(c, *_run(case, c["M"]))
    if c["covered"]:
        _check_orth(c, U, V)
    return _info(case, c)


def _check_recon(c, U, S, V, prefix="recon"):
    r, sig, tol = c["r"], c["sig"], c["tol"]
    scale = max(c["s1"], 1e-300)
    approx = (U[:, :r] * S) @ V[:r]
    finite(approx, prefix + "/finite")
    err = float(np.linalg.norm(c["M"] - approx))
    want = float(np.linalg.norm(sig[r:]))
    check(err >= want - tol * scale, prefix + "/not-below-optimum",
          lambda: f"error {err:.6e} < tail {want:.6e} (rank {r}): impossible for a rank-{r} product")
    if c["covered"]:
        check(err <= want + tol * scale, prefix + "/optimal",
              lambda: f"error {err:.6e} > tail {want:.6e} + {tol:g}*{scale:.3e} (rank {r})")


def o_recon(case):
    c = _ctx(case)
    U, S, V = _shapes(c, *_run(case, c["M"]))
    _check_recon(c, U, S, V)
    return _info(case, c)


def _sign_options(a, b):
    """set of s in {+1,-1} with a == s*b exactly"""
    out = set()
    if np.array_equal(a, b):
        out.add(1)
    if np.array_equal(a, -b):
        out.add(-1)
    return out


def o_flip(case):
    c = _ctx(case)
    M, r, tol = c["M"], c["r"], c["tol"]
    scale = max(c["s1"], 1e-300)
    ub = case["ubased"]
    U1, S1, V1 = _shapes(c, *_run(case, M, flip_sign=True), clause="flip/shape")
    U0, S0, V0 = _shapes(c, *_run(case, M, flip_sign=False), clause="flip/shape-unflipped")
    for a in (U1, S1, V1, U0, S0, V0):
        finite(a, "flip/finite")
    check(np.array_equal(S1, S0), "flip/S-unchanged", lambda: f"S {S1.tolist()} vs unflipped {S0.tolist()}")
    below = set(c["below"])
    # (a) the flip only changes signs, the same sign within a singular pair
    for j in range(max(U1.shape[1], V1.shape[0])):
        sfx = "/below_gap" if j in below else ""
        su = _sign_options(U1[:, j], U0[:, j]) if j < U1.shape[1] else {1, -1}
        sv = _sign_options(V1[j], V0[j]) if j < V1.shape[0] else {1, -1}
        check(bool(su), "flip/only-signs/U" + sfx, lambda: f"column {j} of U: {U1[:, j].tolist()} is not +-{U0[:, j].tolist()}")
        check(bool(sv), "flip/only-signs/V" + sfx, lambda: f"row {j} of V: {V1[j].tolist()} is not +-{V0[j].tolist()}")
        if j < r:
            check(bool(su & sv), "flip/paired-sign" + sfx, lambda: f"component {j}: U flipped by {su}, V by {sv}")
    # (b) product unchanged
    p1 = (U1[:, :r] * S1) @ V1[:r]
    p0 = (U0[:, :r] * S0) @ V0[:r]
    d = float(np.max(np.abs(p1 - p0))) if p1.size else 0.0
    check(d <= 1e-12 * scale, "flip/product", lambda: f"product changed by {d:.3e}")
    # (c) canonical sign of every deciding vector
    vecs = [U1[:, j] for j in range(U1.shape[1])] if ub else [V1[j] for j in range(V1.shape[0])]
    decided = skipped = 0
    for j, v in enumerate(vecs):
        a = np.sort(np.abs(v))[::-1]
        top = a[0]
        second = a[1] if a.size > 1 else -np.inf
        if not (top - second > TIE) or top == 0:
            skipped += 1
            continue
        decided += 1
        e = v[int(np.argmax(np.abs(v)))]
        sfx = "/below_gap" if j in below else ""
        check(e > 0, "flip/canonical" + sfx,
              lambda: f"{'column' if ub else 'row'} {j} of {'U' if ub else 'V'} = {v.tolist()}: largest-magnitude entry {e} not positive")
    info = _info(case, c)
    info["labels"] += [f"decided={min(decided, 3)}", f"tie_skipped={min(skipped, 2)}"]
    info["nontrivial"] = info["nontrivial"] and decided > 0
    return info


def o_nonneg(case):
    c = _ctx(case)
    M = c["M"]
    W, S, H = _shapes(c, *_run(case, M), clause="nonneg/shape")
    finite(S, "nonneg/finite/S")
    check(bool(np.all(np.isfinite(W))), "nonneg/finite/U", lambda: f"U has {int(np.sum(~np.isfinite(W)))} non-finite entries")
    check(bool(np.all(np.isfinite(H))), "nonneg/finite/V", lambda: f"V has {int(np.sum(~np.isfinite(H)))} non-finite entries")
    check(bool(np.all(W >= 0)), "nonneg/U>=0", lambda: f"min entry of U = {float(W.min()):.6g} (mean of matrix {float(M.mean()):.4g})")
    check(bool(np.all(H >= 0)), "nonneg/V>=0", lambda: f"min entry of V = {float(H.min()):.6g} (mean of matrix {float(M.mean()):.4g})")
    # S is the spectrum of the plain run
    plain = dict(case)
    plain["nn"] = None
    _, S0, _ = _shapes(c, *_run(plain, M), clause="nonneg/shape-plain")
    check(np.array_equal(S, S0), "nonneg/S-unchanged", lambda: f"S {S.tolist()} vs plain {S0.tolist()}")
    if c["covered"]:
        _check_sigma(c, S, prefix="nonneg/sigma")
    info = _info(case, c)
    mean_cls = "neg" if M.mean() < 0 else "pos"
    info["labels"] += [f"mean={mean_cls}", f"min={'neg' if M.min() < 0 else 'nonneg'}"]
    info["nontrivial"] = min(c["m"], c["n"]) >= 2 and c["r"] >= 2
    return info


def o_intdtype(case):
    """integer-dtype input: the same numeric clauses in one oracle"""
    c = _ctx(case)
    M = c["M"].astype(np.int64)
    assert np.array_equal(M, c["M"]), "matrix spec is not integer valued"
    U, S, V = _shapes(c, *_run(case, M), clause="intdtype/shape")
    for name, a in (("U", U), ("S", S), ("V", V)):
        check(a.dtype.kind == "f", f"intdtype/float-result/{name}", lambda: f"dtype {a.dtype}")
    if c["covered"]:
        _check_sigma(c, S, prefix="intdtype/sigma")
        _check_orth(c, U, V, prefix="intdtype/orth")
    _check_recon(c, U, S, V, prefix="intdtype/recon")
    return _info(case, c)


# ----------------------------------------------------------------------------
# strategies
# ----------------------------------------------------------------------------
@st.composite
def _matrix_spec(draw, classes):
    m = draw(st.sampled_from(SIDES))
    n = draw(st.sampled_from(SIDES))
    cls = draw(st.sampled_from(classes))
    if cls in ("int", "dyadic", "normal", "seedint", "posint", "uniform", "nonneg", "sparse_nonneg", "allneg"):
        return {"kind": "enc", "sub": cls, "a": draw(gen.arr([m, n], kinds=(cls,)))}
    if cls == "pm1":
        # entries +-1 (optionally with zeros): singular vectors whose largest-magnitude entries tie exactly, often with
        # opposite signs (about half of such matrices) - the input class of the sign-resolution rule
        vals = draw(st.sampled_from([[-1, 1], [-1, 1], [-1, 0, 1]]))
        d = draw(st.lists(st.sampled_from(vals), min_size=m * n, max_size=m * n))
        return {"kind": "enc", "sub": cls, "a": {"s": [m, n], "d": d}}
    if cls == "negmean":
        a = draw(gen.arr([m, n], kinds=("normal",)))
        a["shift"] = -draw(st.sampled_from([0.5, 2.0]))
        return {"kind": "enc", "sub": cls, "a": a}
    if cls in ("lowrank", "lowrank_int", "lowrank_nonneg"):
        r = draw(st.integers(1, max(1, min(m, n) - 1))) if min(m, n) > 1 else 1
        k = {"lowrank": "normal", "lowrank_int": "int", "lowrank_nonneg": "uniform"}[cls]
        return {"kind": "lowrank", "sub": cls, "A": draw(gen.arr([m, r], kinds=(k,))), "B": draw(gen.arr([r, n], kinds=(k,)))}
    if cls == "geom":
        # prescribed geometric spectrum Q1 diag(s) Q2^T: rank r, s from scale down to scale*10^-e (e = 2..8 orders)
        m = draw(st.sampled_from(GEOM_ROWS))
        n = draw(st.sampled_from(GEOM_COLS))
        r = draw(st.integers(2, min(m, n, 8)))
        e = draw(st.sampled_from([2, 3, 4, 5, 6, 7, 8]))
        scale = draw(st.sampled_from([1.0, 1.0, 4.0, 0.25]))
        sig = [scale * 10.0 ** (-e * j / (r - 1)) for j in range(r)] + [0.0] * (min(m, n) - r)
        return {"kind": "spectrum", "sub": cls, "m": m, "n": n, "sig": sig, "seed": draw(st.integers(0, 10 ** 6)),
                "r": r, "e": e}
    if cls == "spectrum":
        r = min(m, n)
        idx = [draw(st.integers(0, 2))] + draw(st.lists(st.integers(0, len(PALETTE) - 1), min_size=r - 1, max_size=r - 1))
        sig = sorted((PALETTE[i] for i in idx), reverse=True)
        return {"kind": "spectrum", "sub": cls, "m": m, "n": n, "sig": sig, "seed": draw(st.integers(0, 10 ** 6))}
    raise ValueError(cls)


SIDES = [1, 2, 3, 4, 5, 6, 2, 3, 4, 5]
GEOM_ROWS = [2, 3, 4, 5, 6, 8, 10, 12]
GEOM_COLS = [2, 3, 4, 5, 6, 8, 10]
SIGNED = ("int", "dyadic", "normal", "seedint", "lowrank", "lowrank_int", "spectrum", "spectrum", "pm1", "pm1")
# classes with a wide geometric spectrum are added where the method is accurate to eps*sigma_1 (not symeig_svd:
# components just above the 1e-6 gap are legitimately accurate to ~eps*sigma_1^2/sigma_k^2 only through the Gram route)
WITH_GEOM = SIGNED + ("geom", "geom", "geom")
NN_CLASSES = ("posint", "uniform", "nonneg", "sparse_nonneg", "lowrank_nonneg", "normal", "int", "allneg", "negmean", "lowrank")
INT_CLASSES = ("int", "seedint", "posint", "lowrank_int", "pm1")


@st.composite
def _case(draw, method, classes=SIGNED, nn=None, force_flip=None):
    spec = draw(_matrix_spec(classes))
    if spec["kind"] == "spectrum":
        m, n = spec["m"], spec["n"]
    elif spec["kind"] == "lowrank":
        m, n = spec["A"]["s"][0], spec["B"]["s"][1]
    else:
        m, n = spec["a"]["s"]
    lo, hi = min(m, n), max(m, n)
    kcls = draw(st.sampled_from(["none", "lt", "lt", "eq", "mid", "gt"]))
    if kcls == "none":
        k = None
    elif kcls == "lt":
        k = draw(st.integers(1, max(1, lo - 1)))
    elif kcls == "eq":
        k = lo
    elif kcls == "mid":
        k = draw(st.integers(lo, hi))
    else:
        k = hi + draw(st.integers(1, 2))
    case = {"M": spec, "k": k, "method": method}
    if method != "direct":
        case["flip"] = draw(st.booleans()) if force_flip is None else force_flip
        case["ubased"] = draw(st.booleans())
        if k is None:
            case["omit_k"] = draw(st.booleans())
    if method == "randomized_svd":
        case["os"] = draw(st.integers(0, 5))
        case["n_iter"] = draw(st.integers(0, 3))
        case["rs"] = draw(st.integers(0, 2 ** 31 - 1))
        if spec.get("sub") == "geom":
            # keep k + n_oversamples >= rank (the exactness clauses apply) and use power iterations
            r = spec["r"]
            case["n_iter"] = draw(st.integers(1, 4))
            if k is not None and k + case["os"] < r:
                case["k"] = k = draw(st.integers(r - case["os"], hi + 1))
    if nn is not None:
        case["nn"] = nn
    return case


# ----------------------------------------------------------------------------
# complex input (parafac's complex path feeds complex unfoldings to the SVD front end)
# ----------------------------------------------------------------------------
@st.composite
def _complex_case(draw):
    m, n = draw(st.integers(1, 6)), draw(st.integers(1, 6))
    method = draw(st.sampled_from(["truncated_svd", "truncated_svd", "randomized_svd"]))
    c = {"m": m, "n": n, "seed": draw(st.integers(0, 10**6)), "kindc": draw(st.sampled_from(["normal", "gauss_int", "lowrank"])),
         "method": method, "k": draw(st.one_of(st.none(), st.integers(1, max(m, n) + 1))), "ubased": draw(st.booleans())}
    if method == "randomized_svd":
        c.update(os=max(m, n), n_iter=draw(st.integers(1, 3)), rs=draw(st.integers(0, 1000)))   # oversampling covers the rank
    return c


def _complex_matrix(c):
    rng = np.random.RandomState(c["seed"])
    m, n = c["m"], c["n"]
    if c["kindc"] == "normal":
        return rng.standard_normal((m, n)) + 1j * rng.standard_normal((m, n))
    if c["kindc"] == "gauss_int":
        return rng.randint(-3, 4, (m, n)) + 1j * rng.randint(-3, 4, (m, n))
    r = max(1, min(m, n) - 1)
    A = rng.standard_normal((m, r)) + 1j * rng.standard_normal((m, r))
    B = rng.standard_normal((r, n)) + 1j * rng.standard_normal((r, n))
    return A @ B


def o_complex(case):
    M = _complex_matrix(case).astype(np.complex128)
    m, n = M.shape
    sig = np.linalg.svd(M, compute_uv=False)
    s1 = max(float(sig[0]), 1e-300)
    base = dict(case, flip=False)
    U0, S0, V0 = [as_array(x, "complex/triple") for x in _run(base, tl.tensor(M))]
    U1, S1, V1 = [as_array(x, "complex/triple") for x in _run(dict(case, flip=True), tl.tensor(M))]
    r = S1.shape[0]
    check(U1.shape == U0.shape and V1.shape == V0.shape and S1.shape == S0.shape, "complex/flip/shapes",
          lambda: f"{U1.shape},{S1.shape},{V1.shape} vs {U0.shape},{S0.shape},{V0.shape}")
    P0 = (U0[:, :r] * S0) @ V0[:r]
    P1 = (U1[:, :r] * S1) @ V1[:r]
    d = float(np.max(np.abs(P1 - P0))) if P0.size else 0.0
    check(d <= 1e-9 * s1, "complex/flip/product_unchanged", lambda: f"product changed by {d:.3e} (sigma_1 {s1:.3e})")
    # the product is a best rank-r approximation (both methods are exact here: oversampling covers the matrix)
    err = float(np.linalg.norm(M - P1))
    tail = float(np.linalg.norm(sig[r:]))
    check(abs(err - tail) <= 1e-9 * s1, "complex/recon", lambda: f"||M - U S V|| = {err:.6e}, discarded tail {tail:.6e}")
    d = float(np.max(np.abs(S1 - sig[:r]))) if r else 0.0
    check(d <= 1e-9 * s1 and bool(np.all(np.imag(S1) == 0)), "complex/sigma", lambda: f"sigma off by {d:.3e}")
    gu = U1[:, :r].conj().T @ U1[:, :r]
    gv = V1[:r] @ V1[:r].conj().T
    d = max(float(np.max(np.abs(gu - np.eye(r)))), float(np.max(np.abs(gv - np.eye(r))))) if r else 0.0
    check(d <= 1e-9, "complex/orth", lambda: f"U^H U / V V^H off identity by {d:.3e}")
    # sign (phase) rule: the largest-magnitude entry of each deciding vector is real and positive
    dec = U1 if case["ubased"] else V1.T
    for j in range(dec.shape[1]):
        a = np.abs(dec[:, j])
        o = np.sort(a)[::-1]
        if a.size == 0 or o[0] == 0 or (a.size > 1 and o[0] - o[1] <= TIE * o[0]):
            continue
        z = dec[int(np.argmax(a)), j]
        check(z.real > 0 and abs(z.imag) <= 1e-9 * abs(z), "complex/flip/deciding_entry_positive",
              lambda: f"deciding entry of component {j} is {z!r}")
    return {"nontrivial": min(m, n) >= 2, "labels": [f"method={case['method']}", f"kind={case['kindc']}", f"ubased={case['ubased']}",
                                                      "wide" if n > m else ("tall" if m > n else "square")]}


def subchecks(tier):
    subs = []
    short = {"truncated_svd": "truncated", "symeig_svd": "symeig", "randomized_svd": "randomized",
             "callable": "callable", "direct": "tl_truncated_svd"}
    for method in METHODS:
        nm = short[method]
        cl = SIGNED if method == "symeig_svd" else WITH_GEOM
        subs.append(SubCheck(f"{nm}/shape", _case(method, classes=cl), o_shape, quick=500, thorough=4000))
        subs.append(SubCheck(f"{nm}/sigma", _case(method, classes=cl), o_sigma, quick=500, thorough=4000))
        subs.append(SubCheck(f"{nm}/orth", _case(method, classes=cl), o_orth, quick=500, thorough=4000))
        subs.append(SubCheck(f"{nm}/recon", _case(method, classes=cl), o_recon, quick=500, thorough=4000))
        if method != "direct":
            subs.append(SubCheck(f"{nm}/flip", _case(method, classes=cl, force_flip=True), o_flip, quick=500, thorough=4000))
    # non-negative option (D18): own sub-checks, one per option value x method family
    for nn, tag in ((True, "true"), ("nndsvd", "nndsvd"), ("nndsvda", "nndsvda")):
        for method in ("truncated_svd", "randomized_svd"):
            subs.append(SubCheck(f"nonneg/{tag}/{short[method]}", _case(method, classes=NN_CLASSES, nn=nn), o_nonneg,
                                 quick=400, thorough=3000))
    # integer-dtype inputs
    for method in ("truncated_svd", "symeig_svd", "randomized_svd"):
        subs.append(SubCheck(f"int_dtype/{short[method]}", _case(method, classes=INT_CLASSES), o_intdtype,
                             quick=400, thorough=3000))
    # complex128 input (truncated / randomized; symeig_svd forms M M^T without conjugation and is not a complex method)
    subs.append(SubCheck("complex/flip_recon", _complex_case(), o_complex, quick=400, thorough=3000))
    return subs


# ----------------------------------------------------------------------------
# known finding D19: symeig_svd components below the spectral gap
# ----------------------------------------------------------------------------
def _is_symeig_below_gap(sub_name, case, info):
    """True iff the case alone puts it in the class: method symeig_svd and at least one
    *returned* component index k has reference sigma_k <= 1e-6 * sigma_1; additionally the
    failing clause must be one that the oracle emits only for such components."""
    try:
        if case.get("method") != "symeig_svd":
            return False
        if not str(info.get("clause", "")).endswith("/below_gap"):
            return False
        M = _matrix(case["M"])
        m, n = M.shape
        sig = _ref_sigma(M)
        r = min(_clamped_k(case, m, n), m, n)
        return len(_below_gap(sig, r)) > 0
    except Exception:  # noqa - a predicate never raises
        return False


KNOWN_CLASSES = {"symeig_component_below_gap": _is_symeig_below_gap}
