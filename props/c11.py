"""C11 — constrained CP returns factors satisfying every requested hard constraint;
requests that put two constraints on one mode are rejected.

Sub-checks: 8 hard kinds x 4 specification forms (scalar / full list / partial list / dict),
two kinds on disjoint modes (dict+dict, partial list+dict, incl. a penalty kind as partner),
and the double-constraint rejection in every pair of forms.  The feasibility predicates are
plain NumPy and never call tensorly.
"""
import numpy as np
from hypothesis import strategies as st

from tensorly.decomposition import constrained_parafac, ConstrainedCP, parafac

from vlib import gen
from vlib import x_c10 as X
from vlib.engine import SubCheck, check, discard, Fail

PROPERTY = "C11"
RULE = ("Hypothesis: signed data tensors (normal / sparse / ints / all-negative / low CP rank / non-negative) of order 3-4, "
        "sides 2-5, rank 1-3; each of the 8 hard constraint kinds (non_negative, simplex, monotonicity, unimodality, "
        "hard_sparsity, normalized_sparsity, normalize, soft_sparsity) given as scalar (all modes), full list, partial list "
        "(None/False entries, also shorter than the order) or dict over every non-empty subset of modes; two kinds on disjoint "
        "modes (dict+dict, list+dict; partner may be a penalty kind); radius 0.5-3, k 1-4; init svd / random (budget 0-4) and "
        "user CP init (budget >= 1, fixed modes; only non-fixed modes inspected because the docstring says the prox is not "
        "applied to a supplied init); n_iter_max_inner 1-10; function and ConstrainedCP class entry points. "
        "Oracle (NumPy, tol 1e-8*scale): >= 0; >= 0 and column sum = r; every column monotone (either direction); every column "
        "unimodal; <= k non-zeros per column; <= k non-zeros per column and (Frobenius norm 1 or unit columns); max|factor| = 1; "
        "column l1 norm <= r.  Overlapping requests must raise ValueError.  LinAlgError = discard. "
        "Non-trivial: plain parafac with the same data / rank / init / budget violates the constraint on a constrained mode "
        "(label only); for rejection cases: always.")
ASSUMPTIONS = ["NumPy reductions are correct", "Hypothesis generates what its strategies describe",
               "normalized_sparsity / normalize / hard_sparsity act on the whole factor as their docstrings define; only the "
               "consequences that also hold under a column-wise reading are asserted"]

LIN = (np.linalg.LinAlgError,)
BOOL_KINDS = ("non_negative", "monotonicity", "unimodality", "normalize")
RADIUS_KINDS = ("simplex", "soft_sparsity")
COUNT_KINDS = ("hard_sparsity", "normalized_sparsity")
HARD_KINDS = ("non_negative", "simplex", "monotonicity", "unimodality", "hard_sparsity", "normalized_sparsity",
              "normalize", "soft_sparsity")
PENALTY_KINDS = ("l1_reg", "l2_reg", "l2_square_reg", "smoothness")
DATA = ("normal", "sparse", "int", "allneg", "lowrank", "nonneg")
TOL = 1e-8


def _param(draw, kind):
    if kind in BOOL_KINDS:
        return True
    if kind in RADIUS_KINDS:
        return draw(st.sampled_from([0.5, 1.0, 2.0, 3.0]))
    if kind in COUNT_KINDS:
        return draw(st.integers(1, 4))
    return draw(st.sampled_from([0.01, 0.1, 1.0]))   # penalties


# ----------------------------------------------------------------------------
# feasibility predicates (independent of tensorly)
# ----------------------------------------------------------------------------
def check_factor(F, kind, param, shape, clause):
    try:
        F = np.asarray(F)
    except Exception:  # noqa
        raise Fail(clause + "/shape", "factor is not array-like")
    check(F.dtype != object and tuple(F.shape) == tuple(shape), clause + "/shape",
          lambda: f"factor shape {getattr(F, 'shape', None)} != {tuple(shape)}")
    check(bool(np.all(np.isfinite(F))), clause + "/finite", lambda: f"non-finite entries ({int(np.isnan(F).sum())} NaN)")
    F = F.astype(float)
    amax = float(np.max(np.abs(F))) if F.size else 0.0
    scale = max(1.0, amax)
    if kind == "non_negative":
        check(F.min() >= -TOL * scale, clause, lambda: f"min entry {F.min():.6g} < 0")
    elif kind == "simplex":
        check(F.min() >= -TOL * scale, clause + "/nonneg", lambda: f"min entry {F.min():.6g} < 0")
        s = F.sum(axis=0)
        check(bool(np.all(np.abs(s - param) <= TOL * max(1.0, param))), clause + "/sum",
              lambda: f"column sums {s.tolist()} != {param}")
    elif kind == "monotonicity":
        for j in range(F.shape[1]):
            inc, dec = X.is_monotone(F[:, j], TOL * scale)
            check(inc or dec, clause, lambda: f"column {j} = {F[:, j].tolist()} is not monotone")
    elif kind == "unimodality":
        for j in range(F.shape[1]):
            check(X.is_unimodal(F[:, j], TOL * scale), clause, lambda: f"column {j} = {F[:, j].tolist()} is not unimodal")
    elif kind == "hard_sparsity":
        nz = (F != 0).sum(axis=0)
        check(bool(np.all(nz <= param)), clause, lambda: f"non-zeros per column {nz.tolist()} > {param}")
    elif kind == "normalized_sparsity":
        nz = (F != 0).sum(axis=0)
        check(bool(np.all(nz <= param)), clause + "/support", lambda: f"non-zeros per column {nz.tolist()} > {param}")
        fro = float(np.linalg.norm(F))
        cols = np.linalg.norm(F, axis=0)
        check(abs(fro - 1) <= TOL or bool(np.all(np.abs(cols - 1) <= TOL)), clause + "/norm",
              lambda: f"Frobenius norm {fro:.9g} != 1 and column norms {cols.tolist()} != 1")
    elif kind == "normalize":
        check(abs(amax - 1) <= TOL, clause, lambda: f"max|factor| = {amax:.9g} != 1")
    elif kind == "soft_sparsity":
        l1 = np.abs(F).sum(axis=0)
        check(bool(np.all(l1 <= param * (1 + TOL) + 1e-300)), clause, lambda: f"column l1 norms {l1.tolist()} > {param}")
    else:
        raise AssertionError(kind)


def violates(F, kind, param):
    try:
        check_factor(F, kind, param, np.shape(F), "x")
        return False
    except Fail:
        return True


# ----------------------------------------------------------------------------
# case generation
# ----------------------------------------------------------------------------
@st.composite
def _run_part(draw, nd_range=(3, 4), ranks=(1, 3), allow_warm=True):
    order = draw(st.integers(nd_range[0], nd_range[1]))
    shape = draw(gen.shapes(order, order, 2, 5 if order == 3 else 3))
    x = draw(X.data(shape=shape, kinds=DATA))
    nd = len(shape)
    rank = draw(st.integers(ranks[0], ranks[1]))
    init = draw(st.sampled_from(["svd", "random", "user"]))
    c = {"x": x, "rank": rank, "init": init, "seed": draw(st.integers(0, 10 ** 6)),
         "n_iter": draw(st.integers(0, 4)), "n_inner": draw(st.integers(1, 10)),
         "tol": draw(st.sampled_from([0, 1e-8, 1e-1])), "via_class": draw(st.booleans())}
    if init == "user":
        c["n_iter"] = max(1, c["n_iter"])
        c["uinit"] = draw(gen.cp_factors(shape, rank, kinds=("normal", "int"), weights=("none", "ones", "pos")))
        # the last mode may be named: the library warns and updates it anyway, so it is inspected
        c["fixed"] = draw(st.one_of(st.none(), st.lists(st.integers(0, nd - 1), unique=True, max_size=nd - 1).map(sorted)))
        # warm-start classes: the user init already FITS the data (to rounding) but is signed, i.e. infeasible for the
        # hard constraints; with budget >= 1 every non-fixed constrained mode must still come back feasible.
        #   "exact":   data := dense reconstruction of the user init
        #   "parafac": data of exact CP rank `rank`, init := result of a short unconstrained parafac run on it
        c["warm"] = draw(st.sampled_from([None, None, "exact", "exact", "parafac"])) if allow_warm else None
        if c["warm"] == "exact":
            c["x"] = {"s": list(shape), "from_init": True, "kind": "from_init"}
            c["tol"] = draw(st.sampled_from([1e-8, 1e-4, 1e-1, 0]))
        elif c["warm"] == "parafac":
            c["x"] = {"s": list(shape), "lowrank": rank, "seed": draw(gen.seeds), "nonneg": False, "kind": "lowrank"}
            c["warm_iters"] = draw(st.sampled_from([5, 20, 60]))
            c["tol"] = draw(st.sampled_from([1e-8, 1e-4, 1e-1, 0]))
            c.pop("uinit")
    return c


def _spec_value(form, kind, param, modes, nd, short=False):
    """the python object handed to the library for one constraint kind"""
    if form == "scalar":
        return param
    if form == "dict":
        return {int(m): param for m in modes}
    empty = False if kind in BOOL_KINDS else None
    lst = [param if m in modes else empty for m in range(nd)]
    if short:
        while lst and not lst[-1]:
            lst.pop()
    return lst


@st.composite
def _single_case(draw, kind, form, ranks=None):
    if ranks is None:
        ranks = (1, 3)
    c = draw(_run_part(ranks=ranks))
    nd = len(c["x"]["s"])
    param = _param(draw, kind)
    if form in ("scalar", "list_full"):
        modes = list(range(nd))
    elif form == "list_partial":
        modes = draw(st.lists(st.integers(0, nd - 1), unique=True, min_size=1, max_size=nd - 1).map(sorted))
    else:
        modes = draw(st.lists(st.integers(0, nd - 1), unique=True, min_size=1, max_size=nd).map(sorted))
    c["specs"] = [{"kind": kind, "form": "list" if form.startswith("list") else form, "param": param, "modes": modes,
                   "short": bool(form == "list_partial" and draw(st.booleans()))}]
    if kind == "normalize":
        # tiny data scale relative to the dtype: max-normalisation must still bring max|factor| to exactly 1
        # (float64 entries ~1e-20 << eps(float64), float32 entries ~1e-9 << eps(float32))
        c["tiny"] = draw(st.sampled_from([None, None, "f64", "f64", "f32"])) if not c.get("warm") else None
        if c["tiny"]:
            c["x"]["xscale"] = 1e-20 if c["tiny"] == "f64" else 1e-9
            if c["tiny"] == "f32":
                # measured on HEAD: with >= 2 outer sweeps ~4 % of the float32 tiny-scale runs reach a prox input that
                # cancels to exactly 0 in float32 (x_split - dual), and max-normalising 0 is 0/0 (undefined input, not
                # asserted - DESIGN C12 soundness note); budgets 0-1 are sound in every measured case
                c["n_iter"] = min(c["n_iter"], 1)
            # built-in inits only: a user init with an all-zero column makes the ADMM iterate cancel to an exactly zero
            # prox input at this scale (x_split == dual bit for bit), and max-normalising 0 is 0/0 - undefined input
            if c["init"] == "user" or draw(st.booleans()):
                c["init"] = "svd"          # the svd init puts the data scale into factor 0
                c.pop("uinit", None)
                c.pop("fixed", None)
    return c


@st.composite
def _double_case(draw, forms):
    """two kinds on disjoint, non-empty mode sets; first kind hard, partner hard or penalty"""
    c = draw(_run_part())
    nd = len(c["x"]["s"])
    k1 = draw(st.sampled_from(HARD_KINDS))
    k2 = draw(st.sampled_from([k for k in HARD_KINDS + PENALTY_KINDS if k != k1]))
    perm = draw(st.permutations(list(range(nd))))
    n1 = draw(st.integers(1, nd - 1))
    n2 = draw(st.integers(1, nd - n1))
    m1, m2 = sorted(perm[:n1]), sorted(perm[n1:n1 + n2])
    f1, f2 = forms
    if draw(st.booleans()):
        f1, f2 = f2, f1
    c["specs"] = [{"kind": k1, "form": f1, "param": _param(draw, k1), "modes": m1, "short": False},
                  {"kind": k2, "form": f2, "param": _param(draw, k2), "modes": m2, "short": False}]
    return c


def _kwargs(c, nd):
    kw = {}
    for sp in c["specs"]:
        kw[sp["kind"]] = _spec_value(sp["form"], sp["kind"], sp["param"], sp["modes"], nd, sp.get("short", False))
    return kw


def _case_data(c):
    """data tensor of a case (the "exact" warm-start class reconstructs it from the user init with vlib.ref)"""
    if c["x"].get("from_init"):
        from vlib import ref
        w, f = gen.dec_cp(c["uinit"])
        return np.ascontiguousarray(ref.cp_dense(w, f), dtype=float)
    return X.dec_data(c["x"])


def _init(c):
    if c["init"] == "user" and c.get("warm") == "parafac":
        # input preparation (not an expected value): a converged / nearly converged unconstrained fit reused as warm start
        x = X.dec_data(c["x"])
        w, f = parafac(x, c["rank"], n_iter_max=c["warm_iters"], init="svd", tol=1e-12, random_state=c["seed"])
        return (np.array(w), [np.array(a) for a in f])
    if c["init"] == "user":
        w, f = gen.dec_cp(c["uinit"])
        if c.get("tiny") == "f32":
            w = None if w is None else w.astype(np.float32)
            f = [a.astype(np.float32) for a in f]
        return (w, f)
    return c["init"]


def _call(c, x, kw):
    args = dict(n_iter_max=c["n_iter"], n_iter_max_inner=c["n_inner"], init=_init(c), tol_outer=c["tol"],
                random_state=c["seed"])
    if c.get("fixed") is not None:
        args["fixed_modes"] = list(c["fixed"])
    args.update(kw)
    np.random.seed(c["seed"] % (2 ** 32))   # init="random" may draw from the global RNG (D10)
    if c["via_class"]:
        return ConstrainedCP(c["rank"], **args).fit_transform(x)
    return constrained_parafac(x, c["rank"], **args)


def o_feasible(c):
    x = _case_data(c)
    if not np.any(x):
        discard("zero tensor")
    nd = x.ndim
    if c.get("tiny") == "f32":
        x = x.astype(np.float32)
    kw = _kwargs(c, nd)
    res = _call(c, x.copy(), kw)
    try:
        w, facs = res
        facs = list(facs)
    except Exception:  # noqa
        raise Fail("structure", f"result is not (weights, factors): {type(res).__name__}")
    check(len(facs) == nd, "structure", f"{len(facs)} factors for order {nd}")
    fixed = (set(c.get("fixed") or []) - {nd - 1}) if c["init"] == "user" else set()
    inspected = 0
    for sp in c["specs"]:
        if sp["kind"] not in HARD_KINDS:
            continue
        for m in sp["modes"]:
            if m in fixed:
                continue
            check_factor(facs[m], sp["kind"], sp["param"], (x.shape[m], c["rank"]), f"{sp['kind']}")
            inspected += 1
    # label: was the constraint active?  (one extra library call, never used for the verdict)
    active = "unknown"
    try:
        pinit = _init(c)
        ref = parafac(x.copy(), c["rank"], n_iter_max=c["n_iter"], init=pinit, tol=c["tol"], random_state=c["seed"],
                      fixed_modes=(list(c["fixed"]) if c.get("fixed") is not None else None))
        active = str(any(violates(ref[1][m], sp["kind"], sp["param"]) for sp in c["specs"] if sp["kind"] in HARD_KINDS
                         for m in sp["modes"] if m not in fixed))
    except Exception:  # noqa
        pass
    labels = [f"order={nd}", f"data={c['x']['kind']}", f"init={c['init']}", f"n_iter={c['n_iter']}", f"rank={c['rank']}",
              f"active={active}", f"class={c['via_class']}", f"inspected={min(inspected, 4)}", f"tiny={c.get('tiny')}", f"warm={c.get('warm')}"]
    for sp in c["specs"]:
        labels.append(f"kind={sp['kind']}/{sp['form']}{'/short' if sp.get('short') else ''}")
    return {"nontrivial": inspected > 0 and active != "False", "labels": labels}


# ---- double constraints must be rejected -------------------------------------------------
@st.composite
def _reject_case(draw, forms):
    c = draw(_run_part(allow_warm=False))
    c["init"] = draw(st.sampled_from(["svd", "random"]))
    c.pop("uinit", None)
    c.pop("fixed", None)
    nd = len(c["x"]["s"])
    k1 = draw(st.sampled_from(HARD_KINDS))
    k2 = draw(st.sampled_from([k for k in HARD_KINDS + PENALTY_KINDS if k != k1]))
    f1, f2 = forms
    if draw(st.booleans()):
        k1, k2 = k2, k1

    def modes_for(form):
        if form == "scalar":
            return list(range(nd))
        return draw(st.lists(st.integers(0, nd - 1), unique=True, min_size=1, max_size=nd).map(sorted))
    m1 = modes_for(f1)
    m2 = modes_for(f2)
    if not set(m1) & set(m2):
        common = draw(st.sampled_from(m1))
        m2 = sorted(set(m2) | {common})
    c["specs"] = [{"kind": k1, "form": f1, "param": _param(draw, k1), "modes": m1, "short": False},
                  {"kind": k2, "form": f2, "param": _param(draw, k2), "modes": m2, "short": False}]
    return c


def o_reject(c):
    x = X.dec_data(c["x"])
    if not np.any(x):
        discard("zero tensor")
    nd = x.ndim
    kw = _kwargs(c, nd)
    overlap = sorted(set(c["specs"][0]["modes"]) & set(c["specs"][1]["modes"]))
    assert overlap
    try:
        _call(c, x.copy(), kw)
    except ValueError:
        return {"nontrivial": True, "labels": [f"forms={c['specs'][0]['form']}+{c['specs'][1]['form']}",
                                               f"kinds={c['specs'][0]['kind']}+{c['specs'][1]['kind']}",
                                               f"class={c['via_class']}"]}
    raise Fail("reject/double_constraint", f"request {kw} constrains mode(s) {overlap} twice but was accepted")


# ----------------------------------------------------------------------------
def subchecks(tier):
    S = []
    for kind in HARD_KINDS:
        for form in ("scalar", "list_full", "list_partial", "dict"):
            S.append(SubCheck(f"{kind}/{form}", _single_case(kind, form), o_feasible, quick=100, thorough=800,
                              discard_exc=LIN))
    # regression class of N6 (fixed: simplex_prox used to drop the column axis of an (n, 1) matrix)
    for kind in RADIUS_KINDS:
        S.append(SubCheck(f"{kind}/rank1", _single_case(kind, "dict", ranks=(1, 1)), o_feasible, quick=40, thorough=300,
                          discard_exc=LIN))
    S.append(SubCheck("two_kinds/dict+dict", _double_case(("dict", "dict")), o_feasible, quick=300, thorough=2000, discard_exc=LIN))
    S.append(SubCheck("two_kinds/list+dict", _double_case(("list", "dict")), o_feasible, quick=300, thorough=2000, discard_exc=LIN))
    S.append(SubCheck("two_kinds/list+list", _double_case(("list", "list")), o_feasible, quick=200, thorough=1500, discard_exc=LIN))
    for f1, f2 in (("scalar", "scalar"), ("scalar", "list"), ("scalar", "dict"), ("list", "list"), ("list", "dict"), ("dict", "dict")):
        S.append(SubCheck(f"reject/{f1}+{f2}", _reject_case((f1, f2)), o_reject, quick=100, thorough=600, discard_exc=LIN))
    return S
