"""C19 — tensor regressors predict with exactly the weights they expose; CP-PLSR relations.

CPRegressor / TuckerRegressor: after fit, predict(X)[i] is the contraction of sample X[i] with
weight_tensor_ over the sample's modes; weight_tensor_ is the dense form of cp_weight_ /
tucker_weight_; vec_W_ is its row-major vectorisation.  CP_PLSR: transform(training data) gives
back the fitted scores, loading columns have unit norm, fitted loadings / scores /
predictions-minus-offset are invariant under adding a constant tensor to every X sample and a
constant to Y, and equivariant under a permutation of the samples; predict / transform on new
data equal the deflation formula evaluated on the exposed attributes.  All expected values are
computed with np.einsum sublist calls / plain NumPy (vlib.ref), never with tensorly.
"""
import numpy as np
from hypothesis import strategies as st

from tensorly.regression.cp_regression import CPRegressor
from tensorly.regression.tucker_regression import TuckerRegressor
from tensorly.regression.cp_plsr import CP_PLSR

from vlib import gen, ref
from vlib.engine import SubCheck, check, discard, fail, Fail
from vlib.cmp import assert_shape, finite, close, as_array

PROPERTY = "C19"
RULE = ("Regressors: 4-15 samples, X of order 2-4 including the sample mode (sides 2-4; thorough: order up to 5), y scalar / "
        "vector (1-3 outputs) / order-2 tensor (sides 1-3) per sample for CPRegressor, scalar for TuckerRegressor, ranks 1-3, "
        "reg_W in {1e-3..10}, n_iter_max in {1,2,3,10,30}, tol in {default, 1e-1 (early stop)}, int seed or RandomState, "
        "Gaussian / small-integer data, optional dead slice (all-zero / constant slice of one X mode at its first, last or a "
        "middle index), every array handed to fit / predict / transform in a drawn memory layout (C, Fortran, transposed, "
        "strided, offset view), integer / bool X at predict, fresh X with 1-5 samples. The weight "
        "'tensor' must have order >= 2 (matrix X with scalar y is outside the domain: a CP/Tucker form of a vector). "
        "CP_PLSR: X order 2-4, Y vector or matrix (1-3 columns), 1-3 components limited to min(n_samples-1, #features) "
        "(more cannot be supported by the centred data), Gaussian data for the metamorphic relations, shifts k/4 in [-8,8]; "
        "fits with non-finite loadings are discarded and counted. Tolerances: direct relations rel 1e-9 of the stated scale, "
        "metamorphic relations rel 1e-7. History sub-checks: one estimator object, 2-6 generated operations (fit on data "
        "set A / B with the same or other shapes, predict on training / fresh / the previous input, PLSR transform), every "
        "result compared with the contraction with the currently exposed weights and with a fresh estimator fitted on the "
        "current data only (non-trivial there: use -> re-fit on the other data set -> use). Non-trivial: >= 2 components/rank or tensor-valued y or X order >= 3; distinct = "
        "distinct case hash.")
ASSUMPTIONS = ["NumPy einsum / linalg are correct", "Hypothesis generates what its strategies describe",
               "CP_PLSR is a deterministic function of its inputs (SVD initialisation, no random draws)"]

REL = 1e-9
MREL = 1e-7


# ----------------------------------------------------------------------------
# helpers
# ----------------------------------------------------------------------------
def _data(seed, shape, kind):
    rs = np.random.RandomState(seed % (2 ** 32))
    if kind == "int":
        return rs.randint(-4, 5, size=shape).astype(float)
    return rs.standard_normal(shape)


LAYS = st.lists(st.sampled_from(gen.LAYOUTS), min_size=4, max_size=4)   # X at fit, y at fit, X at use, Y at use
PDTYPES = [None, None, "int64", "int32", "uint8", "bool"]


def _L(a, case, k):
    """same values in the memory layout drawn for role k (C / Fortran / transposed view / strided / offset view)"""
    lays = case.get("lays")
    a = np.array(a)
    return gen.layout(a, lays[k]) if lays else a


def _cast(A, dt):
    """integer / boolean valued version of A in dtype dt (and the same values as floats, for the oracle)"""
    if dt is None:
        return A, A
    if dt == "bool":
        B = np.abs(A) >= 1
    elif dt == "uint8":
        B = np.abs(np.rint(A)).astype("uint8")
    else:
        B = np.rint(A).astype(dt)
    return B, B.astype(float)


@st.composite
def _dead(draw, sides):
    """'dead slice' class: one feature mode of X has an all-zero or constant slice at its first / last / a middle
    index in every sample (padding, dead sensor, all-zero feature column for order-2 X): with a ridge term the
    fitted factor rows are then exactly 0"""
    if draw(st.integers(0, 2)) != 0:
        return None
    return {"k": draw(st.sampled_from(["zero", "zero", "const"])), "mode": draw(st.integers(0, len(sides) - 1)),
            "at": draw(st.sampled_from(["first", "first", "last", "mid"]))}


def _peff(sides, dead):
    """number of features that vary after centring"""
    P = gen.prod(sides)
    return P if not dead else P - P // sides[dead["mode"]]


def _xdata(seed, shape, kind, dead):
    X = _data(seed, shape, kind)
    if dead:
        ax = dead["mode"] + 1
        idx = {"first": 0, "last": shape[ax] - 1, "mid": shape[ax] // 2}[dead["at"]]
        sl = [slice(None)] * X.ndim
        sl[ax] = idx
        X[tuple(sl)] = 0.0 if dead["k"] == "zero" else 2.0
    return X


def contract(X, W):
    """out[i, o...] = sum_f X[i, f...] W[f..., o...]   (einsum sublists)"""
    X, W = np.asarray(X), np.asarray(W)
    p = X.ndim - 1
    q = W.ndim - p
    xs = [0] + list(range(1, p + 1))
    ws = list(range(1, p + 1)) + list(range(p + 1, p + 1 + q))
    return np.einsum(X, xs, W, ws, [0] + list(range(p + 1, p + 1 + q)))


def contract_scale(X, W):
    return float(np.max(contract(np.abs(X), np.abs(W)))) if X.size and W.size else 1.0


@st.composite
def _reg_case(draw, est, ykind, tier):
    max_order = 4 if tier == "quick" else 5
    min_order = 3 if (est == "tucker" or ykind == "scalar") else 2
    order = draw(st.integers(min_order, max_order))
    sides = draw(st.lists(st.integers(2, 4 if order <= 4 else 3), min_size=order - 1, max_size=order - 1))
    c = {"n": draw(st.integers(4, 15)), "sides": sides, "seed": draw(gen.seeds),
         "xkind": draw(st.sampled_from(["normal", "normal", "int"])), "dead": draw(_dead(sides)),
         "ykind": draw(st.sampled_from(["random", "model"])),
         "reg": draw(st.sampled_from([1e-3, 0.03, 0.5, 1, 10])),
         "iters": draw(st.sampled_from([1, 2, 3, 10, 30])),
         "tol": draw(st.sampled_from([None, None, 1e-1])),
         "rs": draw(st.sampled_from(["int", "RandomState"])),
         "lays": draw(LAYS), "pdtype": draw(st.sampled_from(PDTYPES)),
         "n_new": draw(st.integers(1, 5))}
    if ykind == "scalar":
        c["out"] = []
    elif ykind == "vector":
        c["out"] = [draw(st.integers(1, 3))]
    else:
        c["out"] = [draw(st.integers(1, 3)), draw(st.integers(1, 3))]
    if est == "cp":
        c["rank"] = draw(st.integers(1, 3))
    else:
        c["ranks"] = [draw(st.integers(1, min(3, s))) for s in sides]
    return c


def _dl(dead):
    return "none" if not dead else f"{dead['k']}@{dead['at']}"


def _fit_reg(est, case):
    n, sides, out = case["n"], tuple(case["sides"]), tuple(case["out"])
    X = _xdata(case["seed"], (n,) + sides, case["xkind"], case.get("dead"))
    rs = np.random.RandomState((case["seed"] + 11) % (2 ** 32))
    if case["ykind"] == "model":
        y = contract(X, rs.standard_normal(sides + out)) + 0.1 * rs.standard_normal((n,) + out)
    else:
        y = rs.standard_normal((n,) + out)
    Xnew = _xdata(case["seed"] + 5, (case["n_new"],) + sides, case["xkind"], case.get("dead"))
    seed = case["seed"] % 10007
    kw = {"reg_W": case["reg"], "n_iter_max": case["iters"], "verbose": 0,
          "random_state": seed if case["rs"] == "int" else np.random.RandomState(seed)}
    if case["tol"] is not None:
        kw["tol"] = case["tol"]
    if est == "cp":
        e = CPRegressor(weight_rank=case["rank"], **kw)
    else:
        e = TuckerRegressor(weight_ranks=list(case["ranks"]), **kw)
    e.fit(_L(X, case, 0), _L(y, case, 1))
    return e, X, y, Xnew


def _reg_labels(est, case, e):
    order = len(case["sides"]) + 1
    rk = case["rank"] if est == "cp" else max(case["ranks"])
    return {"nontrivial": rk >= 2 or len(case["out"]) >= 1 or order >= 3,
            "labels": [f"order={order}", f"yorder={len(case['out'])}", f"rank={rk}", f"iters={case['iters']}",
                       f"stopped_early={getattr(e, 'n_iterations_', case['iters']) < case['iters']}", f"lay_fit={case['lays'][0]}", f"lay_use={case['lays'][2]}", f"pdtype={case.get('pdtype')}", "dead=" + _dl(case.get("dead")),
                       f"rs={case['rs']}"]}


def o_reg_predict(est):
    def oracle(case):
        e, X, y, Xnew = _fit_reg(est, case)
        wshape = tuple(case["sides"]) + tuple(case["out"])
        W = finite(assert_shape(e.weight_tensor_, wshape, f"{est}/weight_tensor_/shape"), f"{est}/weight_tensor_/finite")
        for tag, A in (("train", X), ("fresh", Xnew)):
            got = e.predict(_L(A, case, 2))
            close(got, contract(A, W), f"{est}/predict/{tag}", rel=REL, scale=contract_scale(A, W))
            if case.get("pdtype"):
                # integer / boolean inputs (counts, raw images): same values, float contraction
                Ai, Af = _cast(A, case["pdtype"])
                got = e.predict(_L(Ai, case, 2))
                close(got, contract(Af, W), f"{est}/predict/{tag}/integer-dtype-input", rel=REL, scale=max(contract_scale(Af, W), 1e-300))
        return _reg_labels(est, case, e)
    return oracle


def o_reg_weights(est):
    def oracle(case):
        e, X, y, Xnew = _fit_reg(est, case)
        wshape = tuple(case["sides"]) + tuple(case["out"])
        W = finite(assert_shape(e.weight_tensor_, wshape, f"{est}/weight_tensor_/shape"), f"{est}/weight_tensor_/finite")
        if est == "cp":
            cw = e.cp_weight_
            check(isinstance(cw, (tuple, list)) or hasattr(cw, "factors"), "cp/cp_weight_/type", f"{type(cw).__name__}")
            weights, factors = cw[0], cw[1]
            check(len(factors) == len(wshape), "cp/cp_weight_/n_factors", f"{len(factors)} factors for weight order {len(wshape)}")
            R = case["rank"]
            facs = [assert_shape(f, (s, R), f"cp/cp_weight_/factor{i}") for i, (f, s) in enumerate(zip(factors, wshape))]
            w = None if weights is None else assert_shape(weights, (R,), "cp/cp_weight_/weights")
            dense = ref.cp_dense(w, facs)
            scale = float(np.max(ref.cp_dense(None if w is None else np.abs(w), [np.abs(f) for f in facs])))
        else:
            tw = e.tucker_weight_
            core, factors = tw[0], tw[1]
            ranks = tuple(case["ranks"])
            check(len(factors) == len(wshape), "tucker/tucker_weight_/n_factors", f"{len(factors)} factors for weight order {len(wshape)}")
            core = assert_shape(core, ranks, "tucker/tucker_weight_/core")
            facs = [assert_shape(f, (s, r), f"tucker/tucker_weight_/factor{i}") for i, (f, s, r) in enumerate(zip(factors, wshape, ranks))]
            dense = ref.tucker_dense(core, facs)
            scale = float(np.max(ref.tucker_dense(np.abs(core), [np.abs(f) for f in facs])))
        close(W, dense, f"{est}/weight_tensor_/equals-factor-form", rel=REL, scale=scale)
        v = assert_shape(e.vec_W_, (W.size,), f"{est}/vec_W_/shape")
        close(v, dense.reshape(-1), f"{est}/vec_W_/equals-vectorised-weights", rel=REL, scale=scale)
        return _reg_labels(est, case, e)
    return oracle


# ----------------------------------------------------------------------------
# CP_PLSR
# ----------------------------------------------------------------------------
@st.composite
def _plsr_case(draw, ykind, tier, metamorphic=False):
    max_order = 4 if tier == "quick" else 5
    order = draw(st.integers(2, max_order))
    sides = draw(st.lists(st.integers(2, 4 if order <= 4 else 3), min_size=order - 1, max_size=order - 1))
    n = draw(st.integers(4, 15))
    dead = draw(_dead(sides))
    c = {"n": n, "sides": sides, "seed": draw(gen.seeds), "dead": dead,
         # the metamorphic relations need components the centred data can support; the direct
         # relations are identities that must also hold for unsupported (finite) components
         "ncomp": draw(st.integers(1, min(3, n - 1, _peff(sides, dead)) if metamorphic else 3)),
         "p": None if ykind == "yvec" else draw(st.integers(1, 3)),
         "ykind": draw(st.sampled_from(["random", "model"])),
         "xkind": "normal" if metamorphic else draw(st.sampled_from(["normal", "normal", "int"])),
         "iters": draw(st.sampled_from([None, None, 2, 5])),
         "n_new": draw(st.integers(1, 5)), "lays": draw(LAYS),
         # data expressed in small / large units (X and Y both): every clause is relative to the data scale
         "scale": draw(st.sampled_from([1.0, 1.0, 1.0, 1e-6, 1e3]))}
    # a constant FIRST Y column while another column carries the signal (class of the fixed defect 441251a)
    c["const0"] = bool(c["p"] is not None and c["p"] >= 2 and not metamorphic and draw(st.integers(0, 4)) == 0)
    if metamorphic:
        c["shiftX"] = draw(st.lists(st.integers(-32, 32), min_size=gen.prod(sides), max_size=gen.prod(sides)))
        c["shiftY"] = draw(st.lists(st.integers(-32, 32), min_size=c["p"] or 1, max_size=c["p"] or 1))
        c["perm_seed"] = draw(st.integers(0, 10 ** 6))
    return c


def _plsr_data(case):
    n, sides = case["n"], tuple(case["sides"])
    p = case["p"]
    X = _xdata(case["seed"], (n,) + sides, case["xkind"], case.get("dead"))
    rs = np.random.RandomState((case["seed"] + 13) % (2 ** 32))
    ycols = 1 if p is None else p
    if case["ykind"] == "model":
        Y = contract(X, rs.standard_normal(sides + (ycols,))) + 0.3 * rs.standard_normal((n, ycols))
    else:
        Y = rs.standard_normal((n, ycols))
    if case.get("const0"):
        Y[:, 0] = 1.5
    if p is None:
        Y = Y[:, 0]
    Xnew = _xdata(case["seed"] + 5, (case["n_new"],) + sides, "normal", case.get("dead"))
    sc = float(case.get("scale", 1.0))
    return X * sc, Y * sc, Xnew * sc


def _support(X):
    """number of components the centred data can support: every deflation X(I - w w^T) lowers the rank of the
    centred sample-by-feature matrix by at most one, so rank-many components see non-zero data"""
    Xc = (X - X.mean(axis=0)).reshape(X.shape[0], -1)
    return int(min(X.shape[0] - 1, np.linalg.matrix_rank(Xc)))


def _install_lstsq_guard():
    """LAPACK's gelsd (numpy.linalg.lstsq) either raises LinAlgError("SVD did not converge") or NEVER RETURNS when it is
    handed NaN, and a C-level loop cannot be interrupted by the engine's per-case alarm (workers were lost to the hard
    timeout).  CP_PLSR hands NaN scores to lstsq whenever a loading is 0/0.  Through the backend's own registration API
    (nothing under the repository is touched) lstsq is wrapped so that non-finite input always takes the LinAlgError
    exit; finite input goes to the unchanged numpy routine."""
    from tensorly.backend.numpy_backend import NumpyBackend
    orig = np.linalg.lstsq

    def lstsq(a, b, *args, **kw):
        if not (np.all(np.isfinite(a)) and np.all(np.isfinite(b))):
            raise np.linalg.LinAlgError("SVD did not converge in Linear Least Squares (non-finite input; verification guard)")
        return orig(a, b, *args, **kw)

    NumpyBackend.register_method("lstsq", lstsq)


_install_lstsq_guard()


def _exact(case):
    return bool(case.get("xkind") == "int" or case.get("dead") or case.get("exact"))


def _fit_guarded(e, X, Y, case, lays_case, strict=False):
    """fit with the explicit, counted domain rules for 0/0 loadings"""
    if _exact(case) and case["ncomp"] > _support(X):
        # integer data / data with dead slices are exhausted *exactly*: the next loading is 0/0 -> not executed
        discard("components not supported by the centred (integer / dead-slice) data")
    try:
        e.fit(_L(X, lays_case, 0), _L(Y, lays_case, 1))
    except np.linalg.LinAlgError:
        if case["ncomp"] > _support(X):
            discard("components not supported by the centred data (fit raised LinAlgError)")
        if _exact(case) and not strict:
            # integer / 0-1 / dead-slice data: the PLS recursion can terminate *exactly* (X_res^T y_res = 0, tied spectrum)
            # before the rank of the centred data is used up; indistinguishable from outside, hence not judged
            discard("exact early termination of the PLS recursion on integer / dead-slice data (fit raised LinAlgError)")
        raise
    return e


def _plsr_fit(case, X, Y, strict=False):
    kw = {} if case["iters"] is None else {"n_iter_max": case["iters"]}
    return _fit_guarded(CP_PLSR(case["ncomp"], **kw), X, Y, case, case, strict=strict)


def _bcast(a, shape, clause):
    """offsets are only required to act like an array of this shape (their exact shape is not documented)"""
    a = as_array(a, clause)
    try:
        return np.array(np.broadcast_to(a, shape), dtype=float)
    except ValueError:
        raise Fail(clause, f"shape {a.shape} does not broadcast to {tuple(shape)}")


def _plsr_attrs(e, case, tag="plsr", X=None):
    """exposed attributes, shape-checked; discards fits with non-finite loadings"""
    n, sides, c = case["n"], tuple(case["sides"]), case["ncomp"]
    p = 1 if case["p"] is None else case["p"]
    check(len(e.X_factors) == len(sides) + 1, f"{tag}/X_factors/len", f"{len(e.X_factors)}")
    check(len(e.Y_factors) == 2, f"{tag}/Y_factors/len", f"{len(e.Y_factors)}")
    XF = [assert_shape(f, (s, c), f"{tag}/X_factors[{i}]/shape") for i, (f, s) in enumerate(zip(e.X_factors, (n,) + sides))]
    YF = [assert_shape(e.Y_factors[0], (n, c), f"{tag}/Y_factors[0]/shape"), assert_shape(e.Y_factors[1], (p, c), f"{tag}/Y_factors[1]/shape")]
    coef = assert_shape(e.coef_, (c, c), f"{tag}/coef_/shape")
    xm = _bcast(e.X_mean_, sides, f"{tag}/X_mean_/shape")
    ym = _bcast(e.Y_mean_, (p,), f"{tag}/Y_mean_/shape")
    if not all(np.all(np.isfinite(a)) for a in XF + YF + [coef]):
        if X is None or case["ncomp"] > _support(X):
            discard("non-finite loadings (components not supported by the centred data)")
        fail(f"{tag}/finite", "non-finite factors although the centred data support the requested components")
    return XF, YF, coef, xm, ym


def ref_scores(Xc, loadings):
    """scores by successive projection on the loading vectors and deflation (Bro 1996);
    Xc is already centred; loadings = X_factors[1:]"""
    Xc = np.array(Xc, dtype=float)
    nm = Xc.ndim - 1
    c = loadings[0].shape[1]
    T = np.zeros((Xc.shape[0], c))
    for k in range(c):
        args = [Xc, list(range(nm + 1))]
        for j, L in enumerate(loadings):
            args += [L[:, k], [j + 1]]
        t = np.einsum(*args, [0])
        T[:, k] = t
        rank1 = ref.outer([t] + [L[:, k] for L in loadings])
        Xc = Xc - rank1
    return T


def _plsr_labels(case, extra=()):
    order = len(case["sides"]) + 1
    return {"nontrivial": case["ncomp"] >= 2 or order >= 3,
            "labels": [f"order={order}", f"ncomp={case['ncomp']}", f"p={case['p']}", f"iters={case['iters']}", f"xkind={case['xkind']}",
                       f"lay_fit={case['lays'][0]}", f"lay_use={case['lays'][2]}", f"const_first_Y_col={bool(case.get('const0'))}", "dead=" + _dl(case.get("dead")),
                       f"scale={case.get('scale', 1.0):g}"] + list(extra)}


def o_plsr_scores(case):
    X, Y, Xnew = _plsr_data(case)
    e = _plsr_fit(case, X, Y)
    XF, YF, coef, xm, ym = _plsr_attrs(e, case, X=X)
    sx = max(float(np.max(np.abs(XF[0]))), 1e-300)
    sy = max(float(np.max(np.abs(YF[0]))), 1e-300)
    t = e.transform(_L(X, case, 2))
    close(t, XF[0], "plsr/transform(X_train)==X_factors[0]", rel=REL, scale=sx)
    both = e.transform(_L(X, case, 2), _L(Y, case, 3))
    check(isinstance(both, tuple) and len(both) == 2, "plsr/transform(X,Y)/arity", "expected (X_scores, Y_scores)")
    close(both[0], XF[0], "plsr/transform(X_train,Y)[0]==X_factors[0]", rel=REL, scale=sx)
    close(both[1], YF[0], "plsr/transform(X_train,Y_train)[1]==Y_factors[0]", rel=REL, scale=max(sy, sx * float(np.max(np.abs(coef)))))
    e2 = CP_PLSR(case["ncomp"], **({} if case["iters"] is None else {"n_iter_max": case["iters"]}))
    ft = e2.fit_transform(_L(X, case, 0), _L(Y, case, 1))
    check(isinstance(ft, tuple) and len(ft) == 2, "plsr/fit_transform/arity", "expected (X_scores, Y_scores)")
    close(ft[0], XF[0], "plsr/fit_transform[0]==X_factors[0]", rel=MREL, scale=sx)
    close(ft[1], YF[0], "plsr/fit_transform[1]==Y_factors[0]", rel=MREL, scale=max(sy, sx * float(np.max(np.abs(coef)))))
    return _plsr_labels(case)


def o_plsr_unit(case):
    X, Y, Xnew = _plsr_data(case)
    e = _plsr_fit(case, X, Y)
    XF, YF, coef, xm, ym = _plsr_attrs(e, case, X=X)
    for i, L in enumerate(XF[1:], start=1):
        nr = np.sqrt(np.sum(L * L, axis=0))
        close(nr, np.ones_like(nr), f"plsr/unit-norm/X_factors[{i}]", rel=REL, scale=1.0)
    nr = np.sqrt(np.sum(YF[1] * YF[1], axis=0))
    close(nr, np.ones_like(nr), "plsr/unit-norm/Y_factors[1]", rel=REL, scale=1.0)
    # exposed centring information is the sample mean
    close(xm, X.mean(axis=0), "plsr/X_mean_", rel=REL, scale=1.0 + float(np.max(np.abs(X))))
    Y2 = Y.reshape(len(Y), -1)
    close(ym, Y2.mean(axis=0), "plsr/Y_mean_", rel=REL, scale=1.0 + float(np.max(np.abs(Y))))
    return _plsr_labels(case)


def o_plsr_exposed(case):
    """predict / transform on new data follow from the exposed attributes"""
    X, Y, Xnew = _plsr_data(case)
    e = _plsr_fit(case, X, Y)
    XF, YF, coef, xm, ym = _plsr_attrs(e, case, X=X)
    p = 1 if case["p"] is None else case["p"]
    for tag, A in (("fresh", Xnew), ("train", X)):
        T = ref_scores(A - xm, XF[1:])
        sx = max(float(np.max(np.abs(T))), 1e-300)
        close(e.transform(_L(A, case, 2)), T, f"plsr/transform/{tag}", rel=REL, scale=sx)
        want = T @ coef @ YF[1].T + ym
        sc = float(np.max(np.abs(T) @ np.abs(coef) @ np.abs(YF[1].T))) + float(np.max(np.abs(ym)))
        got = assert_shape(e.predict(_L(A, case, 2)), (A.shape[0], p), f"plsr/predict/{tag}/shape")
        close(got, want, f"plsr/predict/{tag}", rel=REL, scale=sc)
    return _plsr_labels(case)


@st.composite
def _plsr_int_case(draw, tier):
    c = draw(_plsr_case(draw(st.sampled_from(["yvec", "ymat"])), tier))
    c["pdtype"] = draw(st.sampled_from(["int64", "int32", "uint8", "bool"]))
    c["fit_int"] = draw(st.sampled_from(["X", "X", "Y"]))
    c["scale"] = 1.0          # values are rounded to integers: unit scale
    return c


def o_plsr_int(case):
    """integer / boolean X handed to predict / transform of a model fitted on floats: same values, float formula"""
    X, Y, Xnew = _plsr_data(case)
    e = _plsr_fit(case, X, Y)
    XF, YF, coef, xm, ym = _plsr_attrs(e, case, X=X)
    p = 1 if case["p"] is None else case["p"]
    for tag, A in (("fresh", Xnew), ("train", X)):
        Ai, Af = _cast(A, case["pdtype"])
        T = ref_scores(Af - xm, XF[1:])
        sx = max(float(np.max(np.abs(T))), 1e-300)
        close(e.transform(_L(Ai, case, 2)), T, f"plsr/int/transform/{tag}", rel=REL, scale=sx)
        want = T @ coef @ YF[1].T + ym
        sc = float(np.max(np.abs(T) @ np.abs(coef) @ np.abs(YF[1].T))) + float(np.max(np.abs(ym)))
        got = assert_shape(e.predict(_L(Ai, case, 2)), (A.shape[0], p), f"plsr/int/predict/{tag}/shape")
        close(got, want, f"plsr/int/predict/{tag}", rel=REL, scale=sc)
    # integer data at fit: same values as floats must give the same model (HEAD: exactly the same, 2c4d025)
    Xi, Xf = (X, X)
    Yi, Yf = (Y, Y)
    # integer Y is combined only with generic X: integer Y together with integer / dead-slice X can make X_res^T y_res
    # vanish *exactly* for a component the rank of X would support (finite termination of the PLS recursion): 0/0 again
    mode = "X" if (case["xkind"] == "int" or case.get("dead")) else case["fit_int"]
    if mode == "X":
        Xi, Xf = _cast(X, case["pdtype"])
    else:
        Yi, Yf = _cast(Y, "int64" if case["pdtype"] in ("uint8", "bool") else case["pdtype"])
        if not np.any(Yf - Yf.mean(axis=0)):
            # no signal at all in Y: 0/0 loadings, NaN handed to lstsq (LinAlgError or no return) -> not executed
            discard("integer Y is constant in every column")
    if case["ncomp"] > _support(Xf):
        discard("components not supported by the centred (integer) data")
    # 0/1 data with 4-15 samples often have tied spectra: the PLS recursion then terminates after fewer components than
    # the rank supports (X_res^T y_res = 0 exactly) -> one component only for bool
    ci = dict(case, xkind="int", exact=True, ncomp=1 if case["pdtype"] == "bool" else case["ncomp"])
    # reference behaviour = the float fit of the same integer values; if that one already fails the data are degenerate
    # for PLS (counted discard inside _plsr_fit) and the comparison is void; the integer fit must then succeed as well
    ef = _plsr_fit(ci, Xf, Yf)
    ei = _plsr_fit(ci, Xi, Yi, strict=True)
    case = ci
    a = _plsr_attrs(ef, case, "plsr/int/fit-float", X=Xf)
    b = _plsr_attrs(ei, case, "plsr/int/fit-integer", X=Xf)
    for i in range(len(a[0])):
        close(b[0][i], a[0][i], f"plsr/int/fit/X_factors[{i}]", rel=REL, scale=max(float(np.max(np.abs(a[0][i]))), 1e-300))
    for i in range(2):
        close(b[1][i], a[1][i], f"plsr/int/fit/Y_factors[{i}]", rel=REL, scale=max(float(np.max(np.abs(a[1][i]))), 1e-300))
    close(b[2], a[2], "plsr/int/fit/coef_", rel=REL, scale=max(float(np.max(np.abs(a[2]))), 1e-300))
    pf = as_array(ef.predict(_L(Xnew, case, 2)), "plsr/int/fit/predict")
    close(ei.predict(_L(Xnew, case, 2)), pf, "plsr/int/fit/predict", rel=REL, scale=max(float(np.max(np.abs(pf))), 1e-300))
    return _plsr_labels(case, [f"pdtype={case['pdtype']}", f"fit_int={mode}"])


def _cmp_fits(a, b, tag, sx, sy, sc):
    """a, b = attribute tuples from _plsr_attrs"""
    for i in range(1, len(a[0])):
        close(b[0][i], a[0][i], f"{tag}/X_loadings[{i}]", rel=MREL, scale=1.0)
    close(b[1][1], a[1][1], f"{tag}/Y_loadings", rel=MREL, scale=1.0)
    close(b[2], a[2], f"{tag}/coef_", rel=MREL, scale=sc)


def o_plsr_shift(case):
    X, Y, Xnew = _plsr_data(case)
    sides = tuple(case["sides"])
    C = np.array(case["shiftX"], dtype=float).reshape(sides) / 4.0 * float(case.get("scale", 1.0))
    cy = np.array(case["shiftY"], dtype=float) / 4.0 * float(case.get("scale", 1.0))
    e1 = _plsr_fit(case, X, Y)
    a = _plsr_attrs(e1, case, X=X)
    Y2 = Y + (cy[0] if Y.ndim == 1 else cy)
    e2 = _plsr_fit(case, X + C, Y2)
    b = _plsr_attrs(e2, case, "plsr/shifted", X=X)
    sx = max(float(np.max(np.abs(a[0][0]))), 1e-300)
    sy = max(float(np.max(np.abs(a[1][0]))), 1e-300)
    sc = max(float(np.max(np.abs(a[2]))), 1e-300)
    _cmp_fits(a, b, "plsr/shift", sx, sy, sc)
    close(b[0][0], a[0][0], "plsr/shift/X_scores", rel=MREL, scale=sx)
    close(b[1][0], a[1][0], "plsr/shift/Y_scores", rel=MREL, scale=sy)
    close(b[3], a[3] + C, "plsr/shift/X_mean_", rel=REL, scale=1.0 + float(np.max(np.abs(X))) + float(np.max(np.abs(C))))
    close(b[4], a[4] + cy, "plsr/shift/Y_mean_", rel=REL, scale=1.0 + float(np.max(np.abs(Y))) + float(np.max(np.abs(cy))))
    for tag, A in (("fresh", Xnew), ("train", X)):
        p1 = as_array(e1.predict(_L(A, case, 2)), "plsr/shift/predict") - a[4]
        p2 = as_array(e2.predict(_L(A + C, case, 2)), "plsr/shift/predict") - b[4]
        close(p2, p1, f"plsr/shift/predict-minus-offset/{tag}", rel=MREL, scale=max(float(np.max(np.abs(p1))), 1e-300) + 1e-3 * sy)
    return _plsr_labels(case, [f"shift0={not np.any(C) and not np.any(cy)}"])


def o_plsr_perm(case):
    X, Y, Xnew = _plsr_data(case)
    perm = np.random.RandomState(case["perm_seed"]).permutation(case["n"])
    e1 = _plsr_fit(case, X, Y)
    a = _plsr_attrs(e1, case, X=X)
    e2 = _plsr_fit(case, X[perm], Y[perm])
    b = _plsr_attrs(e2, case, "plsr/permuted", X=X)
    sx = max(float(np.max(np.abs(a[0][0]))), 1e-300)
    sy = max(float(np.max(np.abs(a[1][0]))), 1e-300)
    sc = max(float(np.max(np.abs(a[2]))), 1e-300)
    _cmp_fits(a, b, "plsr/perm", sx, sy, sc)
    close(b[0][0], a[0][0][perm], "plsr/perm/X_scores", rel=MREL, scale=sx)
    close(b[1][0], a[1][0][perm], "plsr/perm/Y_scores", rel=MREL, scale=sy)
    p1 = as_array(e1.predict(_L(X, case, 2)), "plsr/perm/predict")
    p2 = as_array(e2.predict(_L(X[perm], case, 2)), "plsr/perm/predict")
    sp = max(float(np.max(np.abs(p1 - a[4]))), 1e-300) + 1e-3 * sy
    close(p2, p1[perm], "plsr/perm/predict-train", rel=MREL, scale=sp)
    q1 = as_array(e1.predict(_L(Xnew, case, 2)), "plsr/perm/predict")
    q2 = as_array(e2.predict(_L(Xnew, case, 2)), "plsr/perm/predict")
    close(q2, q1, "plsr/perm/predict-fresh", rel=MREL, scale=max(float(np.max(np.abs(q1 - a[4]))), 1e-300) + 1e-3 * sy)
    return _plsr_labels(case, [f"identity_perm={bool((perm == np.arange(case['n'])).all())}"])


# ----------------------------------------------------------------------------
# histories on ONE estimator object: results depend only on the latest fit
# ----------------------------------------------------------------------------
_PRED_OPS = ["predict_train", "predict_fresh", "predict_again"]


@st.composite
def _ops(draw, extra=()):
    """['fit:A' | 'fit:B' | predict_* | transform*] starting with a fit; half of the cases are forced to
    contain fit -> use -> re-fit on the other data set -> use"""
    uses = _PRED_OPS + list(extra)
    first = draw(st.sampled_from(["A", "B"]))
    other = "B" if first == "A" else "A"
    if draw(st.sampled_from([True, True, True, False])):
        ops = ["fit:" + first, draw(st.sampled_from(uses)), "fit:" + other, draw(st.sampled_from(uses))]
        ops += draw(st.lists(st.sampled_from(uses + ["fit:A", "fit:B"]), min_size=0, max_size=2))
    else:
        ops = ["fit:" + first] + draw(st.lists(st.sampled_from(uses + ["fit:A", "fit:B"]), min_size=1, max_size=5))
    return ops


def _refit_used(ops):
    """the history contains use -> fit on a different data set -> use"""
    cur, used_since, seen = None, False, False
    armed = False
    for op in ops:
        if op.startswith("fit:"):
            if cur is not None and op[4:] != cur and used_since:
                armed = True
            cur, used_since = op[4:], False
        else:
            used_since = True
            if armed:
                seen = True
    return seen


@st.composite
def _reg_hist_case(draw, est, tier):
    def dataset(order=None, nout=None):
        o = order or draw(st.integers(3 if est == "tucker" else 2, 4))
        sides = draw(st.lists(st.integers(2, 4), min_size=o - 1, max_size=o - 1))
        if est == "tucker":
            out = []
        else:
            k = nout if nout is not None else draw(st.integers(0 if o >= 3 else 1, 2))
            if o == 2 and k == 0:
                k = 1
            out = [draw(st.integers(1, 3)) for _ in range(k)]
        return {"n": draw(st.integers(4, 12)), "sides": sides, "out": out, "seed": draw(gen.seeds),
                "xkind": draw(st.sampled_from(["normal", "int"])), "ykind": draw(st.sampled_from(["random", "model"])),
                "n_new": draw(st.integers(1, 4)), "dead": draw(_dead(sides))}
    A = dataset()
    same = draw(st.sampled_from(["same_shape", "same_shape", "other_shape"]))
    if same == "same_shape":
        B = dict(A, seed=draw(gen.seeds), ykind=draw(st.sampled_from(["random", "model"])))
    elif est == "tucker":
        B = dataset(order=len(A["sides"]) + 1)       # weight_ranks fixes the number of modes
    else:
        B = dataset()
    c = {"A": A, "B": B, "shapes": same, "ops": draw(_ops()), "reg": draw(st.sampled_from([1e-3, 0.5, 1, 10])),
         "lays": draw(LAYS), "pdtype": draw(st.sampled_from(PDTYPES)),
         "iters": draw(st.sampled_from([1, 3, 10])), "seed": draw(st.integers(0, 10 ** 4))}
    if est == "cp":
        c["rank"] = draw(st.integers(1, 3))
    else:
        c["ranks"] = [draw(st.integers(1, 2)) for _ in A["sides"]]
    return c


def _reg_dataset(d):
    n, sides, out = d["n"], tuple(d["sides"]), tuple(d["out"])
    X = _xdata(d["seed"], (n,) + sides, d["xkind"], d.get("dead"))
    rs = np.random.RandomState((d["seed"] + 11) % (2 ** 32))
    if d["ykind"] == "model":
        y = contract(X, rs.standard_normal(sides + out)) + 0.1 * rs.standard_normal((n,) + out)
    else:
        y = rs.standard_normal((n,) + out)
    return X, y, _xdata(d["seed"] + 5, (d["n_new"],) + sides, "normal", d.get("dead"))


def _new_reg(est, case):
    kw = {"reg_W": case["reg"], "n_iter_max": case["iters"], "verbose": 0, "random_state": case["seed"]}
    return CPRegressor(weight_rank=case["rank"], **kw) if est == "cp" else TuckerRegressor(weight_ranks=list(case["ranks"]), **kw)


def _exposed_dense(est, e, wshape, tag):
    """dense weights rebuilt from the exposed factor form, after checking weight_tensor_ and vec_W_ against it"""
    W = finite(assert_shape(e.weight_tensor_, wshape, f"{tag}/weight_tensor_/shape"), f"{tag}/weight_tensor_/finite")
    if est == "cp":
        weights, factors = e.cp_weight_[0], e.cp_weight_[1]
        facs = [as_array(f, f"{tag}/cp_weight_") for f in factors]
        dense = ref.cp_dense(None if weights is None else as_array(weights, f"{tag}/cp_weight_"), facs)
        scale = float(np.max(ref.cp_dense(None if weights is None else np.abs(weights), [np.abs(f) for f in facs])))
    else:
        core, factors = e.tucker_weight_[0], e.tucker_weight_[1]
        facs = [as_array(f, f"{tag}/tucker_weight_") for f in factors]
        dense = ref.tucker_dense(as_array(core, f"{tag}/tucker_weight_"), facs)
        scale = float(np.max(ref.tucker_dense(np.abs(core), [np.abs(f) for f in facs])))
    close(W, dense, f"{tag}/weight_tensor_/equals-factor-form", rel=REL, scale=scale)
    close(e.vec_W_, dense.reshape(-1), f"{tag}/vec_W_/equals-vectorised-weights", rel=REL, scale=scale)
    return W


def o_reg_history(est):
    def oracle(case):
        data = {"A": _reg_dataset(case["A"]), "B": _reg_dataset(case["B"])}
        e = _new_reg(est, case)
        cur, last = None, None
        for k, op in enumerate(case["ops"]):
            tag = f"{est}/history/{op.replace(':', '_')}"
            if op.startswith("fit:"):
                cur = op[4:]
                X, y, Xnew = data[cur]
                e.fit(_L(X, case, 0), _L(y, case, 1))
                last = None
                continue
            X, y, Xnew = data[cur]
            d = case[cur]
            wshape = tuple(d["sides"]) + tuple(d["out"])
            if op == "predict_again" and last is not None:
                A = last
            else:
                A = Xnew if op == "predict_fresh" else X
            last = A
            W = _exposed_dense(est, e, wshape, tag)
            if case.get("pdtype") and op != "predict_train":
                Ai, A = _cast(A, case["pdtype"])
                last = A
            else:
                Ai = A
            got = e.predict(_L(Ai, case, 2))
            close(got, contract(A, W), f"{tag}/equals-contraction-with-exposed-weights", rel=REL, scale=max(contract_scale(A, W), 1e-300))
            # depends only on the latest fit: a fresh estimator with the same parameters agrees
            f = _new_reg(est, case)
            f.fit(_L(X, case, 0), _L(y, case, 1))     # same values, same memory layout: a deterministic repeat
            close(np.asarray(as_array(got, tag), dtype=float), np.asarray(as_array(f.predict(_L(Ai, case, 2)), tag), dtype=float),
                  f"{tag}/equals-fresh-estimator", rel=MREL, scale=max(contract_scale(A, W), 1e-300))
        return {"nontrivial": _refit_used(case["ops"]),
                "labels": [f"shapes={case['shapes']}", f"n_ops={len(case['ops'])}", f"refit_used={_refit_used(case['ops'])}",
                           f"pdtype={case.get('pdtype')}", f"lay_use={case['lays'][2]}",
                           "deadA=" + _dl(case["A"].get("dead"))]}
    return oracle


@st.composite
def _plsr_hist_case(draw, tier):
    def dataset(order=None, p="draw"):
        o = order or draw(st.integers(2, 4))
        sides = draw(st.lists(st.integers(2, 4), min_size=o - 1, max_size=o - 1))
        return {"n": draw(st.integers(5, 12)), "sides": sides, "seed": draw(gen.seeds),
                "p": draw(st.sampled_from([None, 1, 2, 3])) if p == "draw" else p,
                "ykind": draw(st.sampled_from(["random", "model"])), "xkind": "normal", "n_new": draw(st.integers(1, 4)),
                "dead": draw(_dead(sides))}
    A = dataset()
    same = draw(st.sampled_from(["same_shape", "same_shape", "other_shape"]))
    B = dict(A, seed=draw(gen.seeds)) if same == "same_shape" else dataset()
    sup = min(min(d["n"] - 1, _peff(d["sides"], d["dead"])) for d in (A, B))
    return {"A": A, "B": B, "shapes": same, "ops": draw(_ops(extra=["transform_train", "transform_fresh", "transform_xy"])),
            "ncomp": draw(st.integers(1, min(3, sup))), "iters": draw(st.sampled_from([None, None, 3])), "lays": draw(LAYS)}


def ref_yscores(Yc, T, coef, Q):
    """Y scores by projection on the Y loadings and deflation with the X scores (transform docstring / fit)"""
    Yc = np.array(Yc, dtype=float)
    c = Q.shape[1]
    S = np.zeros((Yc.shape[0], c))
    for k in range(c):
        S[:, k] = Yc @ Q[:, k]
        Yc = Yc - np.outer(T @ coef[:, k], Q[:, k])
    return S


def o_plsr_history(case):
    data = {}
    for key in ("A", "B"):
        d = dict(case[key], ncomp=case["ncomp"], iters=case["iters"])
        data[key] = (d,) + _plsr_data(d)
    kw = {} if case["iters"] is None else {"n_iter_max": case["iters"]}
    e = CP_PLSR(case["ncomp"], **kw)
    cur, last = None, None
    for op in case["ops"]:
        tag = f"plsr/history/{op.replace(':', '_')}"
        if op.startswith("fit:"):
            cur = op[4:]
            d, X, Y, Xnew = data[cur]
            _fit_guarded(e, X, Y, d, case)
            last = None
            continue
        d, X, Y, Xnew = data[cur]
        XF, YF, coef, xm, ym = _plsr_attrs(e, d, tag, X=X)
        p = 1 if d["p"] is None else d["p"]
        if op == "predict_again" and last is not None:
            A = last
        else:
            A = Xnew if op in ("predict_fresh", "transform_fresh") else X
        last = A
        T = ref_scores(A - xm, XF[1:])
        sx = max(float(np.max(np.abs(T))), 1e-300)
        f = CP_PLSR(case["ncomp"], **kw)
        f.fit(_L(X, case, 0), _L(Y, case, 1))     # same values, same memory layout: a deterministic repeat
        if op.startswith("predict"):
            want = T @ coef @ YF[1].T + ym
            sc = float(np.max(np.abs(T) @ np.abs(coef) @ np.abs(YF[1].T))) + float(np.max(np.abs(ym)))
            got = assert_shape(e.predict(_L(A, case, 2)), (A.shape[0], p), f"{tag}/shape")
            close(got, want, f"{tag}/equals-exposed-attributes", rel=REL, scale=sc)
            close(got, f.predict(_L(A, case, 2)), f"{tag}/equals-fresh-estimator", rel=MREL, scale=sc)
        elif op == "transform_xy":
            both = e.transform(_L(X, case, 2), _L(Y, case, 3))
            check(isinstance(both, tuple) and len(both) == 2, f"{tag}/arity", "expected (X_scores, Y_scores)")
            sy = max(float(np.max(np.abs(YF[0]))), sx * float(np.max(np.abs(coef))), 1e-300)
            close(both[0], XF[0], f"{tag}/X_scores==X_factors[0]", rel=REL, scale=max(float(np.max(np.abs(XF[0]))), 1e-300))
            close(both[1], YF[0], f"{tag}/Y_scores==Y_factors[0]", rel=REL, scale=sy)
            Tt = ref_scores(X - xm, XF[1:])
            close(both[1], ref_yscores(Y.reshape(len(Y), -1) - ym, Tt, coef, YF[1]), f"{tag}/Y_scores-from-exposed-attributes", rel=REL, scale=sy)
        else:
            got = e.transform(_L(A, case, 2))
            close(got, T, f"{tag}/equals-exposed-attributes", rel=REL, scale=sx)
            close(got, f.transform(_L(A, case, 2)), f"{tag}/equals-fresh-estimator", rel=MREL, scale=sx)
            if op == "transform_train":
                close(got, XF[0], f"{tag}/==X_factors[0]", rel=REL, scale=max(float(np.max(np.abs(XF[0]))), 1e-300))
    return {"nontrivial": _refit_used(case["ops"]),
            "labels": [f"shapes={case['shapes']}", f"n_ops={len(case['ops'])}", f"refit_used={_refit_used(case['ops'])}", f"ncomp={case['ncomp']}",
                       f"lay_use={case['lays'][2]}"]}


# ----------------------------------------------------------------------------
def subchecks(tier):
    subs = []
    for yk in ("scalar", "vector", "tensor"):
        subs.append(SubCheck(f"cp/{yk}/predict", _reg_case("cp", yk, tier), o_reg_predict("cp"), quick=400, thorough=3000))
        subs.append(SubCheck(f"cp/{yk}/weights", _reg_case("cp", yk, tier), o_reg_weights("cp"), quick=400, thorough=3000))
    subs.append(SubCheck("tucker/scalar/predict", _reg_case("tucker", "scalar", tier), o_reg_predict("tucker"), quick=400, thorough=3000))
    subs.append(SubCheck("tucker/scalar/weights", _reg_case("tucker", "scalar", tier), o_reg_weights("tucker"), quick=400, thorough=3000))
    for yk in ("yvec", "ymat"):
        subs.append(SubCheck(f"plsr/{yk}/scores", _plsr_case(yk, tier), o_plsr_scores, quick=400, thorough=3000))
        subs.append(SubCheck(f"plsr/{yk}/unit_norm", _plsr_case(yk, tier), o_plsr_unit, quick=400, thorough=3000))
        subs.append(SubCheck(f"plsr/{yk}/exposed", _plsr_case(yk, tier), o_plsr_exposed, quick=400, thorough=3000))
        subs.append(SubCheck(f"plsr/{yk}/shift", _plsr_case(yk, tier, metamorphic=True), o_plsr_shift, quick=400, thorough=3000))
        subs.append(SubCheck(f"plsr/{yk}/permutation", _plsr_case(yk, tier, metamorphic=True), o_plsr_perm, quick=400, thorough=3000))
    subs.append(SubCheck("plsr/int_dtype", _plsr_int_case(tier), o_plsr_int, quick=200, thorough=2000))
    subs.append(SubCheck("cp/history", _reg_hist_case("cp", tier), o_reg_history("cp"), quick=400, thorough=3000))
    subs.append(SubCheck("tucker/history", _reg_hist_case("tucker", tier), o_reg_history("tucker"), quick=400, thorough=3000))
    subs.append(SubCheck("plsr/history", _plsr_hist_case(tier), o_plsr_history, quick=400, thorough=3000))
    return subs
