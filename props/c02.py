"""C02 — multilinear products equal their definitions under either tenalg backend.

Every case is evaluated under the 'core' and under the 'einsum' tensor-algebra backend (order
drawn with the case, so that a failure of one backend does not hide the other); each result is
compared with a reference that shares no code with tensorly (vlib/ref.py, vlib/x_c02.py)."""
import numpy as np
from hypothesis import strategies as st

import tensorly as tl  # noqa: F401
import tensorly.tenalg as T
from tensorly.tenalg.core_tenalg.mttkrp import unfolding_dot_khatri_rao_memory
from tensorly.decomposition import sample_khatri_rao

from vlib import gen, ref, x_c02 as X
from vlib.engine import SubCheck, check, Fail
from vlib.cmp import close, as_array
from vlib.util import tenalg_backend, TENALG_BACKENDS

PROPERTY = "C02"
RULE = ("Hypothesis: operand orders 1-4, sides 1-4 (incl. size-1 modes), values small integers / dyadic k/8 / "
        "seeded Gaussians, real and complex; per function every mode and every option combination of DESIGN C02 "
        "(transpose, skip, explicit ascending / unsorted modes, weights, tensor-shaped mask, skip_matrix, reverse, "
        "n_modes, int / pair / list contraction modes, batched modes, negative axes, single-operand lists). "
        "CP weights are always real. Each case runs under both tenalg backends ('core', 'einsum'); the oracle is an "
        "independent entry formula (np.ndindex loops / einsum sublists); tolerance 1e-10 x (product of operand "
        "max-norms x contraction size), exact (0) for integer data without division. "
        "Non-trivial: the result has more than one entry and some contracted / expanded mode has size > 1 (full "
        "contractions to a scalar: total contraction size > 1 over >= 2 operands; rejection cases: always); "
        "distinct = distinct case hash.")
ASSUMPTIONS = ["NumPy einsum (sublist form), ndindex, matmul and multiply.outer are correct",
               "Hypothesis generates what its strategies describe",
               "CP weights are real (complex weights are outside the documented domain)",
               "multi_mode_dot: `skip` is generated only with ascending modes, modes are never repeated"]

KINDS = ("int", "dyadic", "normal")
REL = 1e-10


# ----------------------------------------------------------------------------
# helpers
# ----------------------------------------------------------------------------
def _order(case):
    bks = list(TENALG_BACKENDS)
    return bks if case.get("first", "core") == "core" else bks[::-1]


def _both(case, call, want, clause, operands, contraction=1, exact=False, rel=REL):
    """call() is evaluated under each backend (arguments rebuilt inside call)."""
    want = np.asarray(want)
    scale = X.scale_of(operands, contraction)
    for bk in _order(case):
        with tenalg_backend(bk):
            got = call()
        close(got, want, f"{clause}@{bk}", rel=(0.0 if exact else rel), scale=scale)
    return want


def _nt(result, *sizes):
    return bool(np.asarray(result).size > 1 and any(int(s) > 1 for s in sizes))


first = st.sampled_from(["core", "einsum"])


@st.composite
def _arr(draw, shape, cplx=False, kinds=KINDS):
    return draw(gen.arr(list(shape), kinds=kinds, complex_=cplx))


def _exact(*encs):
    flat = []
    for e in encs:
        if isinstance(e, (list, tuple)):
            flat += list(e)
        else:
            flat.append(e)
    return all(X.enc_exact(e) for e in flat)


# ----------------------------------------------------------------------------
# mode_dot
# ----------------------------------------------------------------------------
@st.composite
def _mode_dot_case(draw, operand):
    shape = draw(X.shapes(1, 4, 1, 4))
    cplx = draw(st.booleans())
    mode = draw(st.integers(0, len(shape) - 1))
    c = {"first": draw(first), "mode": mode, "x": draw(_arr(shape, cplx)), "cplx": cplx}
    if operand == "matrix":
        J = draw(st.integers(1, 4))
        c["transpose"] = False
        c["m"] = draw(_arr([J, shape[mode]], cplx))
    elif operand == "matrix_t":
        J = draw(st.integers(1, 4))
        c["transpose"] = True
        c["m"] = draw(_arr([shape[mode], J], cplx))
    else:
        # transpose=True with a complex vector is not generated: what "conjugate transpose" of a
        # vector means is not defined by the docs (see multi_mode_dot/transpose_complex_vector)
        c["transpose"] = draw(st.booleans()) and not cplx
        c["m"] = draw(_arr([shape[mode]], cplx))
    return c


def o_mode_dot(case):
    x, m = gen.dec(case["x"]), gen.dec(case["m"])
    mode, tr = case["mode"], case["transpose"]
    if m.ndim == 2:
        eff = np.conj(m.T) if tr else m
        want = ref.mode_dot_matrix(x, eff, mode)
    else:
        want = ref.mode_dot_vector(x, m, mode)
    _both(case, lambda: T.mode_dot(gen.dec(case["x"]), gen.dec(case["m"]), mode, transpose=tr), want,
          "mode_dot/value", [x, m], x.shape[mode], exact=_exact(case["x"], case["m"]))
    return {"nontrivial": _nt(want, x.shape[mode]),
            "labels": [f"order={x.ndim}", f"operand={'matrix' if m.ndim == 2 else 'vector'}", f"transpose={tr}",
                       f"complex={case['cplx']}", f"mode_size1={x.shape[mode] == 1}"]}


# ----------------------------------------------------------------------------
# multi_mode_dot
# ----------------------------------------------------------------------------
@st.composite
def _mmd_case(draw, form):
    """form: 'full' (modes=None, one operand per mode), 'ascending' (explicit ascending subset of
    modes, optional skip), 'unsorted' (explicit modes in arbitrary order, no skip),
    'all_vectors' (full contraction to a scalar)"""
    shape = draw(X.shapes(1, 4, 1, 4))
    nd = len(shape)
    cplx = draw(st.booleans())
    transpose = draw(st.booleans())
    if form in ("full", "all_vectors"):
        modes_eff = list(range(nd))
        modes = None if (form == "full" or draw(st.booleans())) else list(modes_eff)
    elif form == "ascending":
        k = draw(st.integers(1, nd))
        modes_eff = sorted(draw(st.permutations(list(range(nd))))[:k])
        modes = list(modes_eff)
    else:
        k = draw(st.integers(1, nd))
        modes_eff = list(draw(st.permutations(list(range(nd))))[:k])
        modes = list(modes_eff)
    ops = []
    for m in modes_eff:
        vec = True if form == "all_vectors" else draw(st.booleans())
        if vec:
            # complex vectors only without transpose (see _mode_dot_case)
            ops.append(draw(_arr([shape[m]], cplx and not transpose)))
        else:
            J = draw(st.integers(1, 3))
            ops.append(draw(_arr([shape[m], J] if transpose else [J, shape[m]], cplx)))
    skip = None
    if form in ("full", "ascending") and draw(st.booleans()):
        skip = draw(st.integers(0, len(ops) - 1))
    return {"first": draw(first), "x": draw(_arr(shape, cplx)), "ops": ops, "modes": modes,
            "modes_eff": modes_eff, "skip": skip, "transpose": transpose, "cplx": cplx}


def o_mmd(case):
    x = gen.dec(case["x"])
    ops = [gen.dec(o) for o in case["ops"]]
    tr, skip = case["transpose"], case["skip"]
    eff_ops, eff_modes = [], []
    for i, (o, m) in enumerate(zip(ops, case["modes_eff"])):
        if skip is not None and i == skip:
            continue
        eff_ops.append(np.conj(o.T) if (tr and o.ndim == 2) else o)
        eff_modes.append(m)
    want = ref.multi_mode_dot(x, eff_ops, eff_modes)
    csize = max([x.shape[m] for m in eff_modes] + [1])
    ctot = X.prod(x.shape[m] for m in eff_modes)

    def call():
        return T.multi_mode_dot(gen.dec(case["x"]), [gen.dec(o) for o in case["ops"]], modes=case["modes"],
                                skip=skip, transpose=tr)
    _both(case, call, want, "multi_mode_dot/value", [x] + eff_ops, ctot, exact=_exact(case["x"], case["ops"]))
    nvec = sum(1 for o in ops if o.ndim == 1)
    return {"nontrivial": _nt(want, csize) or (np.asarray(want).size >= 1 and ctot > 1 and len(eff_ops) >= 2),
            "labels": [f"order={x.ndim}", f"n_ops={len(ops)}", f"vectors={min(nvec, 2)}", f"skip={skip is not None}",
                       f"transpose={tr}", f"modes={'none' if case['modes'] is None else 'given'}",
                       f"complex={case['cplx']}"]}


@st.composite
def _mmd_tcv_case(draw):
    """transpose=True with at least one complex vector: only cross-backend agreement is asserted"""
    shape = draw(X.shapes(1, 3, 1, 3))
    nd = len(shape)
    ops = []
    kinds = [draw(st.booleans()) for _ in range(nd)]
    kinds[draw(st.integers(0, nd - 1))] = True
    for m, vec in enumerate(kinds):
        if vec:
            ops.append(draw(_arr([shape[m]], True)))
        else:
            ops.append(draw(_arr([shape[m], draw(st.integers(1, 3))], True)))
    return {"x": draw(_arr(shape, True)), "ops": ops}


def o_mmd_tcv(case):
    res = {}
    for bk in TENALG_BACKENDS:
        with tenalg_backend(bk):
            res[bk] = as_array(T.multi_mode_dot(gen.dec(case["x"]), [gen.dec(o) for o in case["ops"]], transpose=True),
                               "multi_mode_dot/transpose_complex_vector")
    x = gen.dec(case["x"])
    ops = [gen.dec(o) for o in case["ops"]]
    close(res["einsum"], res["core"], "multi_mode_dot/backends_agree(transpose=True, complex vector)",
          rel=REL, scale=X.scale_of([x] + ops, x.size))
    # whichever reading is chosen, matrices must be conjugate-transposed; vectors either as given or conjugated
    w_plain = ref.multi_mode_dot(x, [np.conj(o.T) if o.ndim == 2 else o for o in ops], list(range(x.ndim)))
    w_conj = ref.multi_mode_dot(x, [np.conj(o.T) if o.ndim == 2 else np.conj(o) for o in ops], list(range(x.ndim)))
    sc = X.scale_of([x] + ops, x.size)
    d1 = np.max(np.abs(res["core"] - w_plain)) if w_plain.size else 0.0
    d2 = np.max(np.abs(res["core"] - w_conj)) if w_conj.size else 0.0
    check(min(d1, d2) <= REL * max(sc, 1e-300), "multi_mode_dot/transpose_complex_vector/value",
          lambda: f"result matches neither v nor conj(v) reading: {d1:.2e} / {d2:.2e}")
    differs = bool(w_plain.size and np.max(np.abs(w_plain - w_conj)) > 1e-9 * max(sc, 1e-300))
    return {"nontrivial": differs, "labels": [f"order={x.ndim}", f"readings_differ={differs}"]}


# ----------------------------------------------------------------------------
# kronecker
# ----------------------------------------------------------------------------
@st.composite
def _kron_case(draw, with_skip):
    n = draw(st.integers(2 if with_skip else 1, 4 if with_skip else 3))
    cplx = draw(st.booleans())
    mats = [draw(_arr([draw(st.integers(1, 3)), draw(st.integers(1, 3))], cplx)) for _ in range(n)]
    return {"first": draw(first), "mats": mats, "reverse": draw(st.booleans()),
            "skip": draw(st.integers(0, n - 1)) if with_skip else None, "cplx": cplx}


def o_kron(case):
    mats = [gen.dec(m) for m in case["mats"]]
    skip, rev = case["skip"], case["reverse"]
    eff = [m for i, m in enumerate(mats) if i != skip]
    if rev:
        eff = eff[::-1]
    want = X.kron_list(eff)
    # second, structurally different reference (block formula)
    close(ref.kron(eff), want, "harness/kron-references-agree", rel=1e-12, scale=X.scale_of(eff))

    def call():
        kw = {}
        if skip is not None:
            kw["skip_matrix"] = skip
        return T.kronecker([gen.dec(m) for m in case["mats"]], reverse=rev, **kw)
    _both(case, call, want, "kronecker/value", eff, exact=_exact(case["mats"]))
    return {"nontrivial": bool(want.size > 1 and len(eff) >= 2 and sum(1 for m in eff if m.size > 1) >= 2),
            "labels": [f"n={len(mats)}", f"reverse={rev}", f"skip={skip is not None}", f"remaining={len(eff)}",
                       f"complex={case['cplx']}", f"square={all(m.shape[0] == m.shape[1] for m in eff)}"]}


# ----------------------------------------------------------------------------
# khatri_rao
# ----------------------------------------------------------------------------
@st.composite
def _kr_case(draw, n_remaining, weights, mask, skip):
    """n_remaining: (lo, hi) matrices left after the optional skip"""
    k = draw(st.integers(*n_remaining))
    cplx = draw(st.booleans())
    R = draw(st.integers(1, 3))
    skip = skip if isinstance(skip, bool) else draw(st.booleans())
    n = k + (1 if skip else 0)
    rows = [draw(st.integers(1, 4 if k <= 3 else 3)) for _ in range(n)]
    mats = [draw(_arr([r, R], cplx)) for r in rows]
    sk = draw(st.integers(0, n - 1)) if skip else None
    rem_rows = [r for i, r in enumerate(rows) if i != sk]
    c = {"first": draw(first), "mats": mats, "skip": sk, "cplx": cplx, "weights": None, "mask": None}
    if weights == "one_of":     # at least one of weights / mask
        use_w, use_m = draw(st.sampled_from([(True, False), (False, True), (True, True)]))
    else:
        use_w = weights if isinstance(weights, bool) else draw(st.sampled_from([False, True]))
        use_m = mask if isinstance(mask, bool) else draw(st.sampled_from([False, True]))
    if use_w:
        c["weights"] = {"s": [R], "d": [v / 4 for v in draw(st.lists(st.integers(-12, 12), min_size=R, max_size=R))]}
    if use_m:
        nrem = X.prod(rem_rows)
        c["mask"] = {"s": rem_rows, "d": draw(st.lists(st.integers(0, 2), min_size=nrem, max_size=nrem))}
    return c


def o_kr(case):
    mats = [gen.dec(m) for m in case["mats"]]
    sk = case["skip"]
    eff = [m for i, m in enumerate(mats) if i != sk]
    w = gen.dec(case["weights"])
    mk = gen.dec(case["mask"])
    want = X.khatri_rao_entry(eff, w, mk)
    close(ref.khatri_rao(eff, w, mk), want, "harness/kr-references-agree", rel=1e-12, scale=X.scale_of(eff) * 4)

    def call():
        kw = {}
        if sk is not None:
            kw["skip_matrix"] = sk
        if case["weights"] is not None:
            kw["weights"] = gen.dec(case["weights"])
        if case["mask"] is not None:
            kw["mask"] = gen.dec(case["mask"])
        return T.khatri_rao([gen.dec(m) for m in case["mats"]], **kw)
    ops = eff + ([w] if w is not None else []) + ([mk] if mk is not None else [])
    _both(case, call, want, "khatri_rao/value", ops,
          exact=_exact(case["mats"], case["mask"]) and case["weights"] is None)
    # single remaining matrix without options: the product is that matrix; it is non-trivial only in that
    # skip_matrix has to pick the right one
    return {"nontrivial": bool(want.size > 1 and (len(eff) >= 2 or w is not None or mk is not None or sk is not None)),
            "labels": [f"remaining={len(eff)}", f"weights={w is not None}", f"mask={mk is not None}",
                       f"skip={sk is not None}", f"complex={case['cplx']}", f"rank={want.shape[1]}"]}


# ----------------------------------------------------------------------------
# inner
# ----------------------------------------------------------------------------
@st.composite
def _inner_case(draw, form):
    cplx = draw(st.booleans())
    if form == "full":
        shape = draw(X.shapes(1, 4, 1, 4))
        return {"first": draw(first), "a": draw(_arr(shape, cplx)), "b": draw(_arr(shape, cplx)), "n_modes": None,
                "cplx": cplx}
    k = 0 if form == "zero" else draw(st.integers(1, 3))
    common = draw(st.lists(st.integers(1, 3), min_size=k, max_size=k))
    lead = draw(X.shapes(0, 3 - min(k, 2), 1, 3))
    trail = draw(X.shapes(0, 3 - min(k, 2), 1, 3))
    if form == "zero":
        lead = lead or [draw(st.integers(1, 3))]
        trail = trail or [draw(st.integers(1, 3))]
    return {"first": draw(first), "a": draw(_arr(lead + common, cplx)), "b": draw(_arr(common + trail, cplx)),
            "n_modes": k, "cplx": cplx}


def o_inner(case):
    a, b = gen.dec(case["a"]), gen.dec(case["b"])
    k = case["n_modes"]
    want = X.inner_n(a, b, k)
    csize = a.size if k is None else X.prod(a.shape[a.ndim - k:])
    _both(case, lambda: T.inner(gen.dec(case["a"]), gen.dec(case["b"]), n_modes=k), want, "inner/value",
          [a, b], csize, exact=_exact(case["a"], case["b"]))
    return {"nontrivial": bool(csize > 1 or np.asarray(want).size > 1),
            "labels": [f"n_modes={k}", f"order_a={a.ndim}", f"order_b={b.ndim}", f"scalar_out={np.asarray(want).ndim == 0}",
                       f"complex={case['cplx']}"]}


@st.composite
def _inner_bad_case(draw):
    form = draw(st.sampled_from(["full", "n_modes"]))
    if form == "full":
        shape = draw(X.shapes(1, 3, 1, 4))
        other = list(shape)
        how = draw(st.sampled_from(["size", "order", "permute"]))
        if how == "size":
            i = draw(st.integers(0, len(shape) - 1))
            other[i] = other[i] + draw(st.integers(1, 2))
        elif how == "order":
            other = other + [1] if draw(st.booleans()) else [1] + other
        else:
            other = other[::-1]
            if other == list(shape):
                other[0] += 1
        return {"a": draw(_arr(shape)), "b": draw(_arr(other)), "n_modes": None, "how": how}
    k = draw(st.integers(1, 2))
    common = draw(st.lists(st.integers(1, 3), min_size=k, max_size=k))
    bad = list(common)
    i = draw(st.integers(0, k - 1))
    bad[i] = bad[i] + draw(st.integers(1, 2))
    lead = draw(st.lists(st.integers(1, 3), min_size=0, max_size=2))
    trail = draw(st.lists(st.integers(1, 3), min_size=0, max_size=2))
    return {"a": draw(_arr(lead + common)), "b": draw(_arr(bad + trail)), "n_modes": k, "how": "common"}


def o_inner_bad(case):
    for bk in TENALG_BACKENDS:
        with tenalg_backend(bk):
            try:
                r = T.inner(gen.dec(case["a"]), gen.dec(case["b"]), n_modes=case["n_modes"])
            except ValueError:
                continue
        raise Fail(f"inner/reject@{bk}", f"shapes {case['a']['s']} and {case['b']['s']} n_modes={case['n_modes']} "
                                         f"accepted, returned shape {np.shape(r)}")
    return {"nontrivial": True, "labels": [f"how={case['how']}"]}


# ----------------------------------------------------------------------------
# outer / batched_outer
# ----------------------------------------------------------------------------
@st.composite
def _outer_case(draw, batched):
    n = draw(st.integers(1, 3))
    cplx = draw(st.booleans())
    ns = draw(st.integers(1, 3))
    ts = []
    for _ in range(n):
        shp = draw(X.shapes(0 if batched else 1, 2 if n == 3 else 3, 1, 3))
        ts.append(draw(_arr(([ns] if batched else []) + shp, cplx)))
    return {"first": draw(first), "ts": ts, "cplx": cplx}


def o_outer(case):
    ts = [gen.dec(t) for t in case["ts"]]
    want = ref.outer(ts)
    _both(case, lambda: T.outer([gen.dec(t) for t in case["ts"]]), want, "outer/value", ts, exact=_exact(case["ts"]))
    return {"nontrivial": bool(len(ts) >= 2 and sum(1 for t in ts if t.size > 1) >= 2),
            "labels": [f"n={len(ts)}", f"complex={case['cplx']}", f"order_out={np.ndim(want)}"]}


def o_batched_outer(case):
    ts = [gen.dec(t) for t in case["ts"]]
    want = X.batched_outer(ts)
    _both(case, lambda: T.batched_outer([gen.dec(t) for t in case["ts"]]), want, "batched_outer/value", ts,
          exact=_exact(case["ts"]))
    return {"nontrivial": bool(len(ts) >= 2 and ts[0].shape[0] > 1 and sum(1 for t in ts if t[0].size > 1) >= 1),
            "labels": [f"n={len(ts)}", f"complex={case['cplx']}", f"batch={ts[0].shape[0]}", f"order_out={np.ndim(want)}"]}


# ----------------------------------------------------------------------------
# tensordot
# ----------------------------------------------------------------------------
def _neg(draw, axes, ndim):
    return [a - ndim if draw(st.booleans()) else a for a in axes]


@st.composite
def _td_case(draw, form):
    """form: 'int' | 'pair' (pair of ints / pair of lists / one list for both; no batch) |
    'batched' (batch modes of tensor 1 ascending) | 'batched_unsorted' (not ascending)"""
    cplx = draw(st.booleans())
    lo = 2 if form == "batched_unsorted" else 1
    n1 = draw(st.integers(lo, 4))
    n2 = draw(st.integers(lo, 4))
    s1 = draw(st.lists(st.integers(1, 3), min_size=n1, max_size=n1))
    s2 = draw(st.lists(st.integers(1, 3), min_size=n2, max_size=n2))
    kmax = min(n1, n2)
    c = {"first": draw(first), "cplx": cplx, "form": form}
    if form == "int":
        k = draw(st.integers(0, kmax))
        for i in range(k):
            s2[i] = s1[n1 - k + i]
        c.update(modes=k, batched=None, m1=list(range(n1 - k, n1)), m2=list(range(k)), b1=[], b2=[], mform="int")
        c["a"] = draw(_arr(s1, cplx))
        c["b"] = draw(_arr(s2, cplx))
        return c
    if form == "pair":
        nb = 0
    elif form == "batched":
        nb = draw(st.integers(1, kmax))
    else:
        nb = draw(st.integers(2, kmax))
    k = draw(st.integers(0, kmax - nb))
    mform = draw(st.sampled_from(["lists", "lists", "pair_int", "same"]))
    bform = draw(st.sampled_from(["lists", "lists", "int", "pair_int"])) if nb else "none"
    if mform == "pair_int" and k != 1:
        mform = "lists"
    if mform == "same" and k == 2:      # a 2-sequence of ints is read as the pair (mode1, mode2)
        mform = "lists"
    if bform in ("int", "pair_int") and nb != 1:
        bform = "lists"
    if bform == "int" and mform == "same":
        mform = "lists"
    p1 = list(draw(st.permutations(list(range(n1)))))
    p2 = list(draw(st.permutations(list(range(n2)))))
    if mform == "same":
        q = [a for a in p1 if a < kmax]
        m1 = m2 = q[:k]
        b1 = [a for a in p1 if a not in m1][:nb]
        b2 = [a for a in p2 if a not in m2][:nb]
    elif bform == "int":
        a0 = draw(st.integers(0, kmax - 1))
        b1 = b2 = [a0]
        m1 = [a for a in p1 if a != a0][:k]
        m2 = [a for a in p2 if a != a0][:k]
    else:
        m1, m2 = p1[:k], p2[:k]
        b1, b2 = p1[k:k + nb], p2[k:k + nb]
    if form == "batched":
        pairs = sorted(zip(b1, b2))
        b1, b2 = [p[0] for p in pairs], [p[1] for p in pairs]
    if form == "batched_unsorted" and b1 == sorted(b1):
        b1, b2 = b1[::-1], b2[::-1]
    for x, y in zip(m1 + b1, m2 + b2):
        s2[y] = s1[x]
    if mform == "same":
        modes = list(m1)
    elif mform == "pair_int":
        modes = [_neg(draw, m1, n1)[0], _neg(draw, m2, n2)[0]]
    else:
        modes = [_neg(draw, m1, n1), _neg(draw, m2, n2)]
    if bform == "none":
        batched = None
    elif bform == "int":
        batched = b1[0]
    elif bform == "pair_int":
        batched = [_neg(draw, b1, n1)[0], _neg(draw, b2, n2)[0]]
    else:
        batched = [_neg(draw, b1, n1), _neg(draw, b2, n2)]
    c.update(modes=modes, m1=list(m1), m2=list(m2), mform=mform, batched=batched, b1=list(b1), b2=list(b2), bform=bform)
    c["a"] = draw(_arr(s1, cplx))
    c["b"] = draw(_arr(s2, cplx))
    return c


def _tup(v):
    """JSON lists -> the tuple forms callers use"""
    if isinstance(v, list):
        return tuple(_tup(x) if isinstance(x, list) else x for x in v)
    return v


def o_td(case):
    a, b = gen.dec(case["a"]), gen.dec(case["b"])
    want = X.tensordot(a, b, case["m1"], case["m2"], case["b1"], case["b2"])
    csize = X.prod(a.shape[i] for i in case["m1"])

    def call():
        modes = case["modes"]
        if case["mform"] == "lists":
            modes = (list(modes[0]), list(modes[1]))
        else:
            modes = _tup(modes)
        if case["batched"] is None:
            return T.tensordot(gen.dec(case["a"]), gen.dec(case["b"]), modes)
        return T.tensordot(gen.dec(case["a"]), gen.dec(case["b"]), modes, batched_modes=_tup(case["batched"]))
    _both(case, call, want, "tensordot/value", [a, b], csize, exact=_exact(case["a"], case["b"]))
    bsize = X.prod(a.shape[i] for i in case["b1"])
    return {"nontrivial": bool(want.size > 1 and (csize > 1 or bsize > 1 or (a.size > 1 and b.size > 1))),
            "labels": [f"contracted={len(case['m1'])}", f"batched={len(case['b1'])}", f"mform={case['mform']}",
                       f"bform={case.get('bform', 'none')}", f"complex={case['cplx']}",
                       f"orders={a.ndim},{b.ndim}"]}


# ----------------------------------------------------------------------------
# MTTKRP
# ----------------------------------------------------------------------------
@st.composite
def _mttkrp_case(draw, orders, weights):
    shape = draw(X.shapes(orders[0], orders[1], 1, 4))
    R = draw(st.integers(1, 3))
    cplx_f = draw(st.booleans())
    cplx_x = draw(st.booleans())
    wk = ("pos", "neg", "mixed", "zero") if weights is True else (("none",) if weights is False else
                                                                   ("none", "ones", "pos", "mixed", "zero"))
    cp = draw(gen.cp_factors(shape, R, kinds=KINDS, weights=wk, complex_=cplx_f))
    return {"first": draw(first), "x": draw(_arr(shape, cplx_x)), "cp": cp,
            "mode": draw(st.integers(0, len(shape) - 1)), "cplx": cplx_f or cplx_x}


def _mttkrp_common(case):
    x = gen.dec(case["x"])
    w, fs = gen.dec_cp(case["cp"])
    mode = case["mode"]
    want = X.mttkrp(x, w, fs, mode)
    others = [f for k, f in enumerate(fs) if k != mode]
    ops = [x] + others + ([w] if w is not None else [])
    csize = x.size // x.shape[mode]
    ex = _exact(case["x"], case["cp"]["factors"]) and w is None
    labels = [f"order={x.ndim}", f"weights={case['cp']['wkind']}", f"rank={fs[0].shape[1]}", f"complex={case['cplx']}"]
    return x, w, fs, mode, want, ops, csize, ex, labels


def o_mttkrp(case):
    x, w, fs, mode, want, ops, csize, ex, labels = _mttkrp_common(case)

    def call():
        ww, ff = gen.dec_cp(case["cp"])
        return T.unfolding_dot_khatri_rao(gen.dec(case["x"]), (ww, ff), mode)
    _both(case, call, want, "mttkrp/value", ops, csize, exact=ex)
    return {"nontrivial": bool(want.size > 1 and csize > 1), "labels": labels}


def o_mttkrp_memory(case):
    x, w, fs, mode, want, ops, csize, ex, labels = _mttkrp_common(case)

    def call():
        ww, ff = gen.dec_cp(case["cp"])
        return unfolding_dot_khatri_rao_memory(gen.dec(case["x"]), (ww, ff), mode)
    _both(case, call, want, "mttkrp_memory/value", ops, csize, exact=ex)
    return {"nontrivial": bool(want.size > 1 and csize > 1), "labels": labels}


# ----------------------------------------------------------------------------
# sample_khatri_rao
# ----------------------------------------------------------------------------
@st.composite
def _skr_case(draw, given):
    k = draw(st.integers(1, 3))
    skip = draw(st.booleans())
    n = k + (1 if skip else 0)
    R = draw(st.integers(1, 3))
    cplx = draw(st.booleans())
    rows = [draw(st.integers(1, 4)) for _ in range(n)]
    sk = draw(st.integers(0, n - 1)) if skip else None
    ns = draw(st.integers(1, 5))
    c = {"first": draw(first), "mats": [draw(_arr([r, R], cplx)) for r in rows], "skip": sk, "n_samples": ns,
         "rows": draw(st.booleans()), "cplx": cplx}
    if given:
        rem = [r for i, r in enumerate(rows) if i != sk]
        c["indices"] = [draw(st.lists(st.integers(0, r - 1), min_size=ns, max_size=ns)) for r in rem]
        c["aslist"] = draw(st.booleans())
        c["rs"] = None
    else:
        c["indices"] = None
        c["rs"] = {"kind": draw(st.sampled_from(["int", "RandomState"])), "seed": draw(st.integers(0, 2 ** 31 - 1))}
    return c


def o_skr(case):
    mats = [gen.dec(m) for m in case["mats"]]
    sk, ns = case["skip"], case["n_samples"]
    eff = [m for i, m in enumerate(mats) if i != sk]
    sizes = [m.shape[0] for m in eff]
    R = eff[0].shape[1]
    full = X.khatri_rao_entry(eff)
    for bk in _order(case):
        kw = {}
        if sk is not None:
            kw["skip_matrix"] = sk
        if case["indices"] is not None:
            kw["indices_list"] = [list(i) if case["aslist"] else np.array(i, dtype=int) for i in case["indices"]]
        else:
            kw["random_state"] = (case["rs"]["seed"] if case["rs"]["kind"] == "int"
                                  else np.random.RandomState(case["rs"]["seed"]))
        with tenalg_backend(bk):
            out = sample_khatri_rao([gen.dec(m) for m in case["mats"]], ns, return_sampled_rows=case["rows"], **kw)
        check(isinstance(out, tuple) and len(out) == (3 if case["rows"] else 2), f"sample_khatri_rao/arity@{bk}",
              lambda: f"returned {type(out).__name__} of length {len(out) if hasattr(out, '__len__') else '?'}")
        skr, ind = out[0], out[1]
        check(len(ind) == len(eff), f"sample_khatri_rao/indices@{bk}", lambda: f"{len(ind)} index lists for {len(eff)} matrices")
        ind_arr = []
        for t, (iv, s) in enumerate(zip(ind, sizes)):
            ia = as_array(iv, f"sample_khatri_rao/indices@{bk}")
            check(ia.shape == (ns,) and ia.dtype.kind in "iu" and bool(np.all((ia >= 0) & (ia < s))),
                  f"sample_khatri_rao/indices@{bk}", lambda: f"indices[{t}] = {ia!r} not {ns} ints in [0, {s})")
            ind_arr.append(ia)
        if case["indices"] is not None:
            for t in range(len(eff)):
                check(ind_arr[t].tolist() == list(case["indices"][t]), f"sample_khatri_rao/indices_echo@{bk}",
                      lambda: "returned indices differ from the given indices_list")
        kr_idx = X.mixed_radix(ind_arr, sizes)
        close(skr, full[kr_idx, :], f"sample_khatri_rao/rows@{bk}", rel=REL, scale=X.scale_of(eff))
        if case["rows"]:
            got = as_array(out[2], f"sample_khatri_rao/indices_kr@{bk}")
            check(got.shape == (ns,) and got.tolist() == kr_idx.tolist(), f"sample_khatri_rao/indices_kr@{bk}",
                  lambda: f"indices_kr {got.tolist()} != mixed radix {kr_idx.tolist()} (sizes {sizes})")
    return {"nontrivial": bool(len(eff) >= 2 and sum(1 for s in sizes if s > 1) >= 2),
            "labels": [f"remaining={len(eff)}", f"skip={sk is not None}", f"rows={case['rows']}",
                       f"indices={'given' if case['indices'] is not None else case['rs']['kind']}", f"complex={case['cplx']}"]}


# ----------------------------------------------------------------------------
# higher_order_moment
# ----------------------------------------------------------------------------
@st.composite
def _moment_case(draw, sample_order):
    n = draw(st.integers(1, 4))
    order = draw(st.integers(1, 3))
    if sample_order == 1:
        shp = [draw(st.integers(1, 4))]
    else:
        shp = [draw(st.integers(1, 3)), draw(st.integers(1, 3))]
    cplx = draw(st.booleans())
    return {"first": draw(first), "x": draw(_arr([n] + shp, cplx)), "order": order, "cplx": cplx}


def o_moment(case):
    x = gen.dec(case["x"])
    order = case["order"]
    want = X.moment(x, order)
    sc = max(X.amax(x), 1e-300) ** order
    for bk in _order(case):
        with tenalg_backend(bk):
            got = T.higher_order_moment(gen.dec(case["x"]), order)
        close(got, want, f"higher_order_moment/value@{bk}", rel=REL, scale=sc)
    return {"nontrivial": bool(x.shape[0] > 1 and x[0].size > 1 and order >= 2),
            "labels": [f"order={order}", f"n_samples={x.shape[0]}", f"sample_order={x.ndim - 1}", f"complex={case['cplx']}"]}



# ----------------------------------------------------------------------------
# repeated calls on the SAME operand objects (seed-independence pass, seeded change C02-r2m1):
# the k-th call must still return the formula of the operands the caller supplied, under either
# backend.  The reference is computed from copies taken before the first call.
# ----------------------------------------------------------------------------
_bk_seq = st.lists(st.sampled_from(["core", "einsum"]), min_size=2, max_size=3)


def _repeat(case, call, want, clause, operands, contraction=1, exact=False):
    """call(bk_index) is evaluated once per entry of case['bks'] on the same argument objects"""
    want = np.asarray(want)
    scale = X.scale_of(operands, contraction)
    for i, bk in enumerate(case["bks"]):
        with tenalg_backend(bk):
            got = call(i)
        close(got, want, f"{clause}/call{min(i + 1, 2)}{'+' if i >= 2 else ''}@{bk}", rel=(0.0 if exact else REL), scale=scale)


@st.composite
def _kr_repeat_case(draw):
    single = draw(st.booleans())
    c = draw(_kr_case((1, 1), "one_of", None, None)) if single else draw(_kr_case((2, 3), None, None, None))
    c["bks"] = draw(_bk_seq)
    c["single"] = single
    return c


def o_kr_repeat(case):
    mats = [gen.dec(m) for m in case["mats"]]
    sk = case["skip"]
    w = gen.dec(case["weights"])
    mk = gen.dec(case["mask"])
    eff0 = [m.copy() for i, m in enumerate(mats) if i != sk]
    want = X.khatri_rao_entry(eff0, None if w is None else w.copy(), None if mk is None else mk.copy())
    kw = {}
    if sk is not None:
        kw["skip_matrix"] = sk
    if w is not None:
        kw["weights"] = w
    if mk is not None:
        kw["mask"] = mk
    ops = eff0 + ([w.copy()] if w is not None else []) + ([mk.copy()] if mk is not None else [])
    _repeat(case, lambda i: T.khatri_rao(mats, **kw), want, "khatri_rao/repeat", ops,
            exact=_exact(case["mats"], case["mask"]) and case["weights"] is None)
    return {"nontrivial": bool(want.size > 1 and (w is not None or mk is not None or len(eff0) >= 2)),
            "labels": [f"remaining={len(eff0)}", f"weights={w is not None}", f"mask={mk is not None}",
                       f"skip={sk is not None}", "bks=" + ",".join(case["bks"])]}


@st.composite
def _mttkrp_repeat_case(draw):
    order2 = draw(st.booleans())
    c = draw(_mttkrp_case((2, 2), True)) if order2 else draw(_mttkrp_case((3, 4), None))
    n = len(c["x"]["s"])
    k = draw(st.integers(2, 3))
    c["bks"] = draw(st.lists(st.sampled_from(["core", "einsum"]), min_size=k, max_size=k))
    c["modes"] = [draw(st.integers(0, n - 1)) for _ in range(k)]
    c["memory"] = draw(st.sampled_from([False, False, True]))
    return c


def o_mttkrp_repeat(case):
    x = gen.dec(case["x"])
    w, fs = gen.dec_cp(case["cp"])
    x0, w0, fs0 = x.copy(), (None if w is None else w.copy()), [f.copy() for f in fs]
    fn = unfolding_dot_khatri_rao_memory if case["memory"] else T.unfolding_dot_khatri_rao
    for i, (bk, mode) in enumerate(zip(case["bks"], case["modes"])):
        want = X.mttkrp(x0, w0, fs0, mode)
        others = [f for k, f in enumerate(fs0) if k != mode]
        scale = X.scale_of([x0] + others + ([w0] if w0 is not None else []), x0.size // x0.shape[mode])
        with tenalg_backend(bk):
            got = fn(x, (w, fs), mode)          # same tensor, weights and factor objects every time (as in ALS)
        close(got, want, f"mttkrp/repeat/call{min(i + 1, 2)}{'+' if i >= 2 else ''}@{bk}", rel=REL, scale=scale)
    return {"nontrivial": True, "labels": [f"order={x.ndim}", f"weights={case['cp']['wkind']}", f"memory={case['memory']}",
                                           "bks=" + ",".join(case["bks"])]}


@st.composite
def _mmd_repeat_case(draw):
    c = draw(_mmd_case(draw(st.sampled_from(["full", "ascending", "unsorted"]))))
    c["bks"] = draw(_bk_seq)
    return c


def o_mmd_repeat(case):
    x = gen.dec(case["x"])
    ops = [gen.dec(o) for o in case["ops"]]
    tr, skip = case["transpose"], case["skip"]
    eff_ops, eff_modes = [], []
    for i, (o, m) in enumerate(zip(ops, case["modes_eff"])):
        if skip is not None and i == skip:
            continue
        eff_ops.append(np.conj(o.T).copy() if (tr and o.ndim == 2) else o.copy())
        eff_modes.append(m)
    want = ref.multi_mode_dot(x.copy(), eff_ops, eff_modes)
    ctot = X.prod(x.shape[m] for m in eff_modes)
    _repeat(case, lambda i: T.multi_mode_dot(x, ops, modes=case["modes"], skip=skip, transpose=tr), want,
            "multi_mode_dot/repeat", [x.copy()] + eff_ops, ctot, exact=_exact(case["x"], case["ops"]))
    return {"nontrivial": bool(ctot > 1 or np.asarray(want).size > 1), "labels": [f"order={x.ndim}", "bks=" + ",".join(case["bks"])]}


@st.composite
def _kron_repeat_case(draw):
    c = draw(_kron_case(draw(st.booleans())))
    c["bks"] = draw(_bk_seq)
    return c


def o_kron_repeat(case):
    mats = [gen.dec(m) for m in case["mats"]]
    skip, rev = case["skip"], case["reverse"]
    eff = [m.copy() for i, m in enumerate(mats) if i != skip]
    if rev:
        eff = eff[::-1]
    want = X.kron_list(eff)
    kw = {} if skip is None else {"skip_matrix": skip}
    _repeat(case, lambda i: T.kronecker(mats, reverse=rev, **kw), want, "kronecker/repeat", eff, exact=_exact(case["mats"]))
    return {"nontrivial": bool(want.size > 1), "labels": [f"n={len(mats)}", "bks=" + ",".join(case["bks"])]}


# ----------------------------------------------------------------------------
def subchecks(tier):
    S = SubCheck
    return [
        S("mode_dot/matrix", _mode_dot_case("matrix"), o_mode_dot, quick=500, thorough=3000),
        S("mode_dot/matrix_transpose", _mode_dot_case("matrix_t"), o_mode_dot, quick=500, thorough=3000),
        S("mode_dot/vector", _mode_dot_case("vector"), o_mode_dot, quick=500, thorough=3000),
        S("multi_mode_dot/full_list", _mmd_case("full"), o_mmd, quick=500, thorough=3000),
        S("multi_mode_dot/ascending_modes_skip", _mmd_case("ascending"), o_mmd, quick=500, thorough=3000),
        S("multi_mode_dot/unsorted_modes", _mmd_case("unsorted"), o_mmd, quick=500, thorough=3000),
        S("multi_mode_dot/all_vectors", _mmd_case("all_vectors"), o_mmd, quick=350, thorough=2000),
        S("multi_mode_dot/transpose_complex_vector", _mmd_tcv_case(), o_mmd_tcv, quick=250, thorough=1500),
        S("kronecker/plain_reverse", _kron_case(False), o_kron, quick=400, thorough=2500),
        S("kronecker/skip_matrix", _kron_case(True), o_kron, quick=400, thorough=2500),
        S("khatri_rao/plain", _kr_case((2, 4), False, False, False), o_kr, quick=400, thorough=2500),
        S("khatri_rao/weights", _kr_case((2, 4), True, False, False), o_kr, quick=400, thorough=2500),
        S("khatri_rao/mask", _kr_case((2, 3), None, True, False), o_kr, quick=400, thorough=2500),
        S("khatri_rao/skip_matrix", _kr_case((2, 3), None, None, True), o_kr, quick=400, thorough=2500),
        S("khatri_rao/single_matrix_plain", _kr_case((1, 1), False, False, None), o_kr, quick=250, thorough=1500),
        S("khatri_rao/single_matrix_weighted", _kr_case((1, 1), "one_of", None, None), o_kr, quick=400, thorough=2500),
        S("inner/full", _inner_case("full"), o_inner, quick=400, thorough=2500),
        S("inner/n_modes", _inner_case("n_modes"), o_inner, quick=500, thorough=3000),
        S("inner/n_modes_zero", _inner_case("zero"), o_inner, quick=250, thorough=1500),
        S("inner/reject_mismatch", _inner_bad_case(), o_inner_bad, quick=350, thorough=2000),
        S("outer", _outer_case(False), o_outer, quick=400, thorough=2500),
        S("batched_outer", _outer_case(True), o_batched_outer, quick=400, thorough=2500),
        S("tensordot/int_modes", _td_case("int"), o_td, quick=400, thorough=2500),
        S("tensordot/pair_modes", _td_case("pair"), o_td, quick=500, thorough=3000),
        S("tensordot/batched", _td_case("batched"), o_td, quick=500, thorough=3000),
        S("tensordot/batched_unsorted", _td_case("batched_unsorted"), o_td, quick=350, thorough=2000),
        S("mttkrp/default", _mttkrp_case((3, 4), None), o_mttkrp, quick=500, thorough=3000),
        S("mttkrp/order2_unweighted", _mttkrp_case((2, 2), False), o_mttkrp, quick=250, thorough=1500),
        S("mttkrp/order2_weighted", _mttkrp_case((2, 2), True), o_mttkrp, quick=400, thorough=2500),
        S("mttkrp/memory", _mttkrp_case((2, 4), None), o_mttkrp_memory, quick=500, thorough=3000),
        S("sample_khatri_rao/given_indices", _skr_case(True), o_skr, quick=400, thorough=2500),
        S("sample_khatri_rao/seeded", _skr_case(False), o_skr, quick=350, thorough=2000),
        S("higher_order_moment/matrix", _moment_case(1), o_moment, quick=350, thorough=2000),
        S("higher_order_moment/tensor", _moment_case(2), o_moment, quick=350, thorough=2000),
        # the same operand objects used for several calls (core / einsum in a drawn order)
        S("khatri_rao/repeat_calls", _kr_repeat_case(), o_kr_repeat, quick=300, thorough=2500),
        S("mttkrp/repeat_calls", _mttkrp_repeat_case(), o_mttkrp_repeat, quick=300, thorough=2500),
        S("multi_mode_dot/repeat_calls", _mmd_repeat_case(), o_mmd_repeat, quick=200, thorough=2000),
        S("kronecker/repeat_calls", _kron_repeat_case(), o_kron_repeat, quick=150, thorough=1500),
    ]
