"""C01 — unfold / fold / vectorise / matricize are exact inverse index bijections."""
import itertools
import multiprocessing as mp
import numpy as np
from hypothesis import strategies as st

import tensorly as tl
from tensorly import base as B

from vlib import gen, ref
from vlib.engine import SubCheck, check, Fail, canon
from vlib.cmp import same_bits, as_array

PROPERTY = "C01"
RULE = ("Hypothesis: shapes of order 1-6 with sides 1-5 (total size <= 4096), 10 dtypes, 5 memory layouts, "
        "values arange or small ints; every mode / (skip_begin, skip_end, ravel) / ordered row+column modes drawn. "
        "Oracle: independent np.ndindex index formulas, bitwise equality, dtype equality, round trips. "
        "Exhaustive sweep: all shapes of order 1-4 with sides in {1,2,3} and order 5 with sides in {1,2}, all modes, "
        "all skip splits, all ordered row-mode subsets x (None + every column permutation) on an arange tensor. "
        "Non-trivial: at least two modes of size > 1 (the re-arrangement can be a non-identity permutation); "
        "distinct = distinct case hash.")
ASSUMPTIONS = ["NumPy indexing / tobytes / ndindex are correct", "Hypothesis generates what its strategies describe",
               "operations are data-oblivious re-arrangements, so agreement on an all-distinct tensor fixes the index map of that shape"]


def _tensor(case):
    shape = tuple(case["shape"])
    n = gen.prod(shape)
    dt = np.dtype(case["dtype"])
    if case["vals"] == "arange":
        a = np.arange(1, n + 1)
        if dt == np.bool_:
            a = (a * 7919 % 5) < 2
        elif dt.kind == "c":
            a = a + 1j * (n + 1 - a)
        a = a.astype(dt).reshape(shape)
    else:
        rs = np.random.RandomState(case["vals"])
        a = rs.randint(-4, 5, size=shape)
        if dt.kind == "u":
            a = np.abs(a)
        if dt.kind == "c":
            a = a + 1j * rs.randint(-4, 5, size=shape)
        if dt.kind == "f":
            a = a / 8.0 + (rs.randint(0, 2, size=shape) * 1e-3 if dt.itemsize >= 4 else 0)
        a = a.astype(dt)
    return gen.layout(a, case["lay"])


def _nontrivial(shape):
    return sum(1 for s in shape if s > 1) >= 2


@st.composite
def _base(draw, min_order=1, max_order=6):
    shape = draw(gen.shapes(min_order, max_order, 1, 5).filter(lambda s: gen.prod(s) <= 4096))
    return {"shape": shape, "dtype": draw(st.sampled_from(gen.DTYPES_ALL)),
            "lay": draw(st.sampled_from(gen.LAYOUTS)),
            "vals": draw(st.one_of(st.just("arange"), st.integers(0, 10 ** 6)))}


@st.composite
def _unfold_case(draw):
    c = draw(_base())
    c["mode"] = draw(st.integers(0, len(c["shape"]) - 1))
    c["neg"] = draw(st.booleans()) and False
    return c


def _multiset_equal(a, b):
    return sorted(np.asarray(a).ravel().tolist(), key=repr) == sorted(np.asarray(b).ravel().tolist(), key=repr)


def o_unfold(case):
    x = _tensor(case)
    x0 = x.copy()
    m = case["mode"]
    u = B.unfold(x, m)
    same_bits(u, ref.unfold(x0, m), "unfold/map")
    f = B.fold(u, m, x.shape)
    same_bits(f, x0, "fold/roundtrip")
    # fold must also accept a list shape and an independent unfolded copy
    # the same array object is unfolded again after an in-place update: the result must follow the new contents
    if x.flags.writeable and x.size:
        x2 = np.roll(x0.ravel(), 1).reshape(x0.shape) if x0.size > 1 else x0.copy()
        if x0.dtype != np.bool_:
            x2 = (x2 + x2.dtype.type(1)).astype(x0.dtype)
        else:
            x2 = ~x2
        x[...] = x2
        same_bits(B.unfold(x, m), ref.unfold(x2, m), "unfold/after-inplace-update")
        same_bits(B.tensor_to_vec(x), x2.reshape(-1), "tensor_to_vec/after-inplace-update")
        x[...] = x0
        same_bits(B.unfold(x, m), ref.unfold(x0, m), "unfold/after-restoring")
    shape_list = list(x.shape)
    f2 = B.fold(np.array(ref.unfold(x0, m)), m, shape_list)
    same_bits(f2, x0, "fold/inverse-of-reference")
    # the same caller-owned shape list is reused for a second call: it must not have been edited
    check(shape_list == list(x0.shape), "fold/shape-argument-unchanged", lambda: f"shape list {list(x0.shape)} became {shape_list}")
    f3 = B.fold(np.array(ref.unfold(x0, m)), m, shape_list)
    same_bits(f3, x0, "fold/second-call-same-shape-list")
    return {"nontrivial": _nontrivial(case["shape"]), "labels": [f"order={len(case['shape'])}", f"dtype={case['dtype']}", f"lay={case['lay']}"]}


@st.composite
def _partial_case(draw):
    c = draw(_base(min_order=1))
    nd = len(c["shape"])
    sb = draw(st.integers(0, nd - 1))
    se = draw(st.integers(0, nd - 1 - sb))
    c["skip_begin"], c["skip_end"] = sb, se
    c["mode"] = draw(st.integers(0, nd - sb - se - 1))
    c["ravel"] = draw(st.booleans())
    return c


def o_partial(case):
    x = _tensor(case)
    x0 = x.copy()
    sb, se, m, rv = case["skip_begin"], case["skip_end"], case["mode"], case["ravel"]
    u = B.partial_unfold(x, mode=m, skip_begin=sb, skip_end=se, ravel_tensors=rv)
    want = ref.partial_unfold(x0, m, sb, se, rv)
    same_bits(u, want, "partial_unfold/map")
    f = B.partial_fold(u, m, x.shape, skip_begin=sb, skip_end=se)
    same_bits(f, x0, "partial_fold/roundtrip")
    shape_list = list(x0.shape)
    for k in range(2):   # list-typed shape reused across calls
        fl = B.partial_fold(np.array(want), m, shape_list, skip_begin=sb, skip_end=se)
        check(shape_list == list(x0.shape), "partial_fold/shape-argument-unchanged", lambda: f"shape list {list(x0.shape)} became {shape_list}")
        same_bits(fl, x0, "partial_fold/list-shape-call-%d" % k)
    mid = case["shape"][sb:len(case["shape"]) - se]
    return {"nontrivial": _nontrivial(mid) or (se > 0 and _nontrivial(case["shape"][sb:])),
            "labels": [f"sb={sb}", f"se={se}", f"ravel={rv}"]}


def o_partial_vec(case):
    x = _tensor(case)
    x0 = x.copy()
    sb, se = case["skip_begin"], case["skip_end"]
    v = B.partial_tensor_to_vec(x, skip_begin=sb, skip_end=se)
    want = ref.partial_unfold(x0, 0, sb, se, True)
    same_bits(v, want, "partial_tensor_to_vec/map")
    back = B.partial_vec_to_tensor(v, x.shape, skip_begin=sb, skip_end=se)
    same_bits(back, x0, "partial_vec_to_tensor/roundtrip")
    shape_list = list(x0.shape)
    for k in range(2):
        bl = B.partial_vec_to_tensor(np.array(want), shape_list, skip_begin=sb, skip_end=se)
        check(shape_list == list(x0.shape), "partial_vec_to_tensor/shape-argument-unchanged", lambda: f"shape list became {shape_list}")
        same_bits(bl, x0, "partial_vec_to_tensor/list-shape-call-%d" % k)
    return {"nontrivial": _nontrivial(case["shape"]), "labels": [f"sb={sb}", f"se={se}"]}


def o_vec(case):
    x = _tensor(case)
    x0 = x.copy()
    v = B.tensor_to_vec(x)
    want = np.array([x0[idx] for idx in np.ndindex(*x0.shape)], dtype=x0.dtype)
    same_bits(v, want, "tensor_to_vec/map")
    same_bits(B.vec_to_tensor(v, x.shape), x0, "vec_to_tensor/roundtrip")
    same_bits(B.vec_to_tensor(want.copy(), tuple(x.shape)), x0, "vec_to_tensor/inverse-of-reference")
    return {"nontrivial": _nontrivial(case["shape"]), "labels": [f"dtype={case['dtype']}"]}


@st.composite
def _matricize_case(draw):
    c = draw(_base(min_order=1, max_order=5))
    nd = len(c["shape"])
    perm = draw(st.permutations(list(range(nd))))
    k = draw(st.integers(0, nd))
    c["rows"] = list(perm[:k])
    colkind = draw(st.sampled_from(["none", "given", "given"]))
    c["cols"] = None if colkind == "none" else list(perm[k:])
    c["bare_int"] = bool(k == 1 and draw(st.booleans()))
    return c


def o_matricize(case):
    x = _tensor(case)
    x0 = x.copy()
    rows, cols = case["rows"], case["cols"]
    rarg = rows[0] if case["bare_int"] else tuple(rows)
    if cols is None:
        m = B.matricize(x, rarg)
        eff_cols = [i for i in range(x.ndim) if i not in rows]
    else:
        m = B.matricize(x, rarg, tuple(cols))
        eff_cols = cols
    same_bits(m, ref.matricize(x0, rows, eff_cols), "matricize/map")
    return {"nontrivial": _nontrivial(case["shape"]),
            "labels": [f"cols={'none' if cols is None else 'given'}", f"nrows={len(rows)}"]}


@st.composite
def _matricize_bad(draw):
    c = draw(_base(min_order=2, max_order=5))
    nd = len(c["shape"])
    perm = draw(st.permutations(list(range(nd))))
    k = draw(st.integers(1, nd - 1))
    rows, cols = list(perm[:k]), list(perm[k:])
    kind = draw(st.sampled_from(["drop_col", "dup_col", "overlap"]))
    if kind == "drop_col":
        if len(cols) == 0:
            rows = rows[:-1]
        else:
            cols = cols[:-1]
    elif kind == "dup_col":
        cols = cols + [cols[0]] if cols else [rows[0]]
    else:
        cols = cols + [rows[0]]
    c["rows"], c["cols"], c["kind"] = rows, cols, kind
    return c


def o_matricize_bad(case):
    x = _tensor(case)
    try:
        B.matricize(x, tuple(case["rows"]), tuple(case["cols"]))
    except ValueError:
        return {"nontrivial": True, "labels": [case["kind"]]}
    raise Fail("matricize/reject", f"row_modes={case['rows']} column_modes={case['cols']} accepted")


def subchecks(tier):
    return [
        SubCheck("unfold_fold", _unfold_case(), o_unfold, quick=400, thorough=4000),
        SubCheck("partial_unfold_fold", _partial_case(), o_partial, quick=400, thorough=4000),
        SubCheck("partial_vec", _partial_case(), o_partial_vec, quick=300, thorough=3000),
        SubCheck("vec", _base(), o_vec, quick=300, thorough=3000),
        SubCheck("matricize", _matricize_case(), o_matricize, quick=400, thorough=4000),
        SubCheck("matricize_reject", _matricize_bad(), o_matricize_bad, quick=150, thorough=1500),
    ]


# ----------------------------------------------------------------------------
# exhaustive sweep
# ----------------------------------------------------------------------------
def _sweep_shapes():
    out = []
    for order in range(1, 5):
        out += [list(s) for s in itertools.product([1, 2, 3], repeat=order)]
    out += [list(s) for s in itertools.product([1, 2], repeat=5)]
    return out


def _sweep_one(shape):
    n = gen.prod(shape)
    nd = len(shape)
    x = np.arange(1, n + 1, dtype=np.int64).reshape(shape)
    cnt = 0
    bad = []

    def run(kind, cfg, fn):
        nonlocal cnt
        cnt += 1
        try:
            fn()
        except Fail as e:
            bad.append({"subcheck": "sweep", "bucket": f"{kind}:{e.clause}", "msg": f"{e} cfg={cfg}",
                        "case": {"shape": shape, "kind": kind, "cfg": cfg}})

    for m in range(nd):
        def f(m=m):
            u = B.unfold(x, m)
            same_bits(u, ref.unfold(x, m), "unfold/map")
            same_bits(B.fold(u, m, x.shape), x, "fold/roundtrip")
        run("unfold", {"mode": m}, f)
    def fv():
        v = B.tensor_to_vec(x)
        same_bits(v, np.arange(1, n + 1, dtype=np.int64), "tensor_to_vec/map")
        same_bits(B.vec_to_tensor(v, x.shape), x, "vec_to_tensor/roundtrip")
    run("vec", {}, fv)
    for sb in range(nd):
        for se in range(nd - sb):
            for m in range(nd - sb - se):
                for rv in (False, True):
                    def f(sb=sb, se=se, m=m, rv=rv):
                        u = B.partial_unfold(x, mode=m, skip_begin=sb, skip_end=se, ravel_tensors=rv)
                        same_bits(u, ref.partial_unfold(x, m, sb, se, rv), "partial_unfold/map")
                        same_bits(B.partial_fold(u, m, x.shape, skip_begin=sb, skip_end=se), x, "partial_fold/roundtrip")
                    run("partial", {"sb": sb, "se": se, "mode": m, "ravel": rv}, f)
            def f(sb=sb, se=se):
                v = B.partial_tensor_to_vec(x, skip_begin=sb, skip_end=se)
                same_bits(v, ref.partial_unfold(x, 0, sb, se, True), "partial_tensor_to_vec/map")
                same_bits(B.partial_vec_to_tensor(v, x.shape, skip_begin=sb, skip_end=se), x, "partial_vec_to_tensor/roundtrip")
            run("partial_vec", {"sb": sb, "se": se}, f)
    if nd <= 4:
        for k in range(0, nd + 1):
            for rows in itertools.permutations(range(nd), k):
                rest = [i for i in range(nd) if i not in rows]
                def f(rows=rows, rest=rest):
                    same_bits(B.matricize(x, rows), ref.matricize(x, rows, rest), "matricize/map")
                run("matricize", {"rows": list(rows), "cols": None}, f)
                for cols in itertools.permutations(rest):
                    def f(rows=rows, cols=cols):
                        same_bits(B.matricize(x, rows, cols), ref.matricize(x, rows, cols), "matricize/map")
                    run("matricize", {"rows": list(rows), "cols": list(cols)}, f)
    return cnt, bad, (1 if _nontrivial(shape) else 0) * cnt


def _sweep_one_safe(shape):
    try:
        return _sweep_one(shape)
    except Exception as e:  # library raised
        import traceback
        return 1, [{"subcheck": "sweep", "bucket": f"raised:{type(e).__name__}", "msg": traceback.format_exc()[-500:],
                    "case": {"shape": shape}}], 0


def extra(tier, seed, nproc):
    shapes = _sweep_shapes()
    ctx = mp.get_context("fork")
    with ctx.Pool(nproc) as pool:
        res = pool.map(_sweep_one_safe, shapes, chunksize=4)
    total = sum(r[0] for r in res)
    nt = sum(r[2] for r in res)
    viol = {}
    for r in res:
        for b in r[1]:
            viol.setdefault(b["bucket"], b)
    return {"evaluations": total, "distinct_nontrivial": nt, "exhaustive": True,
            "sweep_shapes": len(shapes), "sweep_configurations": total,
            "violations": list(viol.values()),
            "samples": [{"subcheck": "sweep", "case": {"shape": [2, 3, 2], "kind": "partial", "cfg": {"sb": 1, "se": 0, "mode": 1, "ravel": False}}}]}


def o_sweep_replay(case):
    """replay of a sweep violation: re-run the whole sweep for that shape"""
    cnt, bad, _ = _sweep_one(case["shape"])
    if bad:
        raise Fail(bad[0]["bucket"], bad[0]["msg"])
    return {}


_subchecks_orig = subchecks


def subchecks(tier):  # noqa: F811
    subs = _subchecks_orig(tier)
    # 'sweep' exists as a sub-check only for --replay; it generates no random cases
    subs.append(SubCheck("sweep", st.builds(lambda s: {"shape": s}, gen.shapes(1, 4, 1, 3)), o_sweep_replay, quick=20, thorough=100))
    return subs
