"""C09 — SVD-based decompositions: exact at sufficient rank, else quasi-optimal.

Entry points: tucker / partial_tucker (HOSVD-initialised HOOI), tensor_train, tensor_train_matrix,
tensor_ring.  Reference spectra: numpy.linalg.svd of mode unfoldings / sequential unfoldings computed
with plain transpose+reshape; reconstructions through vlib.ref (einsum / tensordot), never through
tensorly.
"""
import numpy as np
from hypothesis import strategies as st

from tensorly.decomposition import tucker, partial_tucker, tensor_train, tensor_train_matrix, tensor_ring
from tensorly.decomposition import Tucker, TensorTrain, TensorTrainMatrix, TensorRing

from vlib import gen, ref
from vlib.engine import SubCheck, check, Fail
from vlib.cmp import as_array, assert_shape, finite

PROPERTY = "C09"
RULE = ("Hypothesis: tensors of order 2-5 with sides 1-4 (<= 400 entries; TT-matrix: 1-3 in/out pairs with sides 1-3) of "
        "classes seeded Gaussian, small explicit integers, seeded integers, exactly low multilinear rank (random Tucker), "
        "exactly low CP rank (rank-deficient unfoldings), exactly low TT rank, exactly low TR rank; integer-valued data is "
        "handed over as float64, int64 or int32; rank vectors from 1 to "
        "beyond the mode sizes given as int or list; svd in {truncated_svd, symeig_svd}; HOOI with n_iter_max in "
        "{1,2,3,10,100} and tol in {default,0}; partial_tucker on every non-empty ascending mode subset; every TR start mode; "
        "each tucker/TT/TT-matrix/TR case through the function or the estimator class (Tucker, TensorTrain, TensorTrainMatrix, "
        "TensorRing.fit_transform); data class pm1 (+-1 entries, tied singular values); monotone sub-checks: error after k>=1 HOOI sweeps <= error of the "
        "same call with n_iter_max=0 (HOSVD start) * (1+1e-9) + 1e-12*||X||; history sub-checks decompose a small tensor first and then the case tensor with the same "
        "rank list object / estimator and judge the second result against the original request; complex128 tensors (order 2-4) at sufficient rank through tensor_train / tensor_ring / tucker must reconstruct to 1e-8*||X||. "
        "Oracle: sigma of mode unfoldings (Tucker) / sequential unfoldings (TT, TT-matrix after the interleaving "
        "permutation) / the start-mode unfolding (TR) from numpy.linalg.svd; "
        "max_n tail_n - slack <= ||X - Xhat||_F <= sqrt(sum_n tail_n^2) + slack with slack = 1e-8*||X|| (1e-5 with symeig); "
        "error <= slack when every requested rank covers the unfolding rank (all tails <= 1e-12*||X||); returned ranks <= "
        "requested and equal to the sequential clipping rule min(rows, cols, requested) for TT/TR; TT-matrix to_matrix equals "
        "the reshaped input at full rank; tensor_ring: error equals the start-unfolding tail at r0*r1 whenever no later "
        "step truncates, and ValueError iff r0*r1 > min(rows, cols) of the start unfolding. Non-trivial: at least one rank "
        "strictly truncates a non-zero tail, or the data is exactly low-rank with some requested rank equal to the true "
        "rank below the full size; distinct = distinct case hash.")
ASSUMPTIONS = ["numpy.linalg.svd returns the true singular values to ~1e-14 relative",
               "HOSVD / TT-SVD quasi-optimality theorems (De Lathauwer et al. 2000; Oseledets 2011) and Eckart-Young",
               "HOOI sweeps started from an orthonormal HOSVD basis never increase the error",
               "Hypothesis generates what its strategies describe"]

ZERO_TAIL = 1e-12


def _slack(svd):
    return 1e-5 if svd == "symeig_svd" else 1e-8


# ----------------------------------------------------------------------------
# data
# ----------------------------------------------------------------------------
def _rs_cores(seed, shapes, integer=False):
    rs = np.random.RandomState(int(seed) % (2 ** 32))
    if integer:
        return [rs.randint(-2, 3, s).astype(float) for s in shapes]
    return [rs.standard_normal(s) for s in shapes]


def _tensor(spec):
    kind = spec["kind"]
    if kind == "enc":
        return gen.dec(spec["a"])
    shape = spec["shape"]
    if kind == "pm1":
        # entries +-1 (optionally with zeros): exactly tied singular values at many truncation points
        rs = np.random.RandomState(int(spec["seed"]) % (2 ** 32))
        vals = [-1.0, 0.0, 1.0] if spec.get("zeros") else [-1.0, 1.0]
        return rs.choice(vals, size=tuple(shape))
    if kind == "tucker":
        return gen.lowrank_tucker_tensor(spec["seed"], shape, spec["ranks"])
    if kind == "cp":
        return gen.lowrank_cp_tensor(spec["seed"], shape, spec["rank"])
    if kind == "tt":
        rk = spec["ranks"]
        return ref.tt_dense(_rs_cores(spec["seed"], [(rk[i], shape[i], rk[i + 1]) for i in range(len(shape))],
                                      spec.get("integer", False)))
    if kind == "tr":
        rk = spec["ranks"]
        return ref.tr_dense(_rs_cores(spec["seed"], [(rk[i], shape[i], rk[i + 1]) for i in range(len(shape))],
                                      spec.get("integer", False)))
    raise ValueError(kind)


def _lib_in(spec, X):
    """the array handed to the library: float64 reference data, or the same values in an integer dtype"""
    dt = spec.get("dt")
    if dt is None:
        return X
    Xi = X.astype(dt)
    assert np.array_equal(Xi, X), "integer-dtype spec on non-integer data"
    return Xi


def _dt_label(spec):
    return f"dtype={spec.get('dt') or 'float64'}"


def _runner(entry, case):
    """tensor -> decomposition, through the function or the estimator class (case['api']).  One rank object (a
    fresh copy of the case's list, so the case itself is never touched) and, for the class API, one estimator are
    shared by every call made through the returned callable: that is what a caller re-using a specification does."""
    rank = case["rank"]
    rank = list(rank) if isinstance(rank, list) else rank
    svd = case["svd"]
    cls_api = case.get("api", "function") == "class"
    if entry == "tt":
        return TensorTrain(rank=rank, svd=svd).fit_transform if cls_api else (lambda X: tensor_train(X, rank=rank, svd=svd))
    if entry == "ttm":
        return TensorTrainMatrix(rank=rank, svd=svd).fit_transform if cls_api else (lambda X: tensor_train_matrix(X, rank=rank, svd=svd))
    if entry == "tr":
        kw = {"mode": case["mode"]} if (case["mode"] or case.get("pass_mode", True)) else {}
        return TensorRing(rank=rank, svd=svd, **kw).fit_transform if cls_api else (lambda X: tensor_ring(X, rank=rank, svd=svd, **kw))
    raise ValueError(entry)


def _first_call(entry, case, run):
    """history cases: decompose the small tensor case['A'] first with the same specification object.
    Returns labels; the first result itself is not judged (single calls are judged by the other sub-checks)."""
    if "A" not in case:
        return []
    A = _tensor(case["A"])
    if entry == "tr":
        req = _rank_list(case["rank"], A.ndim, "tr")
        if _tr_plan(list(A.shape), req, case["mode"]) is None:
            try:
                run(_lib_in(case["A"], A))
            except ValueError:
                return ["history=first_rejected"]
            raise Fail("history/first-call-not-rejected", f"inadmissible start on the first tensor {A.shape} accepted")
    run(_lib_in(case["A"], A))
    return ["history=two_calls"]


def _api_label(case):
    return f"api={case.get('api', 'function')}"


def _sig(mat):
    if min(mat.shape) == 0:
        return np.zeros(0)
    return np.linalg.svd(mat, compute_uv=False)


def _tail(sig, r):
    return float(np.sqrt(np.sum(sig[int(r):] ** 2)))


def _mode_sig(X, n):
    perm = [n] + [i for i in range(X.ndim) if i != n]
    return _sig(np.transpose(X, perm).reshape(X.shape[n], -1))


def _seq_sig(X, k):
    return _sig(X.reshape(gen.prod(X.shape[:k]), -1))


def _norm(X):
    return float(np.linalg.norm(X))


def _rank_list(rank_arg, n, boundary=None):
    """int -> list of n entries (with TT boundary 1s or TR (n+1) entries when boundary says so)"""
    if isinstance(rank_arg, int):
        if boundary == "tt":
            return [1] + [rank_arg] * (n - 1) + [1]
        if boundary == "tr":
            return [rank_arg] * (n + 1)
        return [rank_arg] * n
    return list(rank_arg)


def _num_rank(sig):
    return int(np.sum(sig > 1e-10 * sig[0])) if sig.size and sig[0] > 0 else 0


# ----------------------------------------------------------------------------
# Tucker
# ----------------------------------------------------------------------------
def _tucker_call(case, X, n_iter=None):
    kw = {"n_iter_max": case["n_iter"] if n_iter is None else n_iter, "svd": case["svd"], "init": "svd", "random_state": case.get("rs", 0)}
    if case["tol"] is not None:
        kw["tol"] = case["tol"]
    rank = case["rank"]
    if case.get("modes") is not None:
        (core, factors), errs = partial_tucker(X, rank=rank, modes=list(case["modes"]), **kw)
        return core, list(factors), list(case["modes"])
    if case.get("api") == "class":
        res = Tucker(rank=rank, **kw).fit_transform(X)
    else:
        res = tucker(X, rank=rank, **kw)
    check(len(res) == 2, "tucker/result", "result is not (core, factors)")
    core, factors = res
    return core, list(factors), list(range(X.ndim))


def _tucker_common(case):
    X = _tensor(case["X"])
    core, factors, modes = _tucker_call(case, _lib_in(case["X"], X))
    req = _rank_list(case["rank"], len(modes))
    core = as_array(core, "ranks/core")
    check(len(factors) == len(modes), "ranks/n-factors", lambda: f"{len(factors)} factors for modes {modes}")
    exp_core = list(X.shape)
    got = []
    for i, (f, m) in enumerate(zip(factors, modes)):
        f = as_array(f, "ranks/factor")
        check(f.ndim == 2 and f.shape[0] == X.shape[m], "ranks/factor-rows", lambda: f"factor {i} shape {f.shape}, mode size {X.shape[m]}")
        check(1 <= f.shape[1] <= req[i], "ranks/<=requested", lambda: f"factor {i} has {f.shape[1]} columns, requested {req[i]}")
        exp_core[m] = f.shape[1]
        got.append(f.shape[1])
        factors[i] = f
    check(tuple(core.shape) == tuple(exp_core), "ranks/core-shape", lambda: f"core {core.shape} vs factors {exp_core}")
    finite(core, "finite/core")
    for f in factors:
        finite(f, "finite/factor")
    Xh = ref.tucker_dense(core, factors, modes=modes)
    err = _norm(X - Xh)
    sigs = [_mode_sig(X, m) for m in modes]
    tails = [_tail(s, r) for s, r in zip(sigs, req)]
    return X, req, got, modes, err, sigs, tails


def _tucker_info(case, X, req, modes, sigs, tails):
    nx = _norm(X)
    trunc = any(t > 1e-6 * nx for t in tails) and nx > 0
    lowrank_hit = any(_num_rank(s) == r < X.shape[m] for s, r, m in zip(sigs, req, modes))
    return {"nontrivial": bool(trunc or lowrank_hit),
            "labels": [f"order={X.ndim}", f"kind={case['X'].get('sub', case['X']['kind'])}", f"svd={case['svd']}",
                       f"n_iter={case['n_iter']}", f"truncating={int(trunc)}", f"over_rank={int(any(r > X.shape[m] for r, m in zip(req, modes)))}",
                       f"rank_form={'int' if isinstance(case['rank'], int) else 'list'}", f"size1_mode={int(1 in X.shape)}",
                       _dt_label(case["X"]), _api_label(case)]}


def o_tucker_bounds(case):
    X, req, got, modes, err, sigs, tails = _tucker_common(case)
    nx = _norm(X)
    slack = _slack(case["svd"]) * max(nx, 1e-300)
    upper = float(np.sqrt(sum(t * t for t in tails)))
    lower = max(tails) if tails else 0.0
    svd = case["svd"]
    check(err <= upper + slack, f"bounds/upper[{svd}]",
          lambda: f"error {err:.6e} > sqrt(sum tail^2) {upper:.6e} + {slack:.2e}; shape {X.shape} rank {req} modes {modes}")
    check(err >= lower - slack, f"bounds/lower[{svd}]",
          lambda: f"error {err:.6e} < largest single tail {lower:.6e}; shape {X.shape} rank {req}")
    return _tucker_info(case, X, req, modes, sigs, tails)


def o_tucker_exact(case):
    X, req, got, modes, err, sigs, tails = _tucker_common(case)
    nx = _norm(X)
    info = _tucker_info(case, X, req, modes, sigs, tails)
    sufficient = all(t <= ZERO_TAIL * nx for t in tails)
    info["labels"].append(f"sufficient={int(sufficient)}")
    if not sufficient:
        info["nontrivial"] = False
        return info
    slack = _slack(case["svd"]) * max(nx, 1e-300)
    check(err <= slack, f"exact[{case['svd']}]",
          lambda: f"error {err:.6e} > {slack:.2e} although rank {req} covers unfolding ranks {[_num_rank(s) for s in sigs]} (shape {X.shape})")
    info["nontrivial"] = any(_num_rank(s) == r < X.shape[m] for s, r, m in zip(sigs, req, modes)) or \
        any(_num_rank(s) < X.shape[m] for s, m in zip(sigs, modes))
    return info


def _dense_error(X, core, factors, modes):
    return _norm(X - ref.tucker_dense(as_array(core, "ranks/core"), [as_array(f, "ranks/factor") for f in factors], modes=modes))


def o_tucker_monotone(case):
    """HOSVD init followed by HOOI sweeps that can only enlarge the core norm: the error after k >= 1 sweeps is not
    above the error of the same call with n_iter_max=0 (the HOSVD initialisation itself)."""
    X, req, got, modes, err, sigs, tails = _tucker_common(case)
    nx = _norm(X)
    info = _tucker_info(case, X, req, modes, sigs, tails)
    core0, factors0, _ = _tucker_call(case, _lib_in(case["X"], X), n_iter=0)
    factors0 = [as_array(f, "ranks/factor") for f in factors0]
    orth = all(np.max(np.abs(f.T @ f - np.eye(f.shape[1]))) <= 1e-8 for f in factors0)
    info["labels"].append(f"init_orthonormal={int(orth)}")
    if not orth:
        # only symeig_svd on rank-deficient unfoldings (D19): the monotonicity argument needs an orthonormal start
        check(case["svd"] == "symeig_svd", "monotone/init-orthonormal", "HOSVD factors of truncated_svd are not orthonormal")
        info["nontrivial"] = False
        return info
    err0 = _dense_error(X, core0, factors0, modes)
    check(err <= err0 * (1 + 1e-9) + 1e-12 * max(nx, 1e-300), f"monotone/not-worse-than-hosvd[{case['svd']}]",
          lambda: f"error after {case['n_iter']} sweep(s) {err:.9e} > HOSVD (n_iter_max=0) error {err0:.9e}; shape {X.shape} rank {req} modes {modes}")
    info["labels"].append(f"improved={int(err < err0 * (1 - 1e-9))}")
    info["nontrivial"] = bool(err0 > 1e-9 * nx)
    return info


def o_tucker_ranks(case):
    X, req, got, modes, err, sigs, tails = _tucker_common(case)
    exp = [min(r, X.shape[m]) for r, m in zip(req, modes)]
    check(got == exp, "ranks/min(requested,size)", lambda: f"returned ranks {got}, requested {req}, sizes {[X.shape[m] for m in modes]}")
    return _tucker_info(case, X, req, modes, sigs, tails)


# ----------------------------------------------------------------------------
# TT-SVD and TT-matrix
# ----------------------------------------------------------------------------
def _tt_expected_ranks(shape, req):
    out = [1]
    for k in range(len(shape) - 1):
        n_row = out[-1] * shape[k]
        n_col = gen.prod(shape[k + 1:])
        out.append(min(n_row, n_col, req[k + 1]))
    out.append(1)
    return out


def _tt_check(Y, factors, req, svd, group, what="tt"):
    """Y: the tensor handed to TT-SVD (after any permutation); factors: order-3 cores"""
    N = Y.ndim
    check(len(factors) == N, "ranks/n-factors", lambda: f"{len(factors)} cores for order {N}")
    cores = []
    got = [1]
    for k, f in enumerate(factors):
        f = as_array(f, "ranks/core")
        check(f.ndim == 3 and f.shape[1] == Y.shape[k], "ranks/core-shape", lambda: f"core {k} shape {f.shape}, mode size {Y.shape[k]}")
        check(f.shape[0] == got[-1], "ranks/chain", lambda: f"core {k} left rank {f.shape[0]} != previous right rank {got[-1]}")
        got.append(f.shape[2])
        finite(f, "finite/core")
        cores.append(f)
    check(got[-1] == 1, "ranks/boundary", lambda: f"last rank {got[-1]}")
    check(all(g <= r for g, r in zip(got, req)), "ranks/<=requested", lambda: f"returned {got} requested {req}")
    Yh = ref.tt_dense(cores)
    err = _norm(Y - Yh)
    nx = _norm(Y)
    slack = _slack(svd) * max(nx, 1e-300)
    sigs = [_seq_sig(Y, k) for k in range(1, N)]
    tails = [_tail(s, r) for s, r in zip(sigs, req[1:-1])]
    if group == "ranks":
        exp = _tt_expected_ranks(Y.shape, req)
        check(got == exp, "ranks/clip-rule", lambda: f"returned {got}, sequential clipping of {req} on shape {Y.shape} gives {exp}")
    elif group == "bounds":
        upper = float(np.sqrt(sum(t * t for t in tails)))
        lower = max(tails) if tails else 0.0
        check(err <= upper + slack, f"bounds/upper[{svd}]",
              lambda: f"error {err:.6e} > sqrt(sum tail^2) {upper:.6e} + {slack:.2e}; shape {Y.shape} rank {req}")
        check(err >= lower - slack, f"bounds/lower[{svd}]",
              lambda: f"error {err:.6e} < largest single tail {lower:.6e}; shape {Y.shape} rank {req}")
    sufficient = all(t <= ZERO_TAIL * nx for t in tails)
    if group == "exact" and sufficient:
        check(err <= slack, f"exact[{svd}]",
              lambda: f"error {err:.6e} > {slack:.2e} although rank {req} covers unfolding ranks {[_num_rank(s) for s in sigs]} (shape {Y.shape})")
    trunc = any(t > 1e-6 * nx for t in tails) and nx > 0
    full = [min(gen.prod(Y.shape[:k]), gen.prod(Y.shape[k:])) for k in range(1, N)]
    lowrank_hit = any(_num_rank(s) == r < fl for s, r, fl in zip(sigs, req[1:-1], full))
    deficient = any(_num_rank(s) < fl for s, fl in zip(sigs, full))
    if group == "exact":
        nontrivial = sufficient and (lowrank_hit or deficient)
    else:
        nontrivial = trunc or lowrank_hit
    return {"nontrivial": bool(nontrivial),
            "labels": [f"order={N}", f"svd={svd}", f"truncating={int(trunc)}", f"sufficient={int(sufficient)}",
                       f"over_rank={int(any(r > fl for r, fl in zip(req[1:-1], full)))}", f"size1_mode={int(1 in Y.shape)}"]}, cores


def _o_tt(group):
    def oracle(case):
        X = _tensor(case["X"])
        run = _runner("tt", case)
        hist = _first_call("tt", case, run)
        res = run(_lib_in(case["X"], X))
        req = _rank_list(case["rank"], X.ndim, "tt")      # always the ORIGINAL request
        info, _ = _tt_check(X, list(res.factors), req, case["svd"], group)
        info["labels"] += hist + [_api_label(case)]
        if hist:
            expA = _tt_expected_ranks(case["A"]["a"]["s"], req)
            expB = _tt_expected_ranks(X.shape, req)
            clipped = any(a < b for a, b in zip(expA, expB))
            info["labels"].append(f"first_clipped_below_second={int(clipped)}")
            info["nontrivial"] = bool(clipped)
        info["labels"] += [f"kind={case['X'].get('sub', case['X']['kind'])}", f"rank_form={'int' if isinstance(case['rank'], int) else 'list'}",
                           _dt_label(case["X"])]
        return info
    return oracle


def _o_ttm(group):
    def oracle(case):
        T = _tensor(case["X"])
        n = T.ndim // 2
        in_shape, out_shape = T.shape[:n], T.shape[n:]
        run = _runner("ttm", case)
        hist = _first_call("ttm", case, run)
        res = run(_lib_in(case["X"], T))
        factors = [as_array(f, "ranks/core") for f in res.factors]
        check(len(factors) == n, "ranks/n-factors", lambda: f"{len(factors)} cores for {n} pairs")
        for i, f in enumerate(factors):
            check(f.ndim == 4 and tuple(f.shape[1:3]) == (in_shape[i], out_shape[i]), "ranks/core-shape",
                  lambda: f"core {i} shape {f.shape}, expected (r, {in_shape[i]}, {out_shape[i]}, r')")
        # the tensor TT-SVD must have seen: pairs interleaved, then merged
        perm = [j for i in range(n) for j in (i, n + i)]
        Y = np.transpose(T, perm).reshape([a * b for a, b in zip(in_shape, out_shape)])
        req = _rank_list(case["rank"], n, "tt")
        merged = [f.reshape(f.shape[0], f.shape[1] * f.shape[2], f.shape[3]) for f in factors]
        if n == 1:
            info = {"nontrivial": False, "labels": ["pairs=1"]}
            check(_norm(ref.ttm_dense(factors) - T) <= 1e-12 * max(_norm(T), 1e-300), "exact/single-pair", "single core differs from input")
        else:
            info, _ = _tt_check(Y, merged, req, case["svd"], group if group != "to_matrix" else "exact")
            info["labels"].append(f"pairs={n}")
        # reconstruction through the (in..., out...) layout
        Th = ref.ttm_dense(factors)
        nx = _norm(T)
        check(abs(_norm(T - Th) - _norm(Y - ref.tt_dense(merged))) <= 1e-10 * max(nx, 1e-300), "layout/consistent",
              "error differs between (in, out) layout and interleaved layout")
        if group == "to_matrix":
            Mh = as_array(res.to_matrix(), "to_matrix/array")
            want = T.reshape(gen.prod(in_shape), gen.prod(out_shape))
            check(tuple(Mh.shape) == tuple(want.shape), "to_matrix/shape", lambda: f"{Mh.shape} vs {want.shape}")
            slack = _slack(case["svd"]) * max(nx, 1e-300)
            d_lib = _norm(Mh - Th.reshape(want.shape))
            check(d_lib <= 1e-10 * max(nx, 1e-300), "to_matrix/equals-cores", lambda: f"to_matrix differs from the contraction of its cores by {d_lib:.3e}")
            if "sufficient=1" in info["labels"] or n == 1:
                d = _norm(Mh - want)
                check(d <= slack, f"to_matrix/exact[{case['svd']}]", lambda: f"||to_matrix - input matrix|| = {d:.3e} > {slack:.2e} at sufficient rank {req}")
        info["labels"] += [f"kind={case['X'].get('sub', case['X']['kind'])}", _dt_label(case["X"]), _api_label(case)] + hist
        if hist and n > 1:
            sa = case["A"]["a"]["s"]
            expA = _tt_expected_ranks([a * b for a, b in zip(sa[:n], sa[n:])], req)
            expB = _tt_expected_ranks(Y.shape, req)
            clipped = any(a < b for a, b in zip(expA, expB))
            info["labels"].append(f"first_clipped_below_second={int(clipped)}")
            info["nontrivial"] = bool(clipped)
        return info
    return oracle


# ----------------------------------------------------------------------------
# tensor ring
# ----------------------------------------------------------------------------
def _tr_plan(shape, rank, mode):
    """ranks a TR-SVD started at `mode` can realise.  rank has N+1 entries, rank[N] == rank[0];
    core i has shape (r_i, I_i, r_{i+1}).  Returns None when the start is inadmissible, else
    (returned ranks in ORIGINAL order (N+1 entries), later_step_truncates)."""
    N = len(shape)
    shp = [shape[(mode + j) % N] for j in range(N)]
    rk = [rank[(mode + j) % N] for j in range(N)] + [rank[mode % N]]
    n_row, n_col = shp[0], gen.prod(shp[1:])
    if rk[0] * rk[1] > min(n_row, n_col):
        return None
    got = [rk[0], rk[1]]
    elems = rk[0] * rk[1] * n_col
    truncating = False
    for k in range(1, N - 1):
        nr = got[-1] * shp[k]
        nc = elems // nr
        new = min(nr, nc, rk[k + 1])
        if rk[k + 1] < min(nr, nc):
            truncating = True
        elems = new * nc
        got.append(new)
    got.append(rk[0])
    orig = [None] * (N + 1)
    for j in range(N):
        orig[(mode + j) % N] = got[j]
    orig[N] = orig[0]
    return orig, truncating


def _o_tr(group):
    def oracle(case):
        X = _tensor(case["X"])
        N = X.ndim
        mode, svd = case["mode"], case["svd"]
        req = _rank_list(case["rank"], N, "tr")
        plan = _tr_plan(list(X.shape), req, mode)
        labels = [f"order={N}", f"mode={mode}", f"svd={svd}", f"kind={case['X'].get('sub', case['X']['kind'])}",
                  f"uniform_rank={int(len(set(req)) == 1)}", f"rank_form={'int' if isinstance(case['rank'], int) else 'list'}",
                  _dt_label(case["X"])]
        Xlib = _lib_in(case["X"], X)
        run = _runner("tr", case)
        labels += [_api_label(case)] + _first_call("tr", case, run)
        if plan is None:
            try:
                run(Xlib)
            except ValueError:
                return {"nontrivial": group == "reject", "labels": labels + ["admissible=0"]}
            raise Fail("reject/inadmissible-start",
                       f"rank[{mode}]*rank[{mode + 1}] = {req[mode] * req[mode + 1]} exceeds the start unfolding "
                       f"{X.shape[mode]}x{gen.prod(X.shape) // X.shape[mode]} but no ValueError was raised")
        exp, later_trunc = plan
        res = run(Xlib)
        factors = [as_array(f, "ranks/core") for f in res.factors]
        check(len(factors) == N, "ranks/n-factors", lambda: f"{len(factors)} cores for order {N}")
        got = []
        for i, f in enumerate(factors):
            check(f.ndim == 3 and f.shape[1] == X.shape[i], "ranks/core-shape", lambda: f"core {i} shape {f.shape}, mode size {X.shape[i]}")
            finite(f, "finite/core")
            got.append(f.shape[0])
        got.append(factors[-1].shape[2])
        for i in range(N):
            check(factors[i].shape[2] == factors[(i + 1) % N].shape[0], "ranks/chain",
                  lambda: f"core {i} right rank {factors[i].shape[2]} != core {(i + 1) % N} left rank {factors[(i + 1) % N].shape[0]}")
        if group == "ranks":
            check(all(g <= r for g, r in zip(got, req)), "ranks/<=requested", lambda: f"returned TR ranks {got}, requested {req} (mode={mode})")
            check(got == exp, "ranks/clip-rule", lambda: f"returned TR ranks {got}, expected {exp} for requested {req} (mode={mode}, shape {X.shape})")
        Xh = ref.tr_dense(factors)
        err = _norm(X - Xh)
        nx = _norm(X)
        slack = _slack(svd) * max(nx, 1e-300)
        sig = _mode_sig(X, mode)
        tail = _tail(sig, req[mode] * req[mode + 1])
        if group in ("ranks", "equality"):
            check(err >= tail - slack, f"bounds/lower[{svd}]",
                  lambda: f"error {err:.6e} < tail {tail:.6e} of the mode-{mode} unfolding at r{mode}*r{mode + 1}={req[mode] * req[mode + 1]}")
        if group in ("equality", "exact") and not later_trunc:
            check(err <= tail + slack, f"{group}/first-step[{svd}]",
                  lambda: f"error {err:.6e} > start-unfolding tail {tail:.6e} + {slack:.2e} although no later step truncates; "
                          f"shape {X.shape} rank {req} mode {mode}")
        sufficient = tail <= ZERO_TAIL * nx and not later_trunc
        trunc = tail > 1e-6 * nx
        if group == "exact":
            nontrivial = sufficient and N >= 3
        elif group == "equality":
            nontrivial = (not later_trunc) and trunc
        else:
            nontrivial = trunc or later_trunc
        return {"nontrivial": bool(nontrivial),
                "labels": labels + ["admissible=1", f"later_trunc={int(later_trunc)}", f"sufficient={int(sufficient)}", f"truncating={int(trunc)}"]}
    return oracle


# ----------------------------------------------------------------------------
# strategies
# ----------------------------------------------------------------------------
SIDES = [1, 2, 3, 4, 2, 3, 4, 2, 3]


@st.composite
def _shape(draw, min_order=2, max_order=5, max_size=400, sides=SIDES):
    order = draw(st.sampled_from([o for o in (2, 3, 3, 4, 4, 5) if min_order <= o <= max_order]))
    shape = [draw(st.sampled_from(sides)) for _ in range(order)]
    while gen.prod(shape) > max_size:
        i = int(np.argmax(shape))
        shape[i] -= 1
    return shape


@st.composite
def _data(draw, shape, classes):
    cls = draw(st.sampled_from(classes))
    N = len(shape)
    if cls == "normal":
        return {"kind": "enc", "sub": cls, "a": draw(gen.arr(shape, kinds=(cls,)))}
    if cls in ("int", "seedint"):
        # integer-valued data (|entries| <= 4), handed over as float64 or in an integer dtype
        if cls == "seedint" or gen.prod(shape) > 48:
            spec = {"kind": "enc", "sub": "seedint", "a": draw(gen.arr(shape, kinds=("seedint",)))}
        else:
            spec = {"kind": "enc", "sub": cls, "a": draw(gen.arr(shape, kinds=("int",)))}
        dt = draw(st.sampled_from([None, "int64", "int32"]))
        if dt is not None:
            spec["dt"] = dt
        return spec
    seed = draw(gen.seeds)
    if cls == "pm1":
        spec = {"kind": "pm1", "sub": "pm1", "shape": shape, "seed": seed, "zeros": draw(st.booleans())}
        dt = draw(st.sampled_from([None, None, "int64", "int32"]))
        if dt is not None:
            spec["dt"] = dt
        return spec
    if cls == "tucker":
        return {"kind": "tucker", "shape": shape, "seed": seed, "ranks": [draw(st.integers(1, s)) for s in shape]}
    if cls == "cp":
        return {"kind": "cp", "shape": shape, "seed": seed, "rank": draw(st.integers(1, 3))}
    if cls == "tt":
        rk = [1] + [draw(st.integers(1, 3)) for _ in range(N - 1)] + [1]
        spec = {"kind": "tt", "shape": shape, "seed": seed, "ranks": rk, "integer": draw(st.booleans())}
        if spec["integer"] and draw(st.booleans()):
            spec["dt"] = "int64"      # entries up to a few thousand: int32 Gram matrices could overflow, so int64 only
        return spec
    if cls == "tr":
        rk = [draw(st.integers(1, 2)) for _ in range(N)]
        spec = {"kind": "tr", "shape": shape, "seed": seed, "ranks": rk + [rk[0]], "integer": draw(st.booleans())}
        if spec["integer"] and draw(st.booleans()):
            spec["dt"] = "int64"
        return spec
    raise ValueError(cls)


GENERIC = ("normal", "int", "seedint", "tucker", "cp", "tt", "pm1", "pm1")
TIED = ("pm1", "pm1", "pm1", "int", "seedint", "normal")      # mostly exact ties at the truncation point
LOWRANK = ("tucker", "cp", "tt", "tucker", "cp", "tt", "normal", "int", "seedint")


def _true_ranks(X, kind, modes=None):
    if kind == "mode":
        return [_num_rank(_mode_sig(X, m)) for m in (modes if modes is not None else range(X.ndim))]
    return [_num_rank(_seq_sig(X, k)) for k in range(1, X.ndim)]


@st.composite
def _rank_entry(draw, true_rank, size, sufficient):
    """a requested rank for one mode/bond: around the true rank and beyond the size"""
    if sufficient:
        return draw(st.sampled_from([max(true_rank, 1), max(true_rank, 1), max(true_rank, 1) + 1, size, size + 1, size + 3]))
    return draw(st.sampled_from([1, 1, 2, max(true_rank - 1, 1), max(true_rank, 1), max(true_rank, 1) + 1, size, size + 2]))


@st.composite
def _tucker_case(draw, svd, sufficient=False, partial=False, classes=None):
    shape = draw(_shape())
    spec = draw(_data(shape, classes or (LOWRANK if sufficient else GENERIC)))
    X = _tensor(spec)
    N = len(shape)
    modes = None
    if partial:
        modes = sorted(draw(st.sets(st.integers(0, N - 1), min_size=1, max_size=N)))
    ms = modes if modes is not None else list(range(N))
    tr = _true_ranks(X, "mode", ms)
    form = draw(st.sampled_from(["list", "list", "list", "int"]))
    if form == "int":
        rank = max(draw(_rank_entry(t, shape[m], sufficient)) for t, m in zip(tr, ms)) if sufficient else \
            draw(st.integers(1, max(shape) + 1))
    else:
        rank = [draw(_rank_entry(t, shape[m], sufficient)) for t, m in zip(tr, ms)]
    case = {"X": spec, "rank": rank, "svd": svd, "n_iter": draw(st.sampled_from([1, 2, 3, 10, 100])),
            "tol": draw(st.sampled_from([None, None, 0])), "rs": draw(st.integers(0, 1000))}
    if modes is not None:
        case["modes"] = modes
    else:
        case["api"] = draw(st.sampled_from(["function", "class"]))
    return case


@st.composite
def _tt_case(draw, svd, sufficient=False, forms=("list", "list", "list", "int"), min_order=2):
    shape = draw(_shape(min_order=min_order))
    spec = draw(_data(shape, LOWRANK if sufficient else GENERIC))
    X = _tensor(spec)
    N = len(shape)
    tr = _true_ranks(X, "seq")
    full = [min(gen.prod(shape[:k]), gen.prod(shape[k:])) for k in range(1, N)]
    form = draw(st.sampled_from(list(forms)))
    if form == "int":
        rank = max(draw(_rank_entry(t, f, sufficient)) for t, f in zip(tr, full)) if sufficient else draw(st.integers(1, max(full) + 1))
    else:
        rank = [1] + [draw(_rank_entry(t, f, sufficient)) for t, f in zip(tr, full)] + [1]
    return {"X": spec, "rank": rank, "svd": svd, "api": draw(st.sampled_from(["function", "class"]))}


@st.composite
def _ttm_case(draw, sufficient=False, forms=("list", "list", "int"), pairs=(1, 2, 2, 3, 3)):
    n = draw(st.sampled_from(list(pairs)))
    sides = [1, 2, 3, 2, 3]
    in_shape = [draw(st.sampled_from(sides)) for _ in range(n)]
    out_shape = [draw(st.sampled_from(sides)) for _ in range(n)]
    shape = in_shape + out_shape
    cls = draw(st.sampled_from(["normal", "int", "seedint", "ttm_lowrank", "pm1"]))
    merged = [a * b for a, b in zip(in_shape, out_shape)]
    if cls == "ttm_lowrank" and n > 1:
        rk = [1] + [draw(st.integers(1, 2)) for _ in range(n - 1)] + [1]
        spec = {"kind": "ttm", "sub": "ttm_lowrank", "in": in_shape, "out": out_shape, "ranks": rk, "seed": draw(gen.seeds)}
    else:
        spec = draw(_data(shape, (cls,) if cls != "ttm_lowrank" else ("normal", "int", "seedint")))
    T = _tensor(spec)
    perm = [j for i in range(n) for j in (i, n + i)]
    Y = np.transpose(T, perm).reshape(merged)
    if n == 1:
        rank = draw(st.sampled_from([1, [1, 1]]))
    else:
        tr = _true_ranks(Y, "seq")
        full = [min(gen.prod(merged[:k]), gen.prod(merged[k:])) for k in range(1, n)]
        form = draw(st.sampled_from(list(forms)))
        if form == "int":
            rank = max(draw(_rank_entry(t, f, sufficient)) for t, f in zip(tr, full)) if sufficient else draw(st.integers(1, max(full) + 1))
        else:
            rank = [1] + [draw(_rank_entry(t, f, sufficient)) for t, f in zip(tr, full)] + [1]
    return {"X": spec, "rank": rank, "svd": draw(st.sampled_from(["truncated_svd", "truncated_svd", "symeig_svd"])),
            "api": draw(st.sampled_from(["function", "class"]))}


_tensor_base = _tensor


def _tensor(spec):  # noqa: F811 - adds the TT-matrix low-rank class
    if spec["kind"] == "ttm":
        n = len(spec["in"])
        rk = spec["ranks"]
        cores = _rs_cores(spec["seed"], [(rk[i], spec["in"][i], spec["out"][i], rk[i + 1]) for i in range(n)])
        return ref.ttm_dense(cores)
    return _tensor_base(spec)


@st.composite
def _tr_case(draw, kind, rotation):
    """kind: 'admissible', 'nontrunc' (admissible and no later step truncates), 'reject' (start pair too large);
    rotation: 'safe' = start mode <= 1, or all ranks equal; 'mode2plus' = start mode >= 2 with non-constant ranks.
    Bond i sits between core i-1 and core i: core i has shape (rk[i], I_i, rk[(i+1) % N]); rank = rk + [rk[0]]."""
    min_order = 3 if rotation == "mode2plus" else 2
    shape = draw(_shape(min_order=min_order, max_order=5, max_size=324))
    N = len(shape)
    if rotation == "mode2plus":
        mode = draw(st.sampled_from(list(range(2, N))))
    elif kind == "nontrunc" and rotation == "safe":
        mode = draw(st.sampled_from([0, 1]))      # constant ranks (the only safe form at mode >= 2) always truncate later
    else:
        mode = draw(st.sampled_from(list(range(N))))
    cls = draw(st.sampled_from(["normal", "int", "seedint", "tr", "tr", "cp", "pm1"]))
    spec = draw(_data(shape, (cls,)))
    cap = min(shape[mode], gen.prod(shape) // shape[mode])
    uniform = rotation == "safe" and mode >= 2
    if uniform:
        root = int(np.floor(np.sqrt(cap)))
        r = draw(st.integers(root + 1, root + 3)) if kind == "reject" else draw(st.integers(1, root))
        rank = draw(st.sampled_from([r, [r] * (N + 1)]))
    else:
        if kind == "reject":
            r0 = draw(st.integers(1, cap + 1))
            r1 = draw(st.integers(cap // r0 + 1, cap // r0 + 3))
        else:
            r0, r1 = draw(st.sampled_from([(a, b) for a in range(1, cap + 1) for b in range(1, cap + 1) if a * b <= cap]))
        pool = [64, 64, 200] if kind == "nontrunc" else [1, 2, 3, 4, 6, 64]
        rk = [draw(st.sampled_from(pool)) for _ in range(N)]
        rk[mode], rk[(mode + 1) % N] = r0, r1
        if rotation == "mode2plus" and len(set(rk)) == 1:
            other = next(i for i in range(N) if i not in (mode, (mode + 1) % N))
            rk[other] += 1
        rank = rk + [rk[0]]
    case = {"X": spec, "rank": rank, "mode": mode,
            "svd": draw(st.sampled_from(["truncated_svd", "truncated_svd", "symeig_svd"])),
            "api": draw(st.sampled_from(["function", "class"]))}
    if mode == 0:
        case["pass_mode"] = draw(st.booleans())
    return case


@st.composite
def _with_first(draw, base, entry):
    """two-call history: a small tensor A of the same order (sides 1-2) is decomposed first with the SAME rank list
    object (and estimator), then the case's tensor; the second result is judged against the original request."""
    case = draw(base)
    X = case["X"]
    if X["kind"] == "ttm":
        shapeB = list(X["in"]) + list(X["out"])
    elif X["kind"] == "enc":
        shapeB = X["a"]["s"]
    else:
        shapeB = X["shape"]
    shapeA = [draw(st.sampled_from([1, 2, 2])) for _ in shapeB]
    case["A"] = {"kind": "enc", "sub": "normal", "a": draw(gen.arr(shapeA, kinds=("normal", "seedint")))}
    return case


# ------------------------------------------------------------------ complex128 tensors at sufficient rank
@st.composite
def _complex_case(draw):
    order = draw(st.integers(2, 4))
    shape = [draw(st.integers(1, 4)) for _ in range(order)]
    return {"shape": shape, "seed": draw(st.integers(0, 10**6)), "algo": draw(st.sampled_from(["tt", "tr", "tucker", "tt", "tr"])),
            "kindc": draw(st.sampled_from(["normal", "gauss_int"])), "slack_rank": draw(st.integers(0, 2))}


def o_complex_exact(case):
    shape = case["shape"]
    rng = np.random.RandomState(case["seed"])
    if case["kindc"] == "normal":
        Xc = rng.standard_normal(shape) + 1j * rng.standard_normal(shape)
    else:
        Xc = (rng.randint(-3, 4, shape) + 1j * rng.randint(-3, 4, shape)).astype(np.complex128)
    nrm = max(float(np.linalg.norm(Xc)), 1e-300)
    d = len(shape)
    full_tt = [1] + [min(int(np.prod(shape[:k])), int(np.prod(shape[k:]))) + case["slack_rank"] for k in range(1, d)] + [1]
    if case["algo"] == "tt":
        res = tensor_train(Xc.copy(), rank=list(full_tt))
        rec = ref.tt_dense([as_array(c, "complex/tt/core") for c in res.factors])
    elif case["algo"] == "tr":
        # boundary rank 1 makes the ring a train; later ranks exactly the unfolding sizes (tensor_ring rejects larger ones)
        res = tensor_ring(Xc.copy(), rank=[1] + [min(int(np.prod(shape[:k])), int(np.prod(shape[k:]))) for k in range(1, d)] + [1])
        rec = ref.tr_dense([as_array(c, "complex/tr/core") for c in res.factors])
    else:
        core, fs = tucker(Xc.copy(), rank=list(shape), n_iter_max=2)
        rec = as_array(core, "complex/tucker/core")
        for m, f in enumerate(fs):
            rec = ref.mode_dot_matrix(rec, as_array(f, "complex/tucker/factor"), m)
    err = float(np.linalg.norm(np.asarray(rec) - Xc))
    check(err <= 1e-8 * nrm, f"complex/{case['algo']}/exact_at_sufficient_rank", lambda: f"||X - Xhat|| = {err:.3e} with ||X|| = {nrm:.3e}, shape {shape}")
    return {"nontrivial": sum(1 for x in shape if x > 1) >= 2, "labels": [f"algo={case['algo']}", f"order={d}", f"kind={case['kindc']}"]}


def subchecks(tier):
    subs = []
    for svd, tag in (("truncated_svd", "truncated"), ("symeig_svd", "symeig")):
        subs += [
            SubCheck(f"tucker/bounds/{tag}", _tucker_case(svd), o_tucker_bounds, quick=250, thorough=2000),
            SubCheck(f"tucker/exact/{tag}", _tucker_case(svd, sufficient=True), o_tucker_exact, quick=250, thorough=2000),
            SubCheck(f"tucker/ranks/{tag}", _tucker_case(svd), o_tucker_ranks, quick=200, thorough=1500),
            SubCheck(f"partial_tucker/bounds/{tag}", _tucker_case(svd, partial=True), o_tucker_bounds, quick=250, thorough=2000),
            SubCheck(f"partial_tucker/exact/{tag}", _tucker_case(svd, sufficient=True, partial=True), o_tucker_exact, quick=200, thorough=1500),
            SubCheck(f"tucker/monotone/{tag}", _tucker_case(svd, classes=TIED), o_tucker_monotone, quick=250, thorough=2000),
            SubCheck(f"partial_tucker/monotone/{tag}", _tucker_case(svd, partial=True, classes=TIED), o_tucker_monotone, quick=250, thorough=2000),
            SubCheck(f"tt/bounds/{tag}", _tt_case(svd), _o_tt("bounds"), quick=400, thorough=3000),
            SubCheck(f"tt/exact/{tag}", _tt_case(svd, sufficient=True), _o_tt("exact"), quick=400, thorough=3000),
            SubCheck(f"tt/ranks/{tag}", _tt_case(svd), _o_tt("ranks"), quick=300, thorough=2000),
        ]
    subs += [
        SubCheck("ttm/bounds", _ttm_case(), _o_ttm("bounds"), quick=400, thorough=3000),
        SubCheck("ttm/exact", _ttm_case(sufficient=True), _o_ttm("exact"), quick=400, thorough=3000),
        SubCheck("ttm/ranks", _ttm_case(), _o_ttm("ranks"), quick=300, thorough=2000),
        SubCheck("ttm/to_matrix", _ttm_case(sufficient=True), _o_ttm("to_matrix"), quick=400, thorough=3000),
        SubCheck("tr/exact", _tr_case("nontrunc", "safe"), _o_tr("exact"), quick=400, thorough=3000),
        SubCheck("tr/equality", _tr_case("nontrunc", "safe"), _o_tr("equality"), quick=400, thorough=3000),
        SubCheck("tr/ranks", _tr_case("admissible", "safe"), _o_tr("ranks"), quick=400, thorough=3000),
        SubCheck("tr/reject", _tr_case("reject", "safe"), _o_tr("reject"), quick=300, thorough=2000),
        # start mode >= 2 with non-constant ranks (rank rotation in tensor_ring), kept apart
        SubCheck("tr_mode2plus/ranks", _tr_case("admissible", "mode2plus"), _o_tr("ranks"), quick=400, thorough=3000),
        SubCheck("tr_mode2plus/equality", _tr_case("nontrunc", "mode2plus"), _o_tr("equality"), quick=400, thorough=3000),
        SubCheck("tr_mode2plus/reject", _tr_case("reject", "mode2plus"), _o_tr("reject"), quick=300, thorough=2000),
    ]
    both = st.sampled_from(["truncated_svd", "truncated_svd", "symeig_svd"])
    lst = ("list",)
    subs += [
        # re-use of one rank list / estimator over two tensors (small first): second call judged against the original request
        SubCheck("history/tt/ranks", _with_first(both.flatmap(lambda v: _tt_case(v, forms=lst, min_order=3)), "tt"), _o_tt("ranks"), quick=300, thorough=2000),
        SubCheck("history/tt/exact", _with_first(both.flatmap(lambda v: _tt_case(v, sufficient=True, forms=lst, min_order=3)), "tt"), _o_tt("exact"), quick=300, thorough=2000),
        SubCheck("history/ttm/ranks", _with_first(_ttm_case(forms=lst, pairs=(2, 3)), "ttm"), _o_ttm("ranks"), quick=300, thorough=2000),
        SubCheck("history/ttm/to_matrix", _with_first(_ttm_case(sufficient=True, forms=lst, pairs=(2, 3)), "ttm"), _o_ttm("to_matrix"), quick=300, thorough=2000),
        SubCheck("history/tr/ranks", _with_first(_tr_case("admissible", "any"), "tr"), _o_tr("ranks"), quick=300, thorough=2000),
        SubCheck("history/tr/equality", _with_first(_tr_case("nontrunc", "any"), "tr"), _o_tr("equality"), quick=300, thorough=2000),
    ]
    # complex128 data (the SVD front end's phase resolution must not change the product)
    subs.append(SubCheck("complex/exact", _complex_case(), o_complex_exact, quick=300, thorough=2500))
    return subs
