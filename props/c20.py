"""C20 — factor-similarity metrics are optimal and invariant to CP indeterminacies; error
metrics equal their definitions; leverage-score distributions are distributions.

Oracles: brute force over all R! column matchings (R <= 6) for the congruence coefficient and
cp_permute_factors; NumPy re-statements of the published formulas for CorrIndex, MSE, RMSE, R2,
(reflective) correlation, covariance; the hat-matrix diagonal A A^+ for leverage scores.
"""
import itertools

import numpy as np
from hypothesis import strategies as st

import tensorly as tl
from tensorly import cp_tensor as CP
from tensorly.metrics import factors as MF
from tensorly.metrics import similarity as MS
from tensorly.metrics import regression as MR
from tensorly.metrics import leverage_scores as ML

from vlib import gen, ref
from vlib.engine import SubCheck, check, fail, discard, Fail
from vlib.cmp import close, as_array, assert_shape

PROPERTY = "C20"
RULE = ("Hypothesis draws 1-3 factor matrices (rows 1-5, rank 1-6; explicit small integers or seeded Gaussians; rows < rank and "
        "duplicated / negated columns forced to create ties), passes them as a bare matrix or a list, with absolute_value on/off, and a "
        "second set that is independent, or a column-permuted and column-rescaled (signed, per mode) copy, optionally with noise. "
        "Reference sets are int64/int32/uint8/bool/float32/float64 valued, derived sets float32/float64, either argument order; equivalent "
        "and metamorphic cases additionally rescale one component by 1e-17 .. 1e120 (float32: 1e-12 .. 1e12); correlation_index also "
        "with a drawn `tol`. Oracle for congruence_coefficient / cp_permute_factors: enumeration of all R! matchings of the product-over-modes cosine "
        "matrix (values compared, never permutations, so ties are accepted). CorrIndex: range, zero on equivalent sets, lower bound "
        "0.01/(2R) when a column has no partner with |cos| > 0.99, equality with the published formula, invariance. MSE/RMSE/R2/"
        "correlation/covariance/variance/std: NumPy definitions for every axis (incl. negative, None, omitted); the centred moments "
        "also on data sitting on an offset (x = offset + O(1) data, offset in {0, 1e3, 1e5, 1e6, 1e7}, both operands, either sign) "
        "against an extended-precision two-pass reference at 64 eps (kappa_x + kappa_y + 1) x scale, kappa = |mean|/std, plus shift "
        "invariance correlation(x + c, y + d) == correlation(x, y). Leverage scores: float32/float64, full-rank "
        "and exactly rank-deficient (product of integer factors) matrices against diag(A A^+)/rank. Non-trivial: R >= 3 and a "
        "non-identity permutation for the matching metrics; >= 2 entries along the reduced axis for error metrics; rank-deficient or "
        "float32 input for leverage scores; distinct = distinct case hash.")
ASSUMPTIONS = ["NumPy linalg (norm, svd, pinv, matrix_rank) and einsum are correct", "itertools.permutations enumerates all R! matchings",
               "Hypothesis generates what its strategies describe",
               "R2_score is the uncentred 'fit' 1 - ||X - Xhat||^2 / ||X||^2 used for tensor reconstructions (as implemented and as its argument names X_original/X_predicted indicate), not the mean-centred regression R^2"]

VTOL = 1e-12


# ----------------------------------------------------------------------------
# references
# ----------------------------------------------------------------------------
def _colnorm(m):
    return np.sqrt(np.sum(np.abs(m) ** 2, axis=0))


def cos_matrix(m1, m2, absolute):
    a = m1 / _colnorm(m1)
    b = m2 / _colnorm(m2)
    c = np.einsum(a, [0, 1], b, [0, 2], [1, 2])
    return np.abs(c) if absolute else c


def product_cos(ms1, ms2, absolute):
    out = None
    for a, b in zip(ms1, ms2):
        c = cos_matrix(a, b, absolute)
        out = c if out is None else out * c
    return out


def brute_best(C):
    """max over permutations p of mean_i C[i, p[i]]"""
    R = C.shape[0]
    idx = np.arange(R)
    best = -np.inf
    for p in itertools.permutations(range(R)):
        v = C[idx, list(p)].sum()
        if v > best:
            best = v
    return float(best / R)


def corr_index_single(x1, x2):
    a = x1 / _colnorm(x1)
    b = x2 / _colnorm(x2)
    c = np.abs(np.einsum(np.conj(a), [0, 1], b, [0, 2], [1, 2]))
    R1, R2 = c.shape
    return (np.sum(np.abs(c.max(axis=1) - 1)) + np.sum(np.abs(c.max(axis=0) - 1))) / (R1 + R2), c


def corr_index_ref(f1, f2, method):
    if method == "stacked":
        return corr_index_single(np.concatenate(f1, 0), np.concatenate(f2, 0))[0]
    vals = [corr_index_single(a, b)[0] for a, b in zip(f1, f2)]
    return {"max_score": max, "min_score": min, "avg_score": lambda v: sum(v) / len(v)}[method](vals)


# ----------------------------------------------------------------------------
# generators
# ----------------------------------------------------------------------------
def _fix_zero_cols(ms):
    """zero columns are outside the metrics' domain (they raise ValueError): make every column non-zero"""
    n = 0
    for m in ms:
        for r in range(m.shape[1]):
            if not m[:, r].any():
                m[0, r] = 1.0
                n += 1
    return n


@st.composite
def _mats(draw, rows, R, kinds=("int", "normal")):
    return [draw(gen.arr([n, R], kinds=kinds)) for n in rows]


@st.composite
def _extreme_groups(draw, nm, R, dt):
    """[[matrix index, column, factor], ...]: several extremely rescaled columns per matrix (at most one factor per column)"""
    out, seen = [], set()
    for _ in range(draw(st.integers(1, 2))):
        j = draw(st.integers(0, nm - 1))
        f = draw(st.sampled_from(TINY[dt]))
        cols = draw(st.lists(st.integers(0, R - 1), min_size=1, max_size=R, unique=True))
        if draw(st.booleans()):
            cols = list(range(R))          # every column of the matrix (the product of the norms under/overflows: class N6)
        for r in sorted(cols):
            if (j, r) not in seen:
                seen.add((j, r))
                out.append([j, r, f])
    return out


def _apply_extreme(s, groups, jj, common):
    """multiply the scaling row s (of matrix jj) by the extreme factors; with a common row (stacked CorrIndex) every group acts on
    that row, still at most one factor per column"""
    done = set()
    for j, r, f in groups or ():
        if (0 if common else j) == jj and r not in done:
            done.add(r)
            s[r] *= f
    return s


@st.composite
def _pair_case(draw, max_R=6, relation=("independent", "equivalent", "noisy"), max_mats=3):
    R = draw(st.integers(1, max_R))
    nm = draw(st.integers(1, max_mats))
    rows = [draw(st.integers(1, 5)) for _ in range(nm)]
    c = {"R": R, "rows": rows, "m1": draw(_mats(rows, R)), "absolute": draw(st.booleans()),
         "bare": bool(nm == 1 and draw(st.booleans())), "rel": draw(st.sampled_from(list(relation)))}
    # ties / collinear columns by construction
    ed = []
    if R >= 2 and draw(st.integers(0, 3)) == 0:
        j = draw(st.integers(0, nm - 1))
        a = draw(st.integers(0, R - 1))
        b = draw(st.integers(0, R - 2))
        b = b if b < a else b + 1
        ed.append([draw(st.sampled_from(["dup", "negdup"])), j, a, b])
    c["edits"] = ed
    # dtypes: the reference set may be integer valued (membership / count ground truth) or single precision; a candidate that is
    # derived from it by non-integer rescaling is floating point; `swap` passes the pair in the other argument order
    c["dt1"] = draw(st.sampled_from(DT_REF))
    if c["rel"] == "independent":
        c["m2"] = draw(_mats(rows, R))
        c["dt2"] = draw(st.sampled_from(DT_REF))
    else:
        c["dt2"] = draw(st.sampled_from(["float64", "float32"]))
        c["perm"] = list(draw(st.permutations(list(range(R)))))
        c["scal"] = [[k / 4 for k in draw(st.lists(st.integers(-8, 8).filter(lambda x: x != 0), min_size=R, max_size=R))] for _ in range(nm)]
        if c["rel"] == "noisy":
            c["nseed"] = draw(gen.seeds)
            c["nlevel"] = draw(st.sampled_from([1e-3, 0.1, 1.0]))
        elif draw(st.integers(0, 2)) < 2:
            # "non-zero scalings": components rescaled by extreme but harmless factors (no under/overflow of the squared entries in
            # the working precision); one or two groups = (matrix, factor, non-empty set of columns, possibly all of them)
            c["tiny"] = draw(_extreme_groups(nm, R, c["dt2"]))
    c["swap"] = draw(st.booleans())
    return c


DT_REF = ["int64", "float64", "float32", "int32", "bool", "uint8"]
# extreme-but-harmless rescalings: the squared entries (|entry| >= ~1e-4 after the ordinary k/4 scalings) must stay in the
# normal range of the working precision, otherwise the library's norms lose digits to subnormals (not a defect)
TINY = {"float64": [1e-17, 1e-120, 1e-6, 1e120], "float32": [1e-12, 1e-6, 1e12]}


def _quant(m, dt):
    """values representable in dtype dt, held in float64 (what the references see)"""
    if dt == "float64":
        return m
    if dt == "float32":
        return m.astype(np.float32).astype(np.float64)
    if dt in ("int64", "int32"):
        return np.rint(m)
    if dt == "uint8":
        return np.abs(np.rint(m))
    if dt == "bool":
        return (np.rint(m) != 0).astype(np.float64)
    raise ValueError(dt)


def _dts(case):
    d = (case.get("dt1", "float64"), case.get("dt2", "float64"))
    return d[::-1] if case.get("swap") else d


def _fdt(dt):
    """dtype of data derived from a dt-typed matrix by real rescaling"""
    return dt if dt in ("float32", "float64") else "float64"


def _as(ms, dt):
    return [np.array(m, dtype=dt) for m in ms]


def _vt(case, tight=VTOL):
    """value tolerance: single precision anywhere in the pair limits the library to ~1e-7 per cosine"""
    return 5e-6 if "float32" in _dts(case) else tight


def _build_pair(case, positive_scal=False, common_scal=False):
    """(matrix1 list, matrix2 list, #zero columns repaired): float64 arrays holding values representable in the case's dtypes;
    the library receives them cast to those dtypes (_dts)"""
    dt1, dt2 = case.get("dt1", "float64"), case.get("dt2", "float64")
    m1 = [np.array(gen.dec(e), dtype=float) for e in case["m1"]]
    for op, j, a, b in case["edits"]:
        m1[j][:, a] = m1[j][:, b] * (-1 if op == "negdup" else 1)
    m1 = [_quant(m, dt1) for m in m1]
    nfix = _fix_zero_cols(m1)
    if case["rel"] == "independent":
        m2 = [_quant(np.array(gen.dec(e), dtype=float), dt2) for e in case["m2"]]
        nfix += _fix_zero_cols(m2)
    else:
        p = case["perm"]
        tiny = case.get("tiny")
        m2 = []
        for j, m in enumerate(m1):
            jj = 0 if common_scal else j
            s = np.array(case["scal"][jj], dtype=float)
            if positive_scal:
                s = np.abs(s)
            s = _apply_extreme(s, tiny, jj, common_scal)
            x = (m * s)[:, p]
            if case["rel"] == "noisy":
                rs = np.random.RandomState((case["nseed"] + j) % (2 ** 32))
                x = x + case["nlevel"] * rs.standard_normal(x.shape)
            m2.append(_quant(x, dt2))
        nfix += _fix_zero_cols(m2)
    if case.get("swap"):
        m1, m2 = m2, m1
    return m1, m2, nfix


def _labels(case, extra=()):
    return [f"R={case['R']}", f"nmat={len(case['rows'])}", f"abs={case['absolute']}", f"bare={case['bare']}", f"rel={case['rel']}",
            f"rows_lt_R={any(n < case['R'] for n in case['rows'])}", f"ties={bool(case['edits'])}",
            "dtypes=%s/%s" % _dts(case), "extreme_cols=%s" % (min(len(case.get("tiny") or case.get("qtiny") or ()), 4) or "no")] + list(extra)


def _nontrivial(case):
    if case["R"] < 3:
        return False
    return case["rel"] == "independent" or case["perm"] != sorted(case["perm"])


def _call_congruence(case, m1, m2, dts=None):
    d1, d2 = dts or _dts(case)
    m1, m2 = _as(m1, d1), _as(m2, d2)
    a = m1[0] if case["bare"] else m1
    b = m2[0] if case["bare"] else m2
    res = MF.congruence_coefficient(a, b, absolute_value=case["absolute"])
    try:
        val, perm = res
    except Exception:
        raise Fail("congruence/structure", f"result {type(res).__name__} is not (value, permutation)")
    v = as_array(val, "congruence/structure")
    check(v.ndim == 0 and np.isfinite(v), "congruence/structure", lambda: f"value {val!r}")
    try:
        perm = [int(x) for x in perm]
    except Exception:
        raise Fail("congruence/structure", f"permutation {perm!r}")
    return float(v), perm


# ----------------------------------------------------------------------------
# congruence coefficient
# ----------------------------------------------------------------------------
def o_congruence_optimal(case):
    m1, m2, nfix = _build_pair(case)
    val, perm = _call_congruence(case, m1, m2)
    vt = _vt(case)
    C = product_cos(m1, m2, case["absolute"])
    best = brute_best(C)
    check(abs(val - best) <= vt, "congruence/optimal-value", lambda: f"returned {val!r}, brute-force maximum over {case['R']}! matchings {best!r}")
    return {"nontrivial": _nontrivial(case), "labels": _labels(case)}


def o_congruence_perm(case):
    m1, m2, nfix = _build_pair(case)
    R = case["R"]
    val, perm = _call_congruence(case, m1, m2)
    vt = _vt(case)
    check(sorted(perm) == list(range(R)), "congruence/is-permutation", lambda: f"{perm}")
    C = product_cos(m1, m2, case["absolute"])
    attained = float(C[np.arange(R), perm].mean())
    # the returned permutation maps column perm[i] of matrix2 onto column i of matrix1 and attains the returned value
    check(abs(attained - val) <= vt, "congruence/perm-attains-value", lambda: f"mean cos under returned permutation {attained!r} != returned value {val!r} (perm {perm})")
    best = brute_best(C)
    check(attained >= best - vt, "congruence/perm-optimal", lambda: f"returned permutation attains {attained!r} < maximum {best!r}")
    return {"nontrivial": _nontrivial(case), "labels": _labels(case)}


def o_congruence_range(case):
    m1, m2, nfix = _build_pair(case)
    val, perm = _call_congruence(case, m1, m2)
    vt = _vt(case)
    if case["absolute"]:
        check(-vt <= val <= 1 + vt, "congruence/range[0,1]", lambda: f"{val!r}")
    else:
        check(-1 - vt <= val <= 1 + vt, "congruence/range[-1,1]", lambda: f"{val!r}")
    return {"nontrivial": _nontrivial(case), "labels": _labels(case)}


def o_congruence_equivalent(case):
    # signed rescalings need absolute values; without them only positive rescalings are an equivalence
    m1, m2, nfix = _build_pair(case, positive_scal=not case["absolute"])
    R = case["R"]
    val, perm = _call_congruence(case, m1, m2)
    vt = _vt(case)
    check(abs(val - 1) <= vt, "congruence/equivalent-value-1", lambda: f"{val!r}")
    check(sorted(perm) == list(range(R)), "congruence/is-permutation", lambda: f"{perm}")
    prod_signed = np.ones(R)
    for j, (a, b) in enumerate(zip(m1, m2)):
        d = np.diag(cos_matrix(a, b[:, perm], False))
        prod_signed = prod_signed * d
        # every matched pair is collinear in every matrix ...
        check(bool(np.all(np.abs(np.abs(d) - 1) <= _vt(case, 1e-9))), "congruence/equivalent-recovers-columns",
              lambda: f"matrix {j}: cos(matrix1[:, i], matrix2[:, perm[i]]) = {d.tolist()} (perm {perm}, applied {case['perm']})")
    if not case["absolute"]:
        # ... and, without absolute values, with an overall positive orientation (product over the matrices)
        check(bool(np.all(np.abs(prod_signed - 1) <= _vt(case, 1e-9))), "congruence/equivalent-recovers-orientation", lambda: f"{prod_signed.tolist()}")
    return {"nontrivial": _nontrivial(case), "labels": _labels(case)}


@st.composite
def _meta_case(draw):
    c = draw(_pair_case(relation=("independent", "noisy")))
    R, nm = c["R"], len(c["rows"])
    c["q"] = list(draw(st.permutations(list(range(R)))))
    c["qscal"] = [[k / 4 for k in draw(st.lists(st.integers(1, 8), min_size=R, max_size=R))] for _ in range(nm)]
    c["qsign"] = [[draw(st.sampled_from([-1, 1])) for _ in range(R)] for _ in range(nm)]
    if draw(st.integers(0, 2)) < 2:     # components rescaled by extreme factors (dtype of the second argument after `swap`)
        c["qtiny"] = draw(_extreme_groups(nm, R, _fdt(_dts(c)[1])))
    return c


def _qscal(case, j, signed):
    s = np.array(case["qscal"][j], dtype=float) * (np.array(case["qsign"][j]) if signed else 1.0)
    return _apply_extreme(s, case.get("qtiny"), j, bool(case.get("_qcommon")))


def o_congruence_invariance(case):
    m1, m2, nfix = _build_pair(case)
    val, _ = _call_congruence(case, m1, m2)
    vt = _vt(case)
    q = case["q"]
    d1, d2 = _dts(case)
    m2b = [_quant((m * _qscal(case, j, case["absolute"]))[:, q], _fdt(d2)) for j, m in enumerate(m2)]
    val_b, _ = _call_congruence(case, m1, m2b, (d1, _fdt(d2)))
    check(abs(val - val_b) <= vt, "congruence/invariant-under-permutation+scaling", lambda: f"{val!r} vs {val_b!r} after permuting matrix2 by {q}")
    val_s, _ = _call_congruence(case, m2, m1, (d2, d1))
    check(abs(val - val_s) <= vt, "congruence/symmetric", lambda: f"c(m1,m2)={val!r} c(m2,m1)={val_s!r}")
    return {"nontrivial": case["R"] >= 3 and q != sorted(q), "labels": _labels(case)}


# ----------------------------------------------------------------------------
# correlation index
# ----------------------------------------------------------------------------
METHODS = ["stacked", "max_score", "min_score", "avg_score"]


@st.composite
def _ci_case(draw, relation):
    c = draw(_pair_case(relation=relation))
    c["bare"] = False
    c["method"] = draw(st.sampled_from(METHODS + ["default"]))
    c["tol"] = draw(st.sampled_from(CI_TOLS))
    return c


# the `tol` argument: "precision threshold below which to call the CorrIndex score 0" (default 5e-16; 1e-5 is what one would use
# with single-precision factors)
CI_TOLS = ["default", 1e-5, 1e-12, 5e-16]


def _ci_tol(case):
    t = case.get("tol", "default")
    return 5e-16 if t == "default" else float(t)


def _call_ci(case, f1, f2, dts=None):
    d1, d2 = dts or _dts(case)
    kw = {} if case["method"] == "default" else {"method": case["method"]}
    if case.get("tol", "default") != "default":
        kw["tol"] = case["tol"]
    s = MS.correlation_index(_as(f1, d1), _as(f2, d2), **kw)
    v = as_array(s, "corrindex/structure")
    check(v.ndim == 0 and np.isfinite(v), "corrindex/structure", lambda: f"score {s!r}")
    return float(v)


def _ci_same(got, want, tol, vt):
    """got equals want, or both lie in the band that `tol` rounds to 0"""
    return abs(got - want) <= vt or max(got, want) <= tol + vt


def _method(case):
    return "stacked" if case["method"] == "default" else case["method"]


def o_ci_range(case):
    f1, f2, _ = _build_pair(case)
    s = _call_ci(case, f1, f2)
    vt, tol = _vt(case), _ci_tol(case)
    check(-vt <= s <= 1 + vt, "corrindex/range[0,1]", lambda: f"{s!r} (method {case['method']})")
    return {"nontrivial": case["R"] >= 2, "labels": _labels(case, [f"method={case['method']}", f"tol={case.get('tol', 'default')}"])}


def o_ci_definition(case):
    f1, f2, _ = _build_pair(case)
    s = _call_ci(case, f1, f2)
    vt, tol = _vt(case), _ci_tol(case)
    want = float(corr_index_ref(f1, f2, _method(case)))
    # "tol: precision threshold below which to call the CorrIndex score 0": for the per-matrix methods the score that is
    # thresholded may be each matrix's own score (what the library does) or the combined one - both readings are accepted:
    # the result must lie between the combination of the thresholded and of the raw per-matrix scores
    lo = hi = want
    if _method(case) != "stacked":
        vals = [float(corr_index_single(a, b)[0]) for a, b in zip(f1, f2)]
        comb = {"max_score": max, "min_score": min, "avg_score": lambda v: sum(v) / len(v)}[_method(case)]
        lo = comb([0.0 if v <= tol + vt else v for v in vals])
    check(_ci_same(s, want, tol, vt) or lo - vt <= s <= hi + vt, "corrindex/definition",
          lambda: f"{s!r} != formula {want!r} (thresholded per matrix: {lo!r}; method {case['method']}, tol {tol:g})")
    # lower bound: some column without a partner with |cos| > 0.99  ==>  score > 0 (at least 0.01 / 2R in that matrix)
    R = case["R"]
    if _method(case) == "stacked":
        pairs = [(np.concatenate(f1, 0), np.concatenate(f2, 0))]
    else:
        pairs = list(zip(f1, f2))
    lonely = []
    for a, b in pairs:
        c = cos_matrix(a, b, True)
        lonely.append(bool(np.any(c.max(axis=1) <= 0.99) or np.any(c.max(axis=0) <= 0.99)))
    m = _method(case)
    if m in ("stacked", "max_score"):
        bound = 0.01 / (2 * R) if any(lonely) else None
    elif m == "min_score":
        bound = 0.01 / (2 * R) if all(lonely) else None
    else:
        bound = 0.01 / (2 * R) * sum(lonely) / len(lonely) if any(lonely) else None
    if bound is not None:
        check(s >= bound - vt or bound <= tol, "corrindex/positive-when-unmatched", lambda: f"score {s!r} < {bound!r} although a column has no partner (method {m})")
    return {"nontrivial": case["R"] >= 2, "labels": _labels(case, [f"method={case['method']}", f"unmatched={bound is not None}"])}


def o_ci_equivalent(case):
    m = _method(case)
    # 'stacked' normalises the vertically stacked columns: only a per-component scaling common to all modes is an equivalence there
    f1, f2, _ = _build_pair(case, common_scal=(m == "stacked"))
    s = _call_ci(case, f1, f2)
    vt, tol = _vt(case), _ci_tol(case)
    check(abs(s) <= vt, "corrindex/equivalent-zero", lambda: f"score {s!r} for a column-permuted, column-rescaled copy (method {case['method']})")
    return {"nontrivial": _nontrivial(case), "labels": _labels(case, [f"method={case['method']}", f"tol={case.get('tol', 'default')}"])}


@st.composite
def _ci_meta_case(draw):
    c = draw(_meta_case())
    c["bare"] = False
    c["absolute"] = True
    c["method"] = draw(st.sampled_from(METHODS + ["default"]))
    c["tol"] = draw(st.sampled_from(CI_TOLS))
    return c


def o_ci_invariance(case):
    f1, f2, _ = _build_pair(case)
    m = _method(case)
    s = _call_ci(case, f1, f2)
    vt, tol = _vt(case), _ci_tol(case)
    q = case["q"]
    d1, d2 = _dts(case)
    if m == "stacked":      # common scaling: the extreme factors sit in the common row
        case = dict(case, _qcommon=True)
    f2b = [_quant((x * _qscal(case, 0 if m == "stacked" else j, True))[:, q], _fdt(d2)) for j, x in enumerate(f2)]
    sb = _call_ci(case, f1, f2b, (d1, _fdt(d2)))
    check(_ci_same(s, sb, tol, vt), "corrindex/invariant-under-permutation+scaling", lambda: f"{s!r} vs {sb!r} (method {m}, q={q})")
    ss = _call_ci(case, f2, f1, (d2, d1))
    check(_ci_same(s, ss, tol, vt), "corrindex/symmetric", lambda: f"{s!r} vs {ss!r}")
    return {"nontrivial": case["R"] >= 3 and q != sorted(q), "labels": _labels(case, [f"method={case['method']}", f"tol={case.get('tol', 'default')}"])}


# ----------------------------------------------------------------------------
# cp_permute_factors
# ----------------------------------------------------------------------------
@st.composite
def _cpperm_case(draw):
    c = draw(_pair_case(max_R=5, relation=("independent", "equivalent", "noisy"), max_mats=3))
    if len(c["rows"]) < 2:     # at least an order-2 CP tensor
        c["rows"] = c["rows"] + [draw(st.integers(1, 5))]
        c["m1"] = c["m1"] + [draw(gen.arr([c["rows"][-1], c["R"]]))]
        if c["rel"] == "independent":
            c["m2"] = c["m2"] + [draw(gen.arr([c["rows"][-1], c["R"]]))]
        else:
            c["scal"] = c["scal"] + [[k / 4 for k in draw(st.lists(st.integers(-8, 8).filter(lambda x: x != 0), min_size=c["R"], max_size=c["R"]))]]
    R = c["R"]
    c["bare"] = False
    c["absolute"] = True
    wl = st.lists(st.integers(-8, 8).filter(lambda x: x != 0), min_size=R, max_size=R)
    c["w1"] = [k / 4 for k in draw(wl)]
    c["w2"] = [k / 4 for k in draw(wl)]
    c["as_list"] = draw(st.booleans())
    # forced share (seed-independence pass, seeded changes C20-r2m3 / C20-r3m1): a tensor to permute whose scale is carried by
    # its factor columns and is clearly unequal across components (30 / 1 / 0.05), with a matching that is not clear-cut
    if c["rel"] != "equivalent" and draw(st.integers(0, 2)) < 2:
        c["cscale"] = [[draw(st.sampled_from([30.0, 0.05, 1.0])) for _ in range(R)] for _ in c["rows"]]
    return c


def o_cp_permute(case):
    f1, f2, _ = _build_pair(case)
    R = case["R"]
    w1, w2 = np.array(case["w1"]), np.array(case["w2"])
    d1, d2 = _dts(case)
    if case.get("cscale"):
        d2 = _fdt(d2)
        f2 = [_quant(f * np.array(cs), d2) for f, cs in zip(f2, case["cscale"])]
    vt = _vt(case)
    refcp = CP.CPTensor((w1.copy(), _as(f1, d1)))
    t = CP.CPTensor((w2.copy(), _as(f2, d2)))
    res = CP.cp_permute_factors(refcp, [t] if case["as_list"] else t)
    try:
        out, perms = res
    except Exception:
        raise Fail("cp_permute_factors/structure", f"result {type(res).__name__}")
    check(not isinstance(out, list) and len(perms) == 1, "cp_permute_factors/structure", "one tensor in: one tensor and one permutation out")
    perm = [int(x) for x in np.asarray(perms[0]).ravel()]
    check(sorted(perm) == list(range(R)), "cp_permute_factors/is-permutation", lambda: f"{perm}")
    try:
        ow, ofs = out
    except Exception:
        raise Fail("cp_permute_factors/structure", f"permuted tensor {type(out).__name__}")
    check(len(ofs) == len(f2), "cp_permute_factors/structure", "number of factors")
    for j in range(len(f2)):
        close(ofs[j], f2[j][:, perm], "cp_permute_factors/perm-applied", rel=0, scale=1.0)
    close(ow, w2[perm], "cp_permute_factors/perm-applied", rel=0, scale=1.0)
    # same tensor
    scale = float(np.max(ref.cp_dense(np.abs(w2), [np.abs(f) for f in f2])))
    close(ref.cp_dense(np.asarray(ow, dtype=float), [np.asarray(o, dtype=float) for o in ofs]), ref.cp_dense(w2, f2), "cp_permute_factors/dense", rel=1e-9, scale=scale)
    # aligned: the matching is an optimal one for the product-over-modes |cos|
    C = product_cos(f1, f2, True)
    attained = float(C[np.arange(R), perm].mean())
    best = brute_best(C)
    check(attained >= best - vt, "cp_permute_factors/optimal-alignment", lambda: f"alignment attains {attained!r} < best {best!r} (perm {perm})")
    if case["rel"] == "equivalent":
        for j in range(len(f1)):
            d = np.diag(cos_matrix(f1[j], np.asarray(ofs[j], dtype=float), True))
            check(bool(np.all(np.abs(d - 1) <= _vt(case, 1e-9))), "cp_permute_factors/aligned-collinear", lambda: f"mode {j}: |cos| {d.tolist()}")
    return {"nontrivial": _nontrivial(case), "labels": _labels(case, [f"as_list={case['as_list']}", f"unequal_col_scales={bool(case.get('cscale'))}"])}


# ----------------------------------------------------------------------------
# error metrics
# ----------------------------------------------------------------------------
@st.composite
def _err_case(draw, min_side=1):
    shape = draw(gen.shapes(1, 3, min_side, 5))
    nd = len(shape)
    # every negative axis is a first-class option (seed-independence pass, seeded change C20-r3m2: axis = -1 / -2 on 2-D / 3-D input)
    ax = draw(st.sampled_from(list(range(-nd, 0)) + ["none"] + list(range(nd))))
    return {"shape": shape, "a": draw(gen.arr(shape, kinds=("int", "normal", "dyadic"))), "b": draw(gen.arr(shape, kinds=("int", "normal", "dyadic"))),
            "axis": ax, "omit_axis": bool(ax == "none" and draw(st.booleans()))}


def _axis(case):
    return None if case["axis"] == "none" else int(case["axis"])


def _akw(case):
    return {} if case["omit_axis"] else {"axis": _axis(case)}


def _err_labels(case):
    return [f"order={len(case['shape'])}", f"axis={case['axis']}"]


def _err_nt(case):
    ax = _axis(case)
    n = gen.prod(case["shape"]) if ax is None else case["shape"][ax]
    return n >= 2


def o_mse(case):
    a, b = gen.dec(case["a"]), gen.dec(case["b"])
    ax = _axis(case)
    want = np.mean((a - b) ** 2, axis=ax)
    sc = max(float(np.max((a - b) ** 2)), 1e-300)
    close(MR.MSE(a.copy(), b.copy(), **_akw(case)), want, "MSE/definition", rel=1e-12, scale=sc)
    close(MR.RMSE(a.copy(), b.copy(), **_akw(case)), np.sqrt(want), "RMSE/definition", rel=1e-12, scale=np.sqrt(sc))
    return {"nontrivial": _err_nt(case), "labels": _err_labels(case)}


def o_r2(case):
    a, b = gen.dec(case["a"]), gen.dec(case["b"])
    den = float(np.sum(a ** 2))
    if den == 0:
        discard("zero original tensor (R2 undefined)")
    want = 1.0 - float(np.sum((b - a) ** 2)) / den
    got = MR.R2_score(a.copy(), b.copy())
    close(got, np.asarray(want), "R2/definition", rel=1e-12, scale=max(1.0, abs(want)))
    gp = MR.R2_score(a.copy(), a.copy())
    close(gp, np.asarray(1.0), "R2/perfect-is-1", rel=1e-12, scale=1.0)
    return {"nontrivial": gen.prod(case["shape"]) >= 2, "labels": [f"order={len(case['shape'])}"]}


# ---- conditioning-aware clauses (data on a large offset: |mean| >> std) -------------------------
# Pearson correlation / covariance / variance are shift invariant.  For data x = offset + noise the
# two-pass definition mean((x - mean x)(y - mean y)) loses ~ kappa * eps (kappa = |mean| / std) at
# worst, whereas the algebraically identical one-pass form E[xy] - E[x]E[y] loses ~ kappa^2 * eps.
# Measured on the unchanged code over 6000 random cases (offsets 0, 1e3 .. 1e7, every axis argument),
# against an extended-precision two-pass reference: worst error 1.5 * eps * (kappa_x + kappa_y + 1)
# (covariance 0.8, variance 1.3, std 1.1, correlation 1.5, shift invariance 0.3); the one-pass form
# gives >= 8e3 in the same unit as soon as one operand sits on an offset >= 1e3 (nan from offsets
# >= 1e6).  The clauses allow KAPPA_K = 64 such units.
EPS = float(np.finfo(np.float64).eps)
KAPPA_K = 64.0
_LD = np.longdouble


@st.composite
def _offset_case(draw, min_side=2):
    """error-metric case whose operands sit on drawn offsets (x = offset + O(1) data)"""
    c = draw(_err_case(min_side=min_side))
    # offsets are listed large-first: Hypothesis favours the first element of sampled_from
    offs = [1e7, 1e6, 1e5, 1e3, 0.0]
    c["off_a"] = draw(st.sampled_from(offs)) * draw(st.sampled_from([1, -1]))
    c["off_b"] = draw(st.sampled_from(offs)) * draw(st.sampled_from([1, -1]))
    return c


def _operands(case):
    return gen.dec(case["a"]) + case.get("off_a", 0.0), gen.dec(case["b"]) + case.get("off_b", 0.0)


def _f64(v):
    return np.asarray(v, dtype=np.float64)


def _two_pass(a, b, ax):
    """extended-precision two-pass moments: cov, var_a, var_b, |mean_a|, |mean_b| (float64, reduced shape)"""
    A, B = a.astype(_LD), b.astype(_LD)
    am, bm = A - A.mean(axis=ax, keepdims=True), B - B.mean(axis=ax, keepdims=True)
    n = a.size if ax is None else a.shape[ax]
    return (_f64((am * bm).sum(axis=ax) / n), _f64((am * am).sum(axis=ax) / n), _f64((bm * bm).sum(axis=ax) / n),
            _f64(np.abs(A.mean(axis=ax))), _f64(np.abs(B.mean(axis=ax))))


def _well_defined(a, b, va, vb):
    """slices that are (numerically) constant have no correlation: 0/0"""
    return bool(np.all(np.sqrt(va) > 1e3 * EPS * np.max(np.abs(a))) and np.all(np.sqrt(vb) > 1e3 * EPS * np.max(np.abs(b))))


def _within(got, want, tol, clause, what):
    g = as_array(got, clause)
    want, tol = np.asarray(want), np.asarray(tol)
    check(tuple(g.shape) == tuple(want.shape), clause + "/shape", lambda: f"shape {tuple(g.shape)} != expected {tuple(want.shape)}")
    check(bool(np.all(np.isfinite(g))), clause + "/finite", lambda: f"{what}: non-finite value(s) {np.asarray(g).ravel()[:4].tolist()}")
    err = np.abs(g - want)
    check(bool(np.all(err <= tol)), clause,
          lambda: f"{what}: max |got - expected| = {float(np.max(err)):.3e}, {float(np.max(err / np.maximum(tol, 1e-300))):.3g} x the tolerance "
                  f"{KAPPA_K:g} eps (kappa_x + kappa_y + 1) scale")


def _kappa_class(k):
    return "kappa=" + ("<1e2" if k < 1e2 else "1e2-1e4" if k < 1e4 else "1e4-1e6" if k < 1e6 else ">=1e6")


def _off_labels(case, ka, kb):
    return _err_labels(case) + [f"off_a={abs(case.get('off_a', 0.0)):g}", f"off_b={abs(case.get('off_b', 0.0)):g}",
                                _kappa_class(float(max(np.max(ka), np.max(kb))))]


def _what(case):
    return f"axis={case['axis']} offsets=({case.get('off_a', 0.0):g}, {case.get('off_b', 0.0):g})"


def o_correlation(case):
    a, b = _operands(case)
    ax = _axis(case)
    cov, va, vb, ma, mb = _two_pass(a, b, ax)
    if not _well_defined(a, b, va, vb):
        discard("constant slice (correlation undefined)")
    sa, sb = np.sqrt(va), np.sqrt(vb)
    ka, kb = ma / sa, mb / sb
    got = MR.correlation(a.copy(), b.copy(), **_akw(case))
    tol = KAPPA_K * EPS * (ka + kb + 1)
    _within(got, cov / (sa * sb), tol, "correlation/definition", _what(case))
    g = as_array(got, "correlation/definition")
    check(bool(np.all(np.abs(g) <= 1 + tol)), "correlation/range", lambda: f"|r| > 1: {np.asarray(g).ravel()[:4].tolist()}")
    return {"nontrivial": _err_nt(case), "labels": _off_labels(case, ka, kb)}


@st.composite
def _shift_case(draw):
    c = draw(_offset_case())
    sh = [1e7, 1e6, 1e5, 1e3, 0.0, -1e6]
    c["shift_a"] = draw(st.sampled_from(sh))
    c["shift_b"] = draw(st.sampled_from(sh))
    return c


def o_correlation_shift(case):
    """metamorphic: correlation(x + c, y + d) == correlation(x, y)"""
    a, b = _operands(case)
    ax = _axis(case)
    a2, b2 = a + case["shift_a"], b + case["shift_b"]
    _, va, vb, ma, mb = _two_pass(a, b, ax)
    _, va2, vb2, ma2, mb2 = _two_pass(a2, b2, ax)
    if not (_well_defined(a, b, va, vb) and _well_defined(a2, b2, va2, vb2)):
        discard("constant slice (correlation undefined)")
    k1 = ma / np.sqrt(va) + mb / np.sqrt(vb)
    k2a, k2b = ma2 / np.sqrt(va2), mb2 / np.sqrt(vb2)
    r1 = MR.correlation(a.copy(), b.copy(), **_akw(case))
    r2 = MR.correlation(a2.copy(), b2.copy(), **_akw(case))
    g1 = as_array(r1, "correlation/shift-invariance")
    check(bool(np.all(np.isfinite(g1))), "correlation/shift-invariance/finite", lambda: f"correlation(x, y) = {np.asarray(g1).ravel()[:4].tolist()}")
    # rounding x + c perturbs the noise by |c| eps / 2, i.e. the centred data by ~ kappa eps: same unit as above
    tol = KAPPA_K * EPS * (k1 + k2a + k2b + 1)
    _within(r2, g1, tol, "correlation/shift-invariance", _what(case) + f" shifts=({case['shift_a']:g}, {case['shift_b']:g})")
    return {"nontrivial": _err_nt(case) and (case["shift_a"] != 0 or case["shift_b"] != 0),
            "labels": _off_labels(case, k2a, k2b) + [f"shift_a={abs(case['shift_a']):g}", f"shift_b={abs(case['shift_b']):g}"]}


def o_moments(case):
    a, b = _operands(case)
    ax = _axis(case)
    cov, va, vb, ma, mb = _two_pass(a, b, ax)
    # scale of the quantities = the spreads, floored at the rounding level of the data so that constant slices stay testable
    fa, fb = EPS * np.max(np.abs(a)), EPS * np.max(np.abs(b))
    sa, sb = np.maximum(np.sqrt(va), fa), np.maximum(np.sqrt(vb), fb)
    sa, sb = np.maximum(sa, 1e-300), np.maximum(sb, 1e-300)
    ka, kb = ma / sa, mb / sb
    what = _what(case)
    _within(MR.covariance(a.copy(), b.copy(), **_akw(case)), cov, KAPPA_K * EPS * (ka + kb + 1) * sa * sb, "covariance/definition", what)
    tol_var = KAPPA_K * EPS * (2 * ka + 1) * sa * sa
    gv = MR.variance(a.copy(), **_akw(case))
    _within(gv, va, tol_var, "variance/definition", what)
    check(bool(np.all(as_array(gv, "variance/definition") >= 0)), "variance/nonneg", lambda: f"{what}: negative variance {np.asarray(gv).ravel()[:4].tolist()}")
    # d sqrt(v) = dv / (2 sqrt(v)) where the spread is resolved; (numerically) constant slices get the absolute bound sqrt(tol_var)
    tol_std = np.where(np.sqrt(va) > 1e3 * fa, tol_var / np.maximum(np.sqrt(va), 1e-300), np.sqrt(tol_var))
    _within(MR.standard_deviation(a.copy(), **_akw(case)), np.sqrt(va), tol_std, "standard_deviation/definition", what)
    return {"nontrivial": _err_nt(case), "labels": _off_labels(case, ka, kb)}


def o_reflective(case):
    a, b = gen.dec(case["a"]), gen.dec(case["b"])
    ax = _axis(case)
    saa, sbb, sab = np.sum(a * a, axis=ax), np.sum(b * b, axis=ax), np.sum(a * b, axis=ax)
    if np.any(saa == 0) or np.any(sbb == 0):
        discard("zero slice (reflective correlation undefined)")
    want = sab / np.sqrt(saa * sbb)
    got = MR.reflective_correlation_coefficient(a.copy(), b.copy(), **_akw(case))
    close(got, want, "reflective_correlation/definition", rel=1e-12, scale=1.0)
    return {"nontrivial": _err_nt(case), "labels": _err_labels(case)}


# ----------------------------------------------------------------------------
# leverage scores
# ----------------------------------------------------------------------------
def exact_rank(int_rows):
    """rank of an integer matrix by exact (Fraction) Gaussian elimination"""
    from fractions import Fraction
    m = [[Fraction(int(v)) for v in row] for row in int_rows]
    rank, rows, cols = 0, len(m), len(m[0]) if m else 0
    for c in range(cols):
        piv = next((r for r in range(rank, rows) if m[r][c] != 0), None)
        if piv is None:
            continue
        m[rank], m[piv] = m[piv], m[rank]
        for r in range(rank + 1, rows):
            if m[r][c] != 0:
                f = m[r][c] / m[rank][c]
                m[r] = [x - f * y for x, y in zip(m[r], m[rank])]
        rank += 1
    return rank


@st.composite
def _lev_case(draw):
    m, n = draw(st.integers(1, 6)), draw(st.integers(1, 6))
    kind = draw(st.sampled_from(["full", "lowrank", "int", "dupcols"]))
    c = {"m": m, "n": n, "kind": kind, "dtype": draw(st.sampled_from(["float64", "float64", "float32"])),
         "scale_log2": draw(st.sampled_from([0, 0, -10, 10]))}       # powers of two keep integer data exactly low-rank
    if kind == "lowrank":
        r = draw(st.integers(1, min(m, n)))
        c["L"] = draw(gen.arr([m, r], kinds=("int",)))
        c["Rt"] = draw(gen.arr([r, n], kinds=("int",)))
    elif kind == "full":
        c["A"] = draw(gen.arr([m, n], kinds=("normal",)))
    else:
        c["A"] = draw(gen.arr([m, n], kinds=("int",)))
    return c


def _lev_matrix(case):
    """(matrix in float64, exact rank or None when the data are not integers)"""
    if case["kind"] == "lowrank":
        a = gen.dec(case["L"]) @ gen.dec(case["Rt"])
    else:
        a = np.array(gen.dec(case["A"]), dtype=float)
        if case["kind"] == "dupcols" and a.shape[1] >= 2:
            a[:, -1] = a[:, 0]
    rank = None if case["kind"] == "full" else exact_rank(np.rint(a).astype(int).tolist())
    return a * (2.0 ** case["scale_log2"]), rank


def _o_leverage(part):
    def oracle(case):
        a64, rank = _lev_matrix(case)
        if not a64.any():
            discard("zero matrix (no column space)")
        a = a64.astype(case["dtype"])
        f32 = case["dtype"] == "float32"
        s = np.linalg.svd(a.astype(float), compute_uv=False)
        if rank is None:
            rank = min(a.shape)
        # the non-zero part of the spectrum must be well above the working precision for the numerical rank to be meaningful
        gap = 1e-3 if f32 else 1e-6
        if s[rank - 1] < gap * s[0]:
            discard("ill-conditioned: smallest non-zero singular value too close to the rank threshold")
        got = ML.leverage_score_dist(a.copy())
        g = assert_shape(got, (a.shape[0],), "leverage/shape")
        # float32 input: the docstring promises a float64 distribution that rng.choice accepts; NumPy's choice() rejects
        # |sum(p) - 1| > sqrt(eps_float64) = 1.49e-8, hence 1e-8 rather than a single-precision tolerance
        tol = 1e-8 if f32 else 1e-12
        deficient = rank < min(a.shape)
        if part == "distribution":
            check(g.dtype == np.float64, "leverage/dtype-float64", lambda: f"dtype {g.dtype}")
            check(bool(np.all(np.isfinite(g))) and bool(np.all(g >= 0)), "leverage/nonneg", lambda: f"{g.tolist()}")
            check(bool(np.all(g <= 1 + tol)), "leverage/le-1", lambda: f"{g.tolist()}")
            t = float(np.sum(g))
            check(abs(t - 1) <= tol, "leverage/sums-to-1", lambda: f"sum = {t!r} (rank {rank}, shape {a.shape}, {case['dtype']})")
        else:
            if f32 and deficient:
                # single-precision SVD noise sits close to the library's rank cut-off; the values are only asserted in double precision
                return {"nontrivial": False, "labels": ["skipped=float32-rank-deficient(definition asserted in float64 only)"]}
            a_ = a.astype(float)
            h = a_ @ np.linalg.pinv(a_, rcond=gap * 1e-2)
            want = np.diag(h) / rank
            close(g, want, "leverage/definition", rel=1e-4 if f32 else 1e-9, scale=1.0)
        return {"nontrivial": deficient or f32 or min(a.shape) >= 2,
                "labels": [f"dtype={case['dtype']}", f"kind={case['kind']}", f"deficient={deficient}", f"scale_log2={case['scale_log2']}"]}
    return oracle


# ----------------------------------------------------------------------------
def subchecks(tier):
    q, t = 800, 6000
    S = [
        SubCheck("congruence/optimal_value", _pair_case(), o_congruence_optimal, quick=q, thorough=t),
        SubCheck("congruence/permutation", _pair_case(), o_congruence_perm, quick=q, thorough=t),
        SubCheck("congruence/range", _pair_case(), o_congruence_range, quick=q, thorough=t),
        SubCheck("congruence/equivalent", _pair_case(relation=("equivalent",)), o_congruence_equivalent, quick=q, thorough=t),
        SubCheck("congruence/invariance", _meta_case(), o_congruence_invariance, quick=q, thorough=t),
        SubCheck("correlation_index/range", _ci_case(("independent", "noisy", "equivalent")), o_ci_range, quick=q, thorough=t),
        SubCheck("correlation_index/definition", _ci_case(("independent", "noisy")), o_ci_definition, quick=q, thorough=t),
        SubCheck("correlation_index/equivalent", _ci_case(("equivalent",)), o_ci_equivalent, quick=q, thorough=t),
        SubCheck("correlation_index/invariance", _ci_meta_case(), o_ci_invariance, quick=q, thorough=t),
        SubCheck("cp_permute_factors/optimal", _cpperm_case(), o_cp_permute, quick=q, thorough=t),
        SubCheck("MSE_RMSE/definition", _err_case(), o_mse, quick=q, thorough=t),
        SubCheck("R2/definition", _err_case(), o_r2, quick=q, thorough=t),
        SubCheck("correlation/definition", _offset_case(min_side=2), o_correlation, quick=q, thorough=t),
        SubCheck("correlation/shift_invariance", _shift_case(), o_correlation_shift, quick=q, thorough=t),
        SubCheck("reflective_correlation/definition", _err_case(), o_reflective, quick=q, thorough=t),
        SubCheck("moments/definition", _offset_case(min_side=1), o_moments, quick=q, thorough=t),
        SubCheck("leverage/distribution", _lev_case(), _o_leverage("distribution"), quick=q, thorough=t),
        SubCheck("leverage/definition", _lev_case(), _o_leverage("definition"), quick=q, thorough=t),
    ]
    return S
