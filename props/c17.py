"""C17 — backend selection behaves as a per-thread stack over a shared default.

History-based check: Hypothesis generates a whole operation sequence (which thread does
what, in which order = the schedule; the harness owns it, so every explored interleaving is
reproducible and shrinks as one value).  After every operation all threads are queried and
compared with a reference model that encodes only what the statement fixes; where the
statement is silent the model keeps a *set* of admissible observations.
"""
import queue
import threading
import numpy as np
from hypothesis import strategies as st

import tensorly as tl
import tensorly.backend as tlb
import tensorly.tenalg as tenalg
from tensorly.backend.numpy_backend import NumpyBackend
from tensorly.tenalg.base_tenalg import TenalgBackend

from vlib.engine import SubCheck, check, Fail, fail

PROPERTY = "C17"
RULE = ("A case is a history of 4-40 operations, each issued by one of 3 harness-owned worker threads (fresh threads per "
        "case; the generated order IS the interleaving): set_backend(name, local_threadsafe), backend_context enter / "
        "exit (normal or by exception, LIFO per thread, nested), rejected selections (unknown name, via set_backend and via "
        "backend_context), queries and dynamically dispatched calls/attributes. After every operation every thread reports "
        "get_backend(), the backend a dispatched function actually ran on and (computational manager) the dispatched "
        "backend_name attribute. Oracle: reference model of per-thread selections over a shared default; thread-local and "
        "rejected operations must leave every other thread's observation unchanged; exits restore the entering thread's "
        "previous backend. Both managers (tensorly.backend with two registered stand-in backends, tensorly.tenalg with core/"
        "einsum). Non-trivial: >= 2 threads act, >= 1 thread-local operation and >= 1 executed context exit; distinct = case hash.")
ASSUMPTIONS = ["CPython threading / queue semantics", "operation-level interleavings only: no preemption inside one manager call is explored",
               "stand-in computational backends are NumpyBackend subclasses registered under the names 'jax' and 'cupy' through the library's own subclass registry"]

N_THREADS = 3

# ----------------------------------------------------------------------------
# instrumentation installed through the library's own registration API
# ----------------------------------------------------------------------------
_installed = {}


def _install():
    if _installed:
        return
    # stand-in computational backends (the real jax/cupy packages are absent; a registered class is never imported)
    def make(name):
        class _StandIn(NumpyBackend, backend_name=name):
            @staticmethod
            def context(tensor):
                return {"dtype": tensor.dtype, "_ran_on": name}
        _StandIn.__name__ = f"StandIn_{name}"
        return _StandIn
    _installed["jax"] = make("jax")
    _installed["cupy"] = make("cupy")
    # tenalg: wrap one dispatched function per real backend so that it reports where it ran
    for name in ("core", "einsum"):
        tenalg.set_backend(name)  # make sure it is loaded (main thread only)
        cls = TenalgBackend._available_tenalg_backends[name]
        orig = cls.__dict__["outer"].__func__ if isinstance(cls.__dict__.get("outer"), staticmethod) else getattr(cls, "outer")

        def wrapper(tensors, _orig=orig, _name=name):
            res = _orig(tensors)
            _ran.value = _name
            return res
        cls.register_method("outer", wrapper)
    tenalg.set_backend("core")
    # load every backend of the computational manager once (from a throw-away thread), so that "known to the other
    # manager" is a meaningful class of rejected names for both managers
    def _load_all():
        for nm in ("jax", "cupy", "numpy"):
            tlb.set_backend(nm)
    _run_in_fresh_thread(_load_all)
    _installed["done"] = True


_ran = threading.local()


class _Mgr:
    """uniform view of the two managers"""

    def __init__(self, kind):
        self.kind = kind
        if kind == "backend":
            self.m = tlb
            self.names = ["numpy", "jax", "cupy"]
            self.base = "numpy"
            # names this manager must reject: unknown everywhere, or known only to the *other* manager
            self.bad = ["nope", "core", "einsum"]
        else:
            self.m = tenalg
            self.names = ["core", "einsum"]
            self.base = "core"
            self.bad = ["nope", "numpy", "jax"]

    def get(self):
        return self.m.get_backend()

    def dispatched(self):
        """name of the backend a dynamically dispatched function actually runs on"""
        if self.kind == "backend":
            ctx = self.m.context(np.zeros(1))
            return ctx.get("_ran_on", "numpy")
        _ran.value = None
        self.m.outer([np.ones(1), np.ones(1)])
        return _ran.value

    def attribute(self):
        if self.kind == "backend":
            return self.m.backend_name
        return None


class _Worker(threading.Thread):
    def __init__(self):
        super().__init__(daemon=True)
        self.q = queue.Queue()
        self.start()

    def run(self):
        while True:
            item = self.q.get()
            if item is None:
                return
            fn, box = item
            try:
                box.append(("ok", fn()))
            except BaseException as e:  # noqa
                box.append(("exc", e))
            finally:
                box.append("done")
                self._evt.set()

    def call(self, fn):
        box = []
        self._evt = threading.Event()
        self.q.put((fn, box))
        if not self._evt.wait(20):
            raise RuntimeError("worker thread did not answer")
        return box[0]

    def stop(self):
        self.q.put(None)


def _run_in_fresh_thread(fn):
    out = []
    th = threading.Thread(target=lambda: out.append(fn()))
    th.start()
    th.join(20)
    return out[0] if out else None


# ----------------------------------------------------------------------------
# reference model
# ----------------------------------------------------------------------------
class _Model:
    def __init__(self, base):
        self.default = {base}
        self.own = [None] * N_THREADS          # None | ("pin", name) | ("amb", name)
        self.stack = [[] for _ in range(N_THREADS)]

    def expected(self, t):
        o = self.own[t]
        if o is None:
            return set(self.default)
        if o[0] == "pin":
            return {o[1]}
        return {o[1]} | set(self.default)


def _interpret(kind, history):
    _install()
    mgr = _Mgr(kind)
    # reset the shared default from a throw-away thread (its thread-local slot dies with it)
    _run_in_fresh_thread(lambda: mgr.m.set_backend(mgr.base))
    workers = [_Worker() for _ in range(N_THREADS)]
    model = _Model(mgr.base)
    ctxs = [[] for _ in range(N_THREADS)]
    acted = set()
    n_local = n_exit = n_exc_exit = n_rejected = n_nested = 0
    try:
        def observe_all(step, what):
            obs = []
            for u, w in enumerate(workers):
                st_, val = w.call(lambda: (mgr.get(), mgr.dispatched(), mgr.attribute()))
                if st_ != "ok":
                    raise val
                name, ran, attr = val
                check(ran == name, "dispatch/function_runs_on_reported_backend",
                      lambda: f"step {step} ({what}): thread {u} get_backend()={name!r} but dispatched function ran on {ran!r}")
                if attr is not None:
                    check(attr == name, "dispatch/attribute_matches_reported_backend",
                          lambda: f"step {step} ({what}): thread {u} get_backend()={name!r} but dispatched attribute backend_name={attr!r}")
                obs.append(name)
            return obs

        prev = observe_all(-1, "initial")
        for u in range(N_THREADS):
            check(prev[u] == mgr.base, "initial/default", lambda: f"fresh thread {u} observes {prev[u]!r}, default is {mgr.base!r}")

        for step, op in enumerate(history):
            t = op["t"]
            k = op["op"]
            w = workers[t]
            what = f"{k} t={t} " + " ".join(f"{a}={op[a]}" for a in ("name", "local", "exc") if a in op)
            thread_local_op = False
            rejected = False
            global_change = None     # ("set", name) | ("exit", saved)
            if k == "set":
                name, local = mgr.names[op["name"] % len(mgr.names)], op["local"]
                r = w.call(lambda: mgr.m.set_backend(name, local_threadsafe=local))
                check(r[0] == "ok", "set/raised", lambda: f"step {step} ({what}): set_backend({name!r}) raised {r[1]!r}")
                model.own[t] = ("pin", name)
                if local:
                    thread_local_op = True
                    n_local += 1
                else:
                    model.default = {name}
                    global_change = ("set", name)
                acted.add(t)
            elif k == "enter":
                name, local = mgr.names[op["name"] % len(mgr.names)], op["local"]

                def do_enter():
                    cm = mgr.m.backend_context(name, local_threadsafe=local)
                    cm.__enter__()
                    return cm
                r = w.call(do_enter)
                check(r[0] == "ok", "enter/raised", lambda: f"step {step} ({what}): backend_context({name!r}).__enter__ raised {r[1]!r}")
                if ctxs[t]:
                    n_nested += 1
                ctxs[t].append(r[1])
                model.stack[t].append((prev[t], model.own[t], local))
                model.own[t] = ("pin", name)
                if local:
                    thread_local_op = True
                    n_local += 1
                else:
                    model.default = {name}
                    global_change = ("set", name)
                acted.add(t)
            elif k == "exit":
                if not ctxs[t]:
                    continue
                cm = ctxs[t].pop()
                saved, own_before, local = model.stack[t].pop()
                exc = op.get("exc", False)

                def do_exit():
                    if exc:
                        err = KeyError("injected")
                        return cm.__exit__(KeyError, err, None)
                    return cm.__exit__(None, None, None)
                r = w.call(do_exit)
                check(r[0] == "ok", "exit/raised", lambda: f"step {step} ({what}): backend_context.__exit__ raised {r[1]!r}")
                if exc:
                    check(not r[1], "exit/swallowed_exception", lambda: f"step {step}: __exit__ returned {r[1]!r} for an injected exception (would swallow it)")
                    n_exc_exit += 1
                n_exit += 1
                if own_before is not None and own_before[0] == "pin":
                    model.own[t] = ("pin", saved)
                else:
                    model.own[t] = ("amb", saved)
                if local:
                    thread_local_op = True
                    n_local += 1
                else:
                    model.default = set(model.default) | {saved}
                    global_change = ("exit", saved)
                acted.add(t)
            elif k == "set_bad":
                local = op["local"]
                bad = mgr.bad[op.get("bad", 0) % len(mgr.bad)]
                r = w.call(lambda: mgr.m.set_backend(bad, local_threadsafe=local))
                check(r[0] == "exc" and isinstance(r[1], ValueError), "rejected/set_must_raise_ValueError",
                      lambda: f"step {step} ({what}): set_backend({bad!r}) -> {r!r}")
                rejected = True
                n_rejected += 1
                acted.add(t)
            elif k == "enter_bad":
                local = op["local"]

                bad = mgr.bad[op.get("bad", 0) % len(mgr.bad)]

                def do_bad():
                    cm = mgr.m.backend_context(bad, local_threadsafe=local)
                    cm.__enter__()
                r = w.call(do_bad)
                check(r[0] == "exc" and isinstance(r[1], ValueError), "rejected/context_must_raise_ValueError",
                      lambda: f"step {step} ({what}): backend_context({bad!r}).__enter__ -> {r!r}")
                rejected = True
                n_rejected += 1
                acted.add(t)
            elif k == "query":
                pass
            else:
                raise ValueError(k)

            obs = observe_all(step, what)

            # (1) strict isolation clauses
            if rejected or k == "query":
                check(obs == prev, "rejected_or_query/changes_nothing",
                      lambda: f"step {step} ({what}): observations {prev} -> {obs}")
            if thread_local_op:
                for u in range(N_THREADS):
                    if u != t:
                        check(obs[u] == prev[u], "thread_local/other_thread_changed",
                              lambda: f"step {step} ({what}): thread {u} observed {prev[u]!r} before and {obs[u]!r} after a thread-local operation of thread {t}")
            # (2) model: every observation admissible
            for u in range(N_THREADS):
                exp = model.expected(u)
                clause = ("acting_thread/" + k) if u == t else "model/other_thread"
                check(obs[u] in exp, clause,
                      lambda: f"step {step} ({what}): thread {u} observes {obs[u]!r}, admissible {sorted(exp)}; before: {prev}")
            # (3) threads that explicitly selected (pinned) never change through another thread's operation
            for u in range(N_THREADS):
                if u != t and model.own[u] is not None and model.own[u][0] == "pin":
                    check(obs[u] == prev[u], "selected_thread/changed_by_other_thread",
                          lambda: f"step {step} ({what}): thread {u} had selected {prev[u]!r} but now observes {obs[u]!r}")
            # (4) never-selected threads share one default; refine the model from them
            never = [u for u in range(N_THREADS) if model.own[u] is None]
            if never:
                vals = {obs[u] for u in never}
                check(len(vals) == 1, "default/never_selected_threads_disagree",
                      lambda: f"step {step} ({what}): never-selected threads {never} observe {[obs[u] for u in never]}")
                model.default = set(vals)
            if global_change and global_change[0] == "set":
                for u in never:
                    check(obs[u] == global_change[1], "default/global_selection_not_visible",
                          lambda: f"step {step} ({what}): never-selected thread {u} observes {obs[u]!r} after a global selection of {global_change[1]!r}")
            prev = obs
    finally:
        for w in workers:
            w.stop()
        _run_in_fresh_thread(lambda: mgr.m.set_backend(mgr.base))
    nontrivial = len(acted) >= 2 and n_local >= 1 and n_exit >= 1
    return {"nontrivial": nontrivial,
            "labels": [f"threads_acting={len(acted)}", f"exits={min(n_exit, 3)}", f"exc_exits={min(n_exc_exit, 2)}",
                       f"nested={min(n_nested, 2)}", f"rejected={min(n_rejected, 2)}", f"local_ops={min(n_local, 3)}"]}


# ----------------------------------------------------------------------------
# strategies
# ----------------------------------------------------------------------------
_op = st.one_of(
    st.builds(lambda t, n, l: {"op": "set", "t": t, "name": n, "local": l}, st.integers(0, N_THREADS - 1), st.integers(0, 2), st.booleans()),
    st.builds(lambda t, n, l: {"op": "enter", "t": t, "name": n, "local": l}, st.integers(0, N_THREADS - 1), st.integers(0, 2), st.booleans()),
    st.builds(lambda t, n, l: {"op": "enter", "t": t, "name": n, "local": l}, st.integers(0, N_THREADS - 1), st.integers(0, 2), st.booleans()),
    st.builds(lambda t, e: {"op": "exit", "t": t, "exc": e}, st.integers(0, N_THREADS - 1), st.booleans()),
    st.builds(lambda t, e: {"op": "exit", "t": t, "exc": e}, st.integers(0, N_THREADS - 1), st.booleans()),
    st.builds(lambda t, l, b: {"op": "set_bad", "t": t, "local": l, "bad": b}, st.integers(0, N_THREADS - 1), st.booleans(), st.integers(0, 2)),
    st.builds(lambda t, l, b: {"op": "enter_bad", "t": t, "local": l, "bad": b}, st.integers(0, N_THREADS - 1), st.booleans(), st.integers(0, 2)),
    st.builds(lambda t: {"op": "query", "t": t}, st.integers(0, N_THREADS - 1)),
)


def _history(max_len):
    return st.builds(lambda h: {"history": h}, st.lists(_op, min_size=8, max_size=max_len))


def o_backend(case):
    return _interpret("backend", case["history"])


def o_tenalg(case):
    return _interpret("tenalg", case["history"])


def _only_local(h):
    # histories restricted to thread-local operations: every cross-thread observation must stay at the default
    out = []
    for op in h:
        op = dict(op)
        if "local" in op:
            op["local"] = True
        out.append(op)
    return {"history": out}


def subchecks(tier):
    n = 40 if tier == "thorough" else 25
    return [
        SubCheck("backend/mixed", _history(n), o_backend, quick=400, thorough=3000),
        SubCheck("backend/thread_local_only", st.builds(_only_local, st.lists(_op, min_size=8, max_size=n)), o_backend, quick=200, thorough=1500),
        SubCheck("tenalg/mixed", _history(n), o_tenalg, quick=400, thorough=3000),
        SubCheck("tenalg/thread_local_only", st.builds(_only_local, st.lists(_op, min_size=8, max_size=n)), o_tenalg, quick=200, thorough=1500),
        # free-running stress with a 1 us switch interval (thread-local operations only); run index i only makes cases distinct
        SubCheck("backend/stress", st.builds(lambda i: {"kind": "backend", "seconds": 0.4 if tier == "quick" else 3.0, "i": i}, st.integers(0, 10 ** 6)),
                 o_stress, quick=3, thorough=10, shards_thorough=2),
        SubCheck("tenalg/stress", st.builds(lambda i: {"kind": "tenalg", "seconds": 0.4 if tier == "quick" else 3.0, "i": i}, st.integers(0, 10 ** 6)),
                 o_stress, quick=3, thorough=10, shards_thorough=2),
    ]


# ----------------------------------------------------------------------------
# free-running stress (can only expose, never exclude, races inside one manager call)
# ----------------------------------------------------------------------------
def _stress(kind, seconds):
    import sys
    import time
    _install()
    mgr = _Mgr(kind)
    _run_in_fresh_thread(lambda: mgr.m.set_backend(mgr.base))
    errors = []
    counts = [0] * 4
    stop = threading.Event()
    names = mgr.names

    def selector(i):
        mine = names[i % len(names)]
        other = names[(i + 1) % len(names)]
        try:
            while not stop.is_set():
                mgr.m.set_backend(mine, local_threadsafe=True)
                if mgr.get() != mine or mgr.dispatched() != mine:
                    errors.append(f"thread {i}: selected {mine!r} thread-locally but observes {mgr.get()!r}")
                    return
                with mgr.m.backend_context(other, local_threadsafe=True):
                    if mgr.get() != other or mgr.dispatched() != other:
                        errors.append(f"thread {i}: inside local context {other!r} observes {mgr.get()!r}")
                        return
                try:
                    with mgr.m.backend_context(other, local_threadsafe=True):
                        raise KeyError("x")
                except KeyError:
                    pass
                if mgr.get() != mine:
                    errors.append(f"thread {i}: after local contexts observes {mgr.get()!r}, expected {mine!r}")
                    return
                try:
                    mgr.m.set_backend("nope", local_threadsafe=True)
                    errors.append(f"thread {i}: unknown backend accepted")
                    return
                except ValueError:
                    pass
                counts[i] += 1
        except BaseException as e:  # noqa
            errors.append(f"thread {i}: raised {e!r}")

    def watcher():
        try:
            while not stop.is_set():
                g = mgr.get()
                d = mgr.dispatched()
                if g != mgr.base or d != mgr.base:
                    errors.append(f"never-selecting thread observes {g!r}/{d!r} while only thread-local operations run (default {mgr.base!r})")
                    return
                counts[3] += 1
        except BaseException as e:  # noqa
            errors.append(f"watcher raised {e!r}")

    old = sys.getswitchinterval()
    sys.setswitchinterval(1e-6)
    ths = [threading.Thread(target=selector, args=(i,)) for i in range(3)] + [threading.Thread(target=watcher)]
    try:
        for th in ths:
            th.start()
        time.sleep(seconds)
        stop.set()
        for th in ths:
            th.join(20)
    finally:
        sys.setswitchinterval(old)
        _run_in_fresh_thread(lambda: mgr.m.set_backend(mgr.base))
    return sum(counts), errors


def o_stress(case):
    n, errs = _stress(case["kind"], case["seconds"])
    if errs:
        raise Fail("stress/" + case["kind"], errs[0])
    return {"nontrivial": n > 100, "labels": [f"rounds>={(n // 1000) * 1000}"]}
