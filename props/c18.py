"""C18 — results stay in the numeric context (dtype) of the input."""
import functools

from vlib import x_registry as X
from vlib.engine import SubCheck

PROPERTY = "C18"
RULE = ("One sub-check per array-returning entry point of the shared registry vlib/x_registry. Every array argument (data, "
        "masks, inits inside tuples / lists / wrapper objects, solver starts) is cast to the drawn dtype: float32 (half of the "
        "cases), float64, and complex128 where the path supports complex (tenalg, SVD front end, factorised conversions, parafac). "
        "Oracle: every ndarray of ndim >= 1 reachable from the result (factors, weights, cores, projections, reconstructions, "
        "solver outputs, fitted estimator attributes) has exactly the input dtype; for complex input, intrinsically real outputs "
        "named per entry (singular values, norms) may have the real dtype of matching width. Exempt: leverage_score_dist, integer "
        "/ boolean outputs, 0-d values and Python scalars (error lists). Non-trivial: input dtype != float64.")
ASSUMPTIONS = ["NumPy dtype promotion rules", "Hypothesis generates what its strategies describe"]


def subchecks(tier):
    out = []
    for e in X.load():
        if not e.c18:
            continue
        out.append(SubCheck(e.name, X.c18_case(e), functools.partial(X.c18_oracle, e), quick=e.quick, thorough=e.thorough,
                            budget_quick=45.0, case_timeout=30))
    return out
