"""C16 — seeded calls are reproducible and independent of the global NumPy RNG state.

History property.  A case is a *history*: a JSON list of 10-30 operations over a small pool of
(entry point, parameters) pairs and a small pool of seeds,

    ["call", p, s]       entry pool[p] with random_state = seeds[s]          (an int)
    ["pair", p, s]       the same entry twice with two fresh RandomState(seeds[s])
    ["unseeded", p]      the same entry with random_state=None (uses / advances the global RNG)
    ["reseed", v]        np.random.seed(v)
    ["burn", n]          np.random.random_sample(n)
    ["det", p]           a function without random choices (deterministic group only)
    ["ofit", p, s]       fit / fit_transform ONE persistent estimator or decomposition object that was built
                         with the int seed seeds[s] at its first use and is re-fitted at every later use

The oracle interprets the history against a reference model and checks the invariants after
EVERY step (this is the RuleBasedStateMachine of DESIGN, encoded as one shrinkable value):

  model.memo     (kind, entry, params, seed) -> frozen first result (vlib.snap.freeze; an
                 np.linalg.LinAlgError, or TT-cross' "did not converge" ValueError, counts as a result)
  model.shadow   a private RandomState mirroring what the global generator must be: re-seeded /
                 burnt in step with the explicit global operations, re-synchronised after an
                 unseeded call, untouched by everything else.

  rep/<entry>        a later call with the same key equals the memo bit for bit
  pair/<entry>       two identically seeded generators give bit-identical results (and end in the
                     same generator state)
  global/<entry>     np.random.get_state() equals the model's shadow state after every step, i.e.
                     it is unchanged by calls given an int seed or a private generator (and by
                     deterministic functions)

The oracle saves np.random's global state on entry and restores it on exit, so cases are
independent of each other and of the order in which Hypothesis runs them.
"""
import json
import warnings

import numpy as np
from hypothesis import strategies as st

import tensorly as tl
from tensorly import random as tlr
from tensorly import tenalg
from tensorly.decomposition import (
    parafac, randomised_parafac, non_negative_parafac, non_negative_parafac_hals, constrained_parafac,
    tucker, partial_tucker, non_negative_tucker, non_negative_tucker_hals, parafac2,
    tensor_ring_als, tensor_ring_als_sampled, tensor_train, tensor_ring, CP, Tucker,
    RandomizedCP, CP_NN, CP_NN_HALS, ConstrainedCP, Parafac2, TensorRingALS, TensorRingALSSampled,
)
from tensorly.decomposition._tucker import Tucker_NN, Tucker_NN_HALS
from tensorly.decomposition import sample_khatri_rao
from tensorly.contrib.decomposition import tensor_train_cross
from tensorly.tenalg.svd import svd_interface, randomized_range_finder, randomized_svd
from tensorly.regression import CPRegressor, TuckerRegressor, CP_PLSR

from vlib import gen, snap
from vlib.engine import SubCheck, check, fail, discard, Fail

PROPERTY = "C16"
RULE = ("Histories of 10-30 operations (seeded call / identically-seeded generator pair / unseeded call / re-fit of one "
        "persistent estimator or decomposition object built with an int seed / np.random.seed / burn n global draws / "
        "deterministic call) over a pool of 1-3 (entry, parameters) pairs and "
        "1-3 seeds in [0, 2^32-1]; entries grouped in sub-checks: random generators, CP family, constrained CP, Tucker "
        "family, PARAFAC2/TR-ALS/TR-ALS-sampled/TT-cross, randomized SVD + sampling, regressors, deterministic "
        "functions; tensors of order 2-3, sides 2-4, rank 1-3, 1-3 iterations; in the svd/sampling, Tucker, PARAFAC2/TR/TT and "
        "randomized-svd CP groups the data dtype (float64 / float32) is part of the key and pools contain same-shape twins. "
        " Oracle: reference model (memo of "
        "frozen first results + shadow of the global generator) checked after every step, bitwise comparison. "
        "Non-trivial history: some key is called at least twice with a different global RNG state at the two calls; "
        "distinct = distinct case hash.")
ASSUMPTIONS = ["np.random.RandomState(seed) streams are a pure function of the seed (NumPy)",
               "np.random.get_state()/set_state() capture the whole global legacy generator",
               "Hypothesis generates what its strategies describe"]

SEED_MAX = 2 ** 32 - 1
LINALG = np.linalg.LinAlgError


_DTYPE = ["float64"]          # data dtype of the entry being executed (params["dtype"], see _dtype_of)
DTYPE_GROUPS = ("svd_sampling", "tucker", "parafac2_tr_ttcross", "cp_family_randomized_svd")


class _dtype_of:
    """context: the data built by _x() gets the dtype recorded in the pool entry's parameters"""
    def __init__(self, params):
        self.dt = params.get("dtype", "float64")

    def __enter__(self):
        self.old = _DTYPE[0]
        _DTYPE[0] = self.dt

    def __exit__(self, *a):
        _DTYPE[0] = self.old


def _x(shape, seed, nonneg=False):
    a = np.random.RandomState(int(seed)).standard_normal(tuple(shape))
    a = np.abs(a) + 0.05 if nonneg else a
    return a.astype(_DTYPE[0])


# ----------------------------------------------------------------------------
# entry registry:  name -> (params strategy, run(params, random_state) -> result)
# ----------------------------------------------------------------------------
ENTRIES = {}


def entry(name, params):
    def deco(fn):
        ENTRIES[name] = (params, fn)
        return fn
    return deco


OBJECTS = {}     # name -> (make(params, random_state) -> estimator, fit(estimator, params) -> result)


def obj_entry(name, params, make, fit):
    """estimator / decomposition-class entry: usable as a plain entry (fresh object per call) and as a
    *persistent* object that the history fits repeatedly (op "ofit")"""
    OBJECTS[name] = (make, fit)
    ENTRIES[name] = (params, lambda p, rs: fit(make(p, rs), p))


def _ft(nonneg=False):
    return lambda est, p: est.fit_transform(_x(p["shape"], p["xseed"], nonneg))


def _mask(shape, mkind, mseed):
    """None / float 0-1 mask / boolean mask with ~80 % observed entries (private generator)"""
    if mkind == "none":
        return None
    m = np.random.RandomState(int(mseed) + 7).uniform(size=tuple(shape)) < 0.8
    return m if mkind == "bool" else m.astype(float)


_mk = st.sampled_from(["none", "float", "bool"])
_mk_on = st.sampled_from(["float", "bool"])
_shape23 = gen.shapes(2, 3, 2, 4)
_shape3 = gen.shapes(3, 3, 2, 4)


@st.composite
def _p_data(draw, shape_st=_shape23, rank_max=3, extra=None):
    p = {"shape": draw(shape_st), "xseed": draw(st.integers(0, 999)), "rank": draw(st.integers(1, rank_max)),
         "n_iter": draw(st.integers(1, 3))}
    for k, v in (extra or {}).items():
        p[k] = draw(v)
    return p


# ---- random generators -----------------------------------------------------
@entry("random_tensor", st.fixed_dictionaries({"shape": gen.shapes(1, 3, 1, 4)}))
def _e(p, rs):
    return tlr.random_tensor(tuple(p["shape"]), random_state=rs)


@entry("random_cp", st.fixed_dictionaries({"shape": gen.shapes(2, 4, 2, 4), "rank": st.integers(1, 3), "full": st.booleans(),
                                           "orthogonal": st.booleans(), "normalise": st.booleans()}))
def _e(p, rs):
    orth = p["orthogonal"] and p["rank"] <= min(p["shape"])
    return tlr.random_cp(tuple(p["shape"]), p["rank"], full=p["full"], orthogonal=orth, random_state=rs,
                         normalise_factors=p["normalise"])


@entry("random_tucker", st.fixed_dictionaries({"shape": gen.shapes(2, 3, 2, 4), "rank": st.integers(1, 2), "full": st.booleans(),
                                               "orthogonal": st.booleans(), "non_negative": st.booleans()}))
def _e(p, rs):
    return tlr.random_tucker(tuple(p["shape"]), p["rank"], full=p["full"], orthogonal=p["orthogonal"], random_state=rs,
                             non_negative=p["non_negative"])


@entry("random_tt", st.fixed_dictionaries({"shape": gen.shapes(2, 4, 2, 3), "r": st.integers(1, 3), "full": st.booleans()}))
def _e(p, rs):
    rank = [1] + [p["r"]] * (len(p["shape"]) - 1) + [1]
    return tlr.random_tt(tuple(p["shape"]), rank, full=p["full"], random_state=rs)


@entry("random_tt_matrix", st.fixed_dictionaries({"left": gen.shapes(2, 3, 2, 3), "rseed": st.integers(0, 99), "r": st.integers(1, 2),
                                                  "full": st.booleans()}))
def _e(p, rs):
    right = [int(v) for v in np.random.RandomState(p["rseed"]).randint(2, 4, size=len(p["left"]))]
    shape = tuple(p["left"]) + tuple(right)
    rank = [1] + [p["r"]] * (len(p["left"]) - 1) + [1]
    return tlr.random_tt_matrix(shape, rank, full=p["full"], random_state=rs)


@entry("random_tr", st.fixed_dictionaries({"shape": gen.shapes(2, 4, 2, 3), "r": st.integers(1, 3), "full": st.booleans()}))
def _e(p, rs):
    return tlr.random_tr(tuple(p["shape"]), p["r"], full=p["full"], random_state=rs)


@entry("random_parafac2", st.fixed_dictionaries({"rows": st.lists(st.integers(3, 5), min_size=2, max_size=4), "K": st.integers(2, 4),
                                                 "rank": st.integers(1, 3), "normalise": st.booleans()}))
def _e(p, rs):
    shapes = [(j, p["K"]) for j in p["rows"]]
    return tlr.random_parafac2(shapes, min(p["rank"], p["K"]), full=False, random_state=rs, normalise_factors=p["normalise"])


@entry("tl.randn", st.fixed_dictionaries({"shape": gen.shapes(1, 3, 1, 4)}))
def _e(p, rs):
    return tl.randn(tuple(p["shape"]), seed=rs)


@entry("tl.gamma", st.fixed_dictionaries({"k": st.integers(1, 5), "size": gen.shapes(1, 2, 1, 4)}))
def _e(p, rs):
    return tl.gamma(float(p["k"]), scale=0.5, size=tuple(p["size"]), seed=rs)


# ---- CP family -------------------------------------------------------------
@entry("parafac_random", _p_data(extra={"normalize": st.booleans(), "orth": st.booleans()}))
def _e(p, rs):
    return parafac(_x(p["shape"], p["xseed"]), p["rank"], n_iter_max=p["n_iter"], init="random", random_state=rs,
                   normalize_factors=p["normalize"], orthogonalise=p["orth"])


@entry("parafac_svd_padded", _p_data(shape_st=gen.shapes(3, 3, 2, 3), rank_max=2))
def _e(p, rs):
    # rank above the smallest side: the SVD initialisation is completed with random columns
    rank = min(p["shape"]) + p["rank"]
    return parafac(_x(p["shape"], p["xseed"]), rank, n_iter_max=p["n_iter"], init="svd", random_state=rs)


@entry("parafac_masked_random", _p_data())
def _e(p, rs):
    X = _x(p["shape"], p["xseed"])
    mask = (np.random.RandomState(p["xseed"] + 7).uniform(size=X.shape) < 0.8).astype(float)
    return parafac(X, p["rank"], n_iter_max=p["n_iter"], init="random", random_state=rs, mask=mask)


@entry("randomised_parafac", _p_data(shape_st=_shape3, extra={"n_samples": st.integers(4, 8)}))
def _e(p, rs):
    return randomised_parafac(_x(p["shape"], p["xseed"]), p["rank"], p["n_samples"], n_iter_max=p["n_iter"], init="random",
                              random_state=rs)


@entry("nn_parafac_random", _p_data())
def _e(p, rs):
    return non_negative_parafac(_x(p["shape"], p["xseed"], True), p["rank"], n_iter_max=p["n_iter"], init="random",
                                random_state=rs)


@entry("nn_parafac_hals_random", _p_data())
def _e(p, rs):
    return non_negative_parafac_hals(_x(p["shape"], p["xseed"], True), p["rank"], n_iter_max=p["n_iter"], init="random",
                                     random_state=rs)


obj_entry("CP.fit_transform", _p_data(),
          lambda p, rs: CP(p["rank"], n_iter_max=p["n_iter"], init="random", random_state=rs), _ft())
obj_entry("RandomizedCP.fit_transform", _p_data(shape_st=_shape3, extra={"n_samples": st.integers(4, 8)}),
          lambda p, rs: RandomizedCP(p["rank"], p["n_samples"], n_iter_max=p["n_iter"], init="random", random_state=rs, verbose=0),
          _ft())
obj_entry("CP_NN.fit_transform", _p_data(),
          lambda p, rs: CP_NN(p["rank"], n_iter_max=p["n_iter"], init="random", random_state=rs), _ft(True))
obj_entry("CP_NN_HALS.fit_transform", _p_data(),
          lambda p, rs: CP_NN_HALS(p["rank"], n_iter_max=p["n_iter"], init="random", random_state=rs), _ft(True))


# ---- constrained CP (D10 lives here) ---------------------------------------
_cons = st.sampled_from(["non_negative", "l2_square_reg", "l1_reg"])


def _ckw(name):
    return {name: True if name == "non_negative" else 0.1}


@entry("constrained_parafac_random", _p_data(extra={"cons": _cons}))
def _e(p, rs):
    return constrained_parafac(_x(p["shape"], p["xseed"], True), p["rank"], n_iter_max=p["n_iter"], n_iter_max_inner=3,
                               init="random", random_state=rs, **_ckw(p["cons"]))


@entry("constrained_parafac_svd_padded", _p_data(shape_st=gen.shapes(3, 3, 2, 3), rank_max=2, extra={"cons": _cons}))
def _e(p, rs):
    rank = min(p["shape"]) + p["rank"]
    return constrained_parafac(_x(p["shape"], p["xseed"], True), rank, n_iter_max=p["n_iter"], n_iter_max_inner=3,
                               init="svd", random_state=rs, **_ckw(p["cons"]))


obj_entry("ConstrainedCP.fit_transform", _p_data(extra={"cons": _cons}),
          lambda p, rs: ConstrainedCP(p["rank"], n_iter_max=p["n_iter"], n_iter_max_inner=3, init="random", random_state=rs,
                                      **_ckw(p["cons"])), _ft(True))


# ---- Tucker family ---------------------------------------------------------
@entry("tucker_random", _p_data(rank_max=2))
def _e(p, rs):
    return tucker(_x(p["shape"], p["xseed"]), [p["rank"]] * len(p["shape"]), n_iter_max=p["n_iter"], init="random", random_state=rs)


@entry("tucker_randomized_svd", _p_data(rank_max=2, extra={"mask": _mk}))
def _e(p, rs):
    return tucker(_x(p["shape"], p["xseed"]), [p["rank"]] * len(p["shape"]), n_iter_max=p["n_iter"], init="svd",
                  svd="randomized_svd", random_state=rs, mask=_mask(p["shape"], p["mask"], p["xseed"]))


@entry("partial_tucker_randomized_svd_masked", _p_data(shape_st=_shape3, rank_max=2, extra={"drop": st.integers(0, 2), "mask": _mk_on}))
def _e(p, rs):
    modes = [m for m in range(3) if m != p["drop"]]
    return partial_tucker(_x(p["shape"], p["xseed"]), [p["rank"]] * 2, modes=modes, n_iter_max=p["n_iter"], init="svd",
                          svd="randomized_svd", random_state=rs, mask=_mask(p["shape"], p["mask"], p["xseed"]))


@entry("nn_tucker_hals_randomized_svd", _p_data(rank_max=2))
def _e(p, rs):
    return non_negative_tucker_hals(_x(p["shape"], p["xseed"], True), [p["rank"]] * len(p["shape"]), n_iter_max=p["n_iter"],
                                    init="svd", svd="randomized_svd", random_state=rs)


@entry("partial_tucker_random", _p_data(shape_st=_shape3, rank_max=2, extra={"drop": st.integers(0, 2)}))
def _e(p, rs):
    modes = [m for m in range(3) if m != p["drop"]]
    return partial_tucker(_x(p["shape"], p["xseed"]), [p["rank"]] * 2, modes=modes, n_iter_max=p["n_iter"], init="random",
                          random_state=rs)


@entry("nn_tucker_random", _p_data(rank_max=2))
def _e(p, rs):
    return non_negative_tucker(_x(p["shape"], p["xseed"], True), [p["rank"]] * len(p["shape"]), n_iter_max=p["n_iter"],
                               init="random", random_state=rs)


@entry("nn_tucker_hals_random", _p_data(rank_max=2, extra={"alg": st.sampled_from(["fista", "active_set"])}))
def _e(p, rs):
    return non_negative_tucker_hals(_x(p["shape"], p["xseed"], True), [p["rank"]] * len(p["shape"]), n_iter_max=p["n_iter"],
                                    init="random", random_state=rs, algorithm=p["alg"])


def _tr(p):
    return [p["rank"]] * len(p["shape"])


obj_entry("Tucker.fit_transform", _p_data(rank_max=2),
          lambda p, rs: Tucker(_tr(p), n_iter_max=p["n_iter"], init="random", random_state=rs), _ft())
obj_entry("Tucker.fit_transform_randomized_svd_masked", _p_data(rank_max=2, extra={"mask": _mk_on}),
          lambda p, rs: Tucker(_tr(p), n_iter_max=p["n_iter"], init="svd", svd="randomized_svd", random_state=rs,
                               mask=_mask(p["shape"], p["mask"], p["xseed"])), _ft())
obj_entry("Tucker_NN.fit_transform", _p_data(rank_max=2),
          lambda p, rs: Tucker_NN(_tr(p), n_iter_max=p["n_iter"], init="random", random_state=rs), _ft(True))
obj_entry("Tucker_NN_HALS.fit_transform", _p_data(rank_max=2),
          lambda p, rs: Tucker_NN_HALS(_tr(p), n_iter_max=p["n_iter"], init="random", random_state=rs), _ft(True))


# ---- PARAFAC2 / tensor ring / TT-cross --------------------------------------
@entry("parafac2_random", _p_data(shape_st=_shape3, rank_max=2, extra={"nn": st.booleans()}))
def _e(p, rs):
    shape = list(p["shape"])
    rank = min(p["rank"], shape[1], shape[2])
    return parafac2(_x(shape, p["xseed"], p["nn"]), rank, n_iter_max=p["n_iter"], init="random", random_state=rs,
                    n_iter_parafac=2, nn_modes=[0] if p["nn"] else None)


@entry("tensor_ring_als", _p_data(shape_st=_shape3, rank_max=2, extra={"ls": st.sampled_from(["lstsq", "normal_eq"])}))
def _e(p, rs):
    return tensor_ring_als(_x(p["shape"], p["xseed"]), p["rank"], ls_solve=p["ls"], n_iter_max=p["n_iter"], random_state=rs)


@entry("tensor_ring_als_sampled", _p_data(shape_st=_shape3, rank_max=2, extra={"n_samples": st.integers(4, 8), "uniform": st.booleans(),
                                                                               "rerr": st.booleans()}))
def _e(p, rs):
    return tensor_ring_als_sampled(_x(p["shape"], p["xseed"]), p["rank"], p["n_samples"], n_iter_max=p["n_iter"],
                                   uniform_sampling=p["uniform"], randomized_error=p["rerr"], random_state=rs)


@entry("tensor_train_cross", _p_data(shape_st=gen.shapes(3, 3, 3, 4), rank_max=2))
def _e(p, rs):
    # data of exact TT rank r plus small noise, so that the cross approximation converges within the budget
    g = np.random.RandomState(p["xseed"])
    r = p["rank"]
    cores = [g.standard_normal((1 if i == 0 else r, s, 1 if i == 2 else r)) for i, s in enumerate(p["shape"])]
    X = np.einsum("aib,bjc,ckd->ijk", *cores) + 1e-3 * g.standard_normal(tuple(p["shape"]))
    return tensor_train_cross(X, [1, r, r, 1], tol=1e-4, n_iter_max=p["n_iter"] + 1, random_state=rs)


def _p2rank(p):
    return min(p["rank"], p["shape"][1], p["shape"][2])


obj_entry("Parafac2.fit_transform", _p_data(shape_st=_shape3, rank_max=2, extra={"ls": st.booleans()}),
          # return_errors=True: with the default (False) Parafac2.fit_transform cannot unpack parafac2's result (N7)
          lambda p, rs: Parafac2(_p2rank(p), n_iter_max=p["n_iter"], init="random", random_state=rs, n_iter_parafac=2,
                                 linesearch=p["ls"], return_errors=True), _ft())
obj_entry("TensorRingALS.fit_transform", _p_data(shape_st=_shape3, rank_max=2),
          lambda p, rs: TensorRingALS(p["rank"], n_iter_max=p["n_iter"], random_state=rs), _ft())
obj_entry("TensorRingALSSampled.fit_transform", _p_data(shape_st=_shape3, rank_max=2, extra={"n_samples": st.integers(4, 8)}),
          lambda p, rs: TensorRingALSSampled(p["rank"], p["n_samples"], n_iter_max=p["n_iter"], random_state=rs), _ft())


# ---- svd="randomized_svd" inside the CP family / PARAFAC2 (N6: the seed is not threaded to svd_interface) ----
@entry("parafac_randomized_svd", _p_data(rank_max=2, extra={"mask": _mk}))
def _e(p, rs):
    return parafac(_x(p["shape"], p["xseed"]), p["rank"], n_iter_max=p["n_iter"], init="svd", svd="randomized_svd",
                   random_state=rs, mask=_mask(p["shape"], p["mask"], p["xseed"]))


@entry("nn_parafac_randomized_svd", _p_data(rank_max=2, extra={"mask": _mk}))
def _e(p, rs):
    return non_negative_parafac(_x(p["shape"], p["xseed"], True), p["rank"], n_iter_max=p["n_iter"], init="svd",
                                svd="randomized_svd", random_state=rs, mask=_mask(p["shape"], p["mask"], p["xseed"]))


@entry("nn_parafac_hals_randomized_svd", _p_data(rank_max=2))
def _e(p, rs):
    return non_negative_parafac_hals(_x(p["shape"], p["xseed"], True), p["rank"], n_iter_max=p["n_iter"], init="svd",
                                     svd="randomized_svd", random_state=rs)


@entry("constrained_parafac_randomized_svd", _p_data(rank_max=2, extra={"cons": _cons}))
def _e(p, rs):
    return constrained_parafac(_x(p["shape"], p["xseed"], True), p["rank"], n_iter_max=p["n_iter"], n_iter_max_inner=3,
                               init="svd", svd="randomized_svd", random_state=rs, **_ckw(p["cons"]))


@entry("parafac2_randomized_svd", _p_data(shape_st=_shape3, rank_max=2, extra={"init": st.sampled_from(["random", "svd"])}))
def _e(p, rs):
    return parafac2(_x(p["shape"], p["xseed"]), _p2rank(p), n_iter_max=p["n_iter"], init=p["init"], svd="randomized_svd",
                    random_state=rs, n_iter_parafac=2)


# ---- randomized SVD, sampling ----------------------------------------------
_p_mat = st.fixed_dictionaries({"m": st.integers(2, 6), "n": st.integers(2, 6), "k": st.integers(1, 4), "xseed": st.integers(0, 999),
                                "n_iter": st.integers(0, 2)})


@entry("svd_interface_randomized", _p_mat)
def _e(p, rs):
    return svd_interface(_x([p["m"], p["n"]], p["xseed"]), method="randomized_svd", n_eigenvecs=min(p["k"], p["m"], p["n"]),
                         random_state=rs)


@entry("svd_interface_randomized_masked", st.fixed_dictionaries({"m": st.integers(2, 6), "n": st.integers(2, 6), "k": st.integers(1, 3),
                                                                 "xseed": st.integers(0, 999), "mask": _mk_on,
                                                                 "reps": st.integers(1, 3), "nn": st.booleans()}))
def _e(p, rs):
    shape = [p["m"], p["n"]]
    return svd_interface(_x(shape, p["xseed"], p["nn"]), method="randomized_svd", n_eigenvecs=min(p["k"], p["m"], p["n"]),
                         mask=_mask(shape, p["mask"], p["xseed"]), n_iter_mask_imputation=p["reps"],
                         non_negative=True if p["nn"] else None, random_state=rs)


@entry("randomized_svd", _p_mat)
def _e(p, rs):
    return randomized_svd(_x([p["m"], p["n"]], p["xseed"]), n_eigenvecs=min(p["k"], p["m"], p["n"]), n_oversamples=2,
                          n_iter=p["n_iter"], random_state=rs)


@entry("randomized_range_finder", _p_mat)
def _e(p, rs):
    return randomized_range_finder(_x([p["m"], p["n"]], p["xseed"]), n_dims=p["k"], n_iter=p["n_iter"], random_state=rs)


@entry("sample_khatri_rao", st.fixed_dictionaries({"rows": st.lists(st.integers(2, 4), min_size=2, max_size=4), "rank": st.integers(1, 3),
                                                   "n_samples": st.integers(1, 6), "skip": st.one_of(st.none(), st.integers(0, 1)),
                                                   "rows_out": st.booleans(), "xseed": st.integers(0, 999)}))
def _e(p, rs):
    g = np.random.RandomState(p["xseed"])
    mats = [g.standard_normal((r, p["rank"])) for r in p["rows"]]
    return sample_khatri_rao(mats, p["n_samples"], skip_matrix=p["skip"], return_sampled_rows=p["rows_out"], random_state=rs)


# ---- regressors -------------------------------------------------------------
_p_reg = st.fixed_dictionaries({"n": st.integers(4, 8), "shape": gen.shapes(2, 2, 2, 3), "rank": st.integers(1, 2),
                                "xseed": st.integers(0, 999), "n_iter": st.integers(1, 3), "ydim": st.sampled_from([0, 2, 3])})


def _reg_data(p, multi_output=False):
    g = np.random.RandomState(p["xseed"])
    X = g.standard_normal((p["n"],) + tuple(p["shape"]))
    # CPRegressor also accepts labels of shape (n_samples, O_1) and draws a weight factor for the output mode
    y = g.standard_normal((p["n"], p["ydim"])) if (multi_output and p["ydim"]) else g.standard_normal(p["n"])
    return X, y


def _fit_cpreg(est, p):
    X, y = _reg_data(p, multi_output=True)
    est.fit(X, y)
    return (est.weight_tensor_, est.cp_weight_, est.predict(X))


obj_entry("CPRegressor", _p_reg,
          lambda p, rs: CPRegressor(weight_rank=p["rank"], n_iter_max=p["n_iter"], random_state=rs, verbose=0), _fit_cpreg)


def _fit_tuckerreg(est, p):
    X, y = _reg_data(p)
    est.fit(X, y)
    return (est.weight_tensor_, est.tucker_weight_, est.predict(X))


obj_entry("TuckerRegressor", _p_reg,
          lambda p, rs: TuckerRegressor(weight_ranks=[p["rank"]] * len(p["shape"]), n_iter_max=p["n_iter"], random_state=rs,
                                        verbose=0), _fit_tuckerreg)


def _fit_plsr(est, p):
    g = np.random.RandomState(p["xseed"])
    X = g.standard_normal((p["n"],) + tuple(p["shape"]))
    Y = g.standard_normal((p["n"], 2))
    est.fit(X, Y)
    return (est.X_factors, est.Y_factors, est.coef_, est.predict(X))


obj_entry("CP_PLSR", _p_reg, lambda p, rs: CP_PLSR(n_components=p["rank"], n_iter_max=p["n_iter"] + 2, random_state=rs), _fit_plsr)


# ---- functions without random choices ---------------------------------------
def _det(name, params):
    def deco(fn):
        ENTRIES[name] = (params, lambda p, rs: fn(p))
        return fn
    return deco


@_det("det:parafac_svd", _p_data(rank_max=2))
def _d(p):
    return parafac(_x(p["shape"], p["xseed"]), min(p["rank"], min(p["shape"])), n_iter_max=p["n_iter"], init="svd")


@_det("det:nn_parafac_svd", _p_data(rank_max=2))
def _d(p):
    return non_negative_parafac(_x(p["shape"], p["xseed"], True), min(p["rank"], min(p["shape"])), n_iter_max=p["n_iter"], init="svd")


@_det("det:nn_parafac_hals_svd", _p_data(rank_max=2))
def _d(p):
    return non_negative_parafac_hals(_x(p["shape"], p["xseed"], True), min(p["rank"], min(p["shape"])), n_iter_max=p["n_iter"],
                                     init="svd")


@_det("det:tucker_svd", _p_data(rank_max=2))
def _d(p):
    return tucker(_x(p["shape"], p["xseed"]), [p["rank"]] * len(p["shape"]), n_iter_max=p["n_iter"], init="svd")


@_det("det:nn_tucker_hals_svd", _p_data(rank_max=2))
def _d(p):
    return non_negative_tucker_hals(_x(p["shape"], p["xseed"], True), [p["rank"]] * len(p["shape"]), n_iter_max=p["n_iter"],
                                    init="svd")


@_det("det:parafac2_svd", _p_data(shape_st=_shape3, rank_max=2))
def _d(p):
    shape = list(p["shape"])
    return parafac2(_x(shape, p["xseed"]), min(p["rank"], shape[1], shape[2]), n_iter_max=p["n_iter"], init="svd", n_iter_parafac=2)


@_det("det:tensor_train", _p_data(shape_st=_shape3, rank_max=2))
def _d(p):
    return tensor_train(_x(p["shape"], p["xseed"]), [1, p["rank"], p["rank"], 1])


@_det("det:tensor_ring", _p_data(shape_st=gen.shapes(3, 3, 3, 4), rank_max=1))
def _d(p):
    return tensor_ring(_x(p["shape"], p["xseed"]), [1, 2, 2, 1])


@_det("det:truncated_svd", _p_mat)
def _d(p):
    return svd_interface(_x([p["m"], p["n"]], p["xseed"]), method="truncated_svd", n_eigenvecs=min(p["k"], p["m"], p["n"]))


@_det("det:symeig_svd", _p_mat)
def _d(p):
    return svd_interface(_x([p["m"], p["n"]], p["xseed"]), method="symeig_svd", n_eigenvecs=min(p["k"], p["m"], p["n"]))


@_det("det:tenalg", st.fixed_dictionaries({"shape": _shape3, "rank": st.integers(1, 3), "xseed": st.integers(0, 999),
                                           "backend": st.sampled_from(["core", "einsum"])}))
def _d(p):
    from vlib.util import tenalg_backend
    g = np.random.RandomState(p["xseed"])
    X = g.standard_normal(tuple(p["shape"]))
    mats = [g.standard_normal((s, p["rank"])) for s in p["shape"]]
    with tenalg_backend(p["backend"]):
        return (tenalg.khatri_rao(mats), tenalg.multi_mode_dot(X, mats, transpose=True), tenalg.kronecker(mats[:2]),
                tenalg.unfolding_dot_khatri_rao(X, (None, mats), 1), tenalg.inner(X, X))


GROUPS = {
    "generators": ["random_tensor", "random_cp", "random_tucker", "random_tt", "random_tt_matrix", "random_tr", "random_parafac2",
                   "tl.randn", "tl.gamma"],
    "cp": ["parafac_random", "parafac_svd_padded", "parafac_masked_random", "randomised_parafac", "nn_parafac_random",
           "nn_parafac_hals_random", "CP.fit_transform", "RandomizedCP.fit_transform", "CP_NN.fit_transform",
           "CP_NN_HALS.fit_transform"],
    "cp_family_randomized_svd": ["parafac_randomized_svd", "nn_parafac_randomized_svd", "nn_parafac_hals_randomized_svd",
                                 "constrained_parafac_randomized_svd", "parafac2_randomized_svd"],
    "constrained_cp_random": ["constrained_parafac_random", "ConstrainedCP.fit_transform"],
    "constrained_cp_svd": ["constrained_parafac_svd_padded"],
    "tucker": ["tucker_random", "tucker_randomized_svd", "partial_tucker_randomized_svd_masked", "nn_tucker_hals_randomized_svd",
               "partial_tucker_random", "nn_tucker_random", "nn_tucker_hals_random",
               "Tucker.fit_transform", "Tucker.fit_transform_randomized_svd_masked", "Tucker_NN.fit_transform",
               "Tucker_NN_HALS.fit_transform"],
    "parafac2_tr_ttcross": ["parafac2_random", "tensor_ring_als", "tensor_ring_als_sampled", "tensor_train_cross",
                            "Parafac2.fit_transform", "TensorRingALS.fit_transform", "TensorRingALSSampled.fit_transform"],
    "svd_sampling": ["svd_interface_randomized", "svd_interface_randomized_masked", "randomized_svd", "randomized_range_finder",
                     "sample_khatri_rao"],
    "regressors": ["CPRegressor", "TuckerRegressor", "CP_PLSR"],
    "deterministic": [n for n in ENTRIES if n.startswith("det:")],
}


# ----------------------------------------------------------------------------
# history strategy
# ----------------------------------------------------------------------------
@st.composite
def _history(draw, group):
    names = GROUPS[group]
    det = group == "deterministic"
    pool = []
    for _ in range(draw(st.integers(1, 3))):
        name = draw(st.sampled_from(names))
        params = draw(ENTRIES[name][0])
        if group in DTYPE_GROUPS:
            # the data dtype is part of the key; a *twin* (same entry, same shapes, other dtype) lets a history
            # interleave float32 and float64 calls that share a seed (seeded change C16-r3m2)
            params = dict(params, dtype=draw(st.sampled_from(["float64", "float32"])))
            pool.append({"entry": name, "params": params})
            if len(pool) < 4 and draw(st.integers(0, 2)) > 0:
                pool.append({"entry": name, "params": dict(params, dtype="float32" if params["dtype"] == "float64" else "float64")})
        else:
            pool.append({"entry": name, "params": params})
    seeds = draw(st.lists(st.one_of(st.integers(0, 20), st.integers(0, SEED_MAX), st.just(SEED_MAX)), min_size=1, max_size=3))
    pi = st.integers(0, len(pool) - 1)
    si = st.integers(0, len(seeds) - 1)
    glob = [st.tuples(st.just("reseed"), st.integers(0, SEED_MAX)), st.tuples(st.just("burn"), st.integers(1, 40))]
    if det:
        ops = [st.tuples(st.just("det"), pi), st.tuples(st.just("det"), pi)] + glob
    else:
        ops = [st.tuples(st.just("call"), pi, si), st.tuples(st.just("call"), pi, si), st.tuples(st.just("pair"), pi, si),
               st.tuples(st.just("unseeded"), pi)] + glob
        if any(pe["entry"] in OBJECTS for pe in pool):
            ops += [st.tuples(st.just("ofit"), pi, si)] * 2
    hist = draw(st.lists(st.one_of(*ops), min_size=10, max_size=30))
    return {"g0": draw(st.integers(0, SEED_MAX)), "pool": pool, "seeds": seeds, "ops": [list(o) for o in hist]}


# ----------------------------------------------------------------------------
# oracle = interpreter of the history against the reference model
# ----------------------------------------------------------------------------
def _gstate():
    s = np.random.get_state()
    return (s[0], s[1].tobytes(), int(s[2]), int(s[3]), float(s[4]))


def _rstate(rs):
    s = rs.get_state()
    return (s[0], s[1].tobytes(), int(s[2]), int(s[3]), float(s[4]))


def _call(name, params, rs):
    """frozen result; a LinAlgError raised by the library counts as a result"""
    try:
        with warnings.catch_warnings(), _dtype_of(params):
            warnings.simplefilter("ignore")
            res = ENTRIES[name][1](params, rs)
    except LINALG:
        return ("exc", "LinAlgError")
    except ValueError as e:
        if name == "tensor_train_cross" and "did not converge" in str(e):
            return ("exc", "ValueError:did not converge")       # documented outcome of a too small budget
        raise
    return snap.freeze(res)


def _call_fit(name, est, params):
    try:
        with warnings.catch_warnings(), _dtype_of(params):
            warnings.simplefilter("ignore")
            res = OBJECTS[name][1](est, params)
    except LINALG:
        return ("exc", "LinAlgError")
    return snap.freeze(res)


def o_history(case):
    saved = np.random.get_state()
    try:
        return _interpret(case)
    finally:
        np.random.set_state(saved)


def _interpret(case):
    pool, seeds = case["pool"], case["seeds"]
    np.random.seed(int(case["g0"]))
    shadow = np.random.RandomState(int(case["g0"]))          # model of the global generator
    memo = {}          # key -> (frozen result, global state at first call)
    objects = {}       # (pool index, seed index) -> persistent estimator built once with the int seed
    n_objfits = {}
    perturbed_repeat = False
    n_exc = 0
    kinds = set()
    for step, op in enumerate(case["ops"]):
        kind = op[0]
        kinds.add(kind)
        where = f"step {step} {op}"
        if kind == "reseed":
            np.random.seed(int(op[1]))
            shadow.seed(int(op[1]))
        elif kind == "burn":
            np.random.random_sample(int(op[1]))
            shadow.random_sample(int(op[1]))
        else:
            pe = pool[op[1]]
            name, params = pe["entry"], pe["params"]
            pkey = json.dumps(params, sort_keys=True)
            g_before = _gstate()
            if kind == "call":
                seed = int(seeds[op[2]])
                res = _call(name, params, seed)
                key = ("int", name, pkey, seed)
            elif kind == "ofit":
                # persistent object: ONE estimator constructed with an int seed, fitted again and again; every fit
                # must give the result of a fresh int-seeded call (same memo key as "call")
                seed = int(seeds[op[2]])
                if name in OBJECTS:
                    okey = (op[1], op[2])
                    if okey not in objects:
                        with warnings.catch_warnings(), _dtype_of(params):
                            warnings.simplefilter("ignore")
                            objects[okey] = OBJECTS[name][0](params, seed)
                        n_objfits[okey] = 0
                    n_objfits[okey] += 1
                    res = _call_fit(name, objects[okey], params)
                else:
                    res = _call(name, params, seed)
                key = ("int", name, pkey, seed)
            elif kind == "pair":
                seed = int(seeds[op[2]])
                r1, r2 = np.random.RandomState(seed), np.random.RandomState(seed)
                res = _call(name, params, r1)
                res2 = _call(name, params, r2)
                check(res == res2, f"pair/{name}",
                      lambda: f"{where}: two RandomState({seed}) generators gave different results: {snap.diff(res, res2, 'result')}")
                check(_rstate(r1) == _rstate(r2), f"pair-state/{name}",
                      lambda: f"{where}: identically seeded generators end in different states")
                key = ("gen", name, pkey, seed)
            elif kind == "unseeded":
                res = _call(name, params, None)
                shadow.set_state(np.random.get_state())          # the only call allowed to move the global generator
                key = None
            elif kind == "det":
                res = _call(name, params, None)
                key = ("det", name, pkey, None)
            else:
                raise ValueError(kind)
            if res[0] == "exc":
                n_exc += 1
            if key is not None:
                if key in memo:
                    first, g_first = memo[key]
                    check(res == first, f"rep/{name}",
                          lambda: f"{where}: result differs from the first call with the same key: {snap.diff(first, res, 'result')}")
                    if g_first != g_before:
                        perturbed_repeat = True
                else:
                    memo[key] = (res, g_before)
            if kind != "unseeded":
                check(_gstate() == g_before, f"global/{name}",
                      lambda: f"{where}: the call changed the global NumPy RNG state")
        # model invariant after every step
        check(_gstate() == _rstate(shadow), "global/model", lambda: f"{where}: global RNG state differs from the reference model")
    n_calls = sum(1 for o in case["ops"] if o[0] in ("call", "pair", "unseeded", "det", "ofit"))
    if n_calls and n_exc == n_calls:
        discard("every call raised (LinAlgError / TT-cross did not converge)")
    labels = [f"steps={10 * (len(case['ops']) // 10)}+", f"perturbed_repeat={perturbed_repeat}", f"linalg_results={min(n_exc, 3)}"]
    labels += [f"entry={pe['entry']}" for pe in {json.dumps(x, sort_keys=True): x for x in pool}.values()]
    labels += [f"op={k}" for k in sorted(kinds)]
    labels.append(f"dtypes={'+'.join(sorted({pe['params'].get('dtype', 'float64') for pe in pool}))}")
    labels.append(f"object_refits={min(3, max([v - 1 for v in n_objfits.values()] or [0]))}")
    return {"nontrivial": perturbed_repeat, "labels": labels}


def subchecks(tier):
    cost = {"generators": (250, 3000), "cp": (150, 1500), "cp_family_randomized_svd": (80, 800), "constrained_cp_random": (100, 1000), "constrained_cp_svd": (80, 800),
            "tucker": (150, 1500), "parafac2_tr_ttcross": (120, 1200), "svd_sampling": (200, 2200), "regressors": (160, 1600),
            "deterministic": (150, 1500)}
    return [SubCheck(f"history/{g}", _history(g), o_history, quick=cost[g][0], thorough=cost[g][1], case_timeout=120)
            for g in GROUPS]
