"""C13 — NNLS solvers return KKT-optimal non-negative solutions; ADMM without
constraints returns the least-squares solution.

Problem solved by the solvers (from their docstrings / update rules), per column m of M:

    min_{x >= floor}  1/2 ||m - U x||^2 + l_s * sum(x) + l_r * ||x||^2

so the gradient is g = UtU x - UtM + l_s + 2 l_r x and the KKT conditions are
x >= floor, g = 0 where x > floor, g >= 0 where x = floor.  These are evaluated with
plain NumPy on the data handed to the solver; the objective is additionally compared
with SciPy's Lawson-Hanson nnls on the equivalent augmented least-squares problem.
"""
import numpy as np
import scipy.optimize
from hypothesis import strategies as st

from tensorly.solvers.nnls import hals_nnls, fista, active_set_nnls
from tensorly.solvers.admm import admm

from vlib import gen
from vlib.engine import SubCheck, check, Fail, discard
from vlib.cmp import assert_shape, finite, close

PROPERTY = "C13"
RULE = ("Problems are built from a Hypothesis-drawn seed: r=1-8 unknowns, n=1-5 right-hand sides (vector for "
        "active_set), m=r..r+5 rows, U = Q1 diag(s) Q2^T with s in [1,kappa] (both extremes present), kappa in "
        "{1,1.5,5,10,20,30}, signed or entrywise |.|, or a small-integer design/right-hand side (exact ties and zero "
        "gradients); discarded and counted when the recomputed cond(U) > 30; "
        "M = U(x*+d) + noise with x* >= 0 having a drawn fraction of zeros and d <= 0 pulling those entries negative "
        "so constraints are active; cold start and warm starts (positive / sparse / zero / exact solution / truth); "
        "sparsity and ridge coefficients k/16 in (0,1], in 1/3 of the ridge cases a ridge of 0.25 / 1 / 4 times "
        "lambda_max(UtU) (strong relative to the spectrum). Solvers run to convergence (hals 3000-6000 sweeps tol=1e-24, "
        "fista 5000-12000 iterations tol=0, active_set 500); a case failing its clause is re-run once with 4x the "
        "iterations before being reported (slow convergence is not a violation, a wrong fixed point is). Oracle: KKT "
        "certificate at 1e-7*(1+max|UtM|), objective within 1e-8 relative of scipy.optimize.nnls on the augmented "
        "problem, solution within the strong-convexity bound; ADMM(n_const=None) against numpy.linalg.solve. "
        "resolve_same_arrays: cold solve then warm re-solve on the very same array objects, both certified against "
        "pristine copies. "
        "Non-trivial: the reference solution has >= 1 active and >= 1 inactive constraint (ADMM: r >= 2); distinct = "
        "distinct case hash.")
ASSUMPTIONS = ["NumPy linalg (svd, qr, solve, lstsq) is correct",
               "scipy.optimize.nnls returns the NNLS minimiser (its own KKT residual is re-checked at 1e-8)",
               "Hypothesis generates what its strategies describe"]

KKT_REL = 1e-7
OBJ_REL = 1e-8
COND_MAX = 30.0


# ----------------------------------------------------------------------------
# problem construction
# ----------------------------------------------------------------------------
def _orth(rs, n, r):
    q, rr = np.linalg.qr(rs.standard_normal((n, r)))
    d = np.sign(np.diag(rr))
    d[d == 0] = 1.0
    return q * d


def _spectrum(rs, r, kappa):
    s = np.exp(rs.uniform(0.0, np.log(kappa), r)) if kappa > 1 else np.ones(r)
    if r >= 2:
        s[0] = kappa
        s[1] = 1.0
    return s[rs.permutation(r)]


def _design(rs, m, r, kappa, design):
    U = _orth(rs, m, r) @ np.diag(_spectrum(rs, r, kappa)) @ _orth(rs, r, r).T
    if design == "abs":
        U = np.abs(U)
    return U


def build(case):
    """-> U (m,r), M (m,n), cond(U)"""
    if case.get("explicit"):
        U = gen.dec(case["explicit"]["U"])
        M = gen.dec(case["explicit"]["M"])
    else:
        r, n, m = case["r"], case["n"], case["m"]
        rs = np.random.RandomState(case["seed"])
        if case["design"] == "int":
            # small-integer data: exact ties, exactly-zero gradients, rounding-sensitive pivots
            U = rs.randint(-3, 4, size=(m, r)).astype(float)
            xs = rs.randint(1, 4, size=(r, n)) * (rs.uniform(size=(r, n)) >= case["p0"]).astype(float)
            d = -np.ceil(case["pull"]) * rs.randint(0, 3, size=(r, n)) * (xs == 0)
            M = U @ (xs + d) + (case["noise"] > 0) * rs.randint(-2, 3, size=(m, n))
            if np.linalg.matrix_rank(U) < r:
                discard("cond(U)>30")
        else:
            U = _design(rs, m, r, float(case["kappa"]), case["design"])
            xs = np.abs(rs.standard_normal((r, n))) * (rs.uniform(size=(r, n)) >= case["p0"])
            d = -case["pull"] * np.abs(rs.standard_normal((r, n))) * (xs == 0)
            M = U @ (xs + d) + case["noise"] * rs.standard_normal((m, n))
    sv = np.linalg.svd(U, compute_uv=False)
    if sv[-1] <= 0 or sv[0] / sv[-1] > COND_MAX * (1 + 1e-9):
        discard("cond(U)>30")
    return U, M, float(sv[0] / sv[-1])


@st.composite
def _problem(draw, vector=False):
    r = draw(st.sampled_from([1, 2, 3, 4, 5, 6, 7, 8]))
    return {"r": r, "n": 1 if vector else draw(st.integers(1, 5)), "m": r + draw(st.integers(0, 5)),
            "seed": draw(gen.seeds), "kappa": draw(st.sampled_from([1.0, 1.5, 5.0, 10.0, 20.0, 30.0])),
            "design": draw(st.sampled_from(["signed", "signed", "abs", "int"])),
            "p0": draw(st.sampled_from([0.0, 0.3, 0.5, 0.5, 0.7, 1.0])),
            "pull": draw(st.sampled_from([0.0, 0.5, 1.0, 2.0])),
            "noise": draw(st.sampled_from([0.0, 0.01, 0.3]))}


_coef = st.integers(1, 16).map(lambda k: k / 16.0)


def _pen(draw, variant, seed):
    """(sparsity, ridge, ridge_rel).  ridge_rel = c means 'ridge = c * lambda_max(UtU)' (a ridge that is strong relative to
    the spectrum; resolved in the oracle by _with_rd).  The penalty kind of the 'pen' variant and the strong-ridge class are
    functions of the drawn problem seed: Hypothesis' boolean draws cover such small option spaces very unevenly
    (seed-independence pass: 'pen' was ridge-only in 83 % of the cases)."""
    sp = rd = rel = None
    if variant == "pen":
        variant = ["l1", "ridge", "l1ridge"][seed % 3]
    if variant in ("l1", "l1ridge"):
        sp = draw(_coef)
    if variant in ("ridge", "l1ridge"):
        rd = draw(_coef)
        if (seed // 3) % 3 == 0:
            rel = [0.25, 1.0, 4.0][(seed // 9) % 3]
    if variant == "plain" and draw(st.integers(0, 3)) == 0:
        sp = 0.0   # an explicit zero coefficient is the same problem
    return sp, rd, rel


def _with_rd(case, G):
    """resolve a spectrum-relative ridge coefficient into the number handed to the solver"""
    if case.get("rd_rel") is None or case.get("rd") is None:
        return case
    return dict(case, rd=float(case["rd_rel"]) * float(np.linalg.eigvalsh(G)[-1]))


def _warm(kind, case, r, n, xref, floor=0.0):
    """a feasible starting point, deterministic in the case"""
    rs = np.random.RandomState((case.get("seed", 0) + 7919) % (2 ** 32))
    if kind == "pos":
        v = np.abs(rs.standard_normal((r, n))) + 0.05
    elif kind == "sparse":
        v = np.abs(rs.standard_normal((r, n))) * (rs.uniform(size=(r, n)) < 0.5)
    elif kind == "zeros":
        v = np.zeros((r, n))
    elif kind == "solution":
        v = xref.copy()
    elif kind == "big":
        v = 50.0 * (np.abs(rs.standard_normal((r, n))) + 0.05)
    else:
        raise ValueError(kind)
    return np.maximum(v, floor)


# ----------------------------------------------------------------------------
# independent reference + certificates
# ----------------------------------------------------------------------------
def objective(x, G, B, sp, rd):
    """1/2||M-Ux||^2 + sp*sum(x) + rd*||x||^2 minus the constant 1/2||M||^2"""
    return float(0.5 * np.sum(x * (G @ x)) - np.sum(B * x) + sp * np.sum(x) + rd * np.sum(x * x))


def ref_nnls(U, M, sp, rd):
    """scipy Lawson-Hanson on the augmented problem whose normal equations are
    (UtU + 2 rd I) x = UtM - sp  (per column)"""
    m, r = U.shape
    n = M.shape[1]
    if rd > 0:
        A = np.vstack([U, np.sqrt(2 * rd) * np.eye(r)])
        tail = np.full((r, n), -sp / np.sqrt(2 * rd))
        Bm = np.vstack([M, tail])
    else:
        A = U
        # m' with U^T m' = U^T m - sp * 1
        shift = np.linalg.lstsq(U.T, np.ones(r), rcond=None)[0]
        Bm = M - sp * shift[:, None]
    X = np.zeros((r, n))
    for j in range(n):
        try:
            X[:, j] = scipy.optimize.nnls(A, Bm[:, j], maxiter=50 * r + 50)[0]
        except RuntimeError:
            discard("reference nnls did not converge")
    # the reference is itself certified (trusted base is then only the certificate arithmetic)
    G = U.T @ U
    g = G @ X - U.T @ M + sp + 2 * rd * X
    sc = 1.0 + float(np.max(np.abs(U.T @ M)))
    ok = (X >= 0).all() and (np.abs(g[X > 0]) <= 1e-8 * sc).all() and (g[X <= 0] >= -1e-8 * sc).all()
    if not ok:
        discard("reference nnls failed its own KKT certificate")
    return X, g


def kkt(x, G, B, sp, rd, lo, floor, name):
    """x >= lo everywhere; |g| small where x > floor; g >= -small where x <= floor"""
    x = finite(assert_shape(x, B.shape, name + "/shape"), name + "/finite")
    check(bool((x >= lo).all()), name + "/feasible", lambda: f"min entry {x.min():.3e} < {lo:g}")
    g = G @ x - B + sp + 2 * rd * x
    tol = KKT_REL * (1.0 + float(np.max(np.abs(B))))
    ina = x > floor
    if ina.any():
        w = float(np.max(np.abs(g[ina])))
        check(w <= tol, name + "/stationary", lambda: f"max |gradient| on inactive entries {w:.3e} > {tol:.3e}")
    if (~ina).any():
        w = float(np.min(g[~ina]))
        check(w >= -tol, name + "/dual", lambda: f"min gradient on active entries {w:.3e} < -{tol:.3e}")
    return x


def vs_ref(x, xref, U, G, B, M, sp, rd, name, extra_obj=0.0):
    x = finite(assert_shape(x, B.shape, name + "/shape"), name + "/finite")
    check(bool((x >= 0).all()), name + "/feasible", lambda: f"min entry {x.min():.3e} < 0")
    f, fr = objective(x, G, B, sp, rd), objective(xref, G, B, sp, rd)
    scale = 1.0 + 0.5 * float(np.sum(M * M)) + abs(fr)
    check(abs(f - fr) <= OBJ_REL * scale + extra_obj, name + "/objective",
          lambda: f"objective {f:.12e} vs reference {fr:.12e} (diff {f - fr:.3e} > {OBJ_REL * scale + extra_obj:.3e})")
    mu = float(np.linalg.eigvalsh(G)[0]) + 2 * rd
    tolx = 1e-6 * (1.0 + float(np.max(np.abs(B)))) * np.sqrt(x.shape[0]) / mu + 1e-6
    close(x, xref, name + "/solution", rel=1.0, scale=tolx)


def _labels(case, cond, xref, gref, extra=()):
    na = int(np.sum(xref <= 0))
    tot = xref.size
    lab = [f"r={xref.shape[0]}", f"n={xref.shape[1]}",
           "n_active=" + ("0" if na == 0 else "all" if na == tot else "some"),
           "cond=" + ("<=2" if cond <= 2 else "<=10" if cond <= 10 else "<=30"),
           f"design={case.get('design', 'explicit')}"] + list(extra)
    return {"nontrivial": 0 < na < tot, "labels": lab}


def _with_retry(run, its, verify):
    """run(its) -> x ; verify(x) raises Fail.  A failing first attempt is repeated once with
    4x the iterations: slow convergence is not a violation, a wrong limit point is."""
    try:
        verify(run(its))
        return []
    except Fail:
        pass
    verify(run(4 * its))
    return ["retry=4x"]


# ----------------------------------------------------------------------------
# HALS
# ----------------------------------------------------------------------------
def _hals_case(variant, init, zero_init=False, eps=False):
    @st.composite
    def s(draw):
        c = draw(_problem())
        if zero_init:
            c["zero_init"] = True
        c["sp"], c["rd"], c["rd_rel"] = _pen(draw, variant, c["seed"])
        c["warm"] = None if init == "cold" else draw(st.sampled_from(["pos", "sparse", "zeros", "solution", "big"]))
        if init == "any":
            c["warm"] = draw(st.sampled_from([None, "pos", "sparse"]))
        c["eps"] = draw(st.sampled_from([1e-6, 1e-3, 0.0625])) if eps else None
        return c
    return s()


def _hals_setup(case):
    U, M, cond = build(case)
    if case.get("zero_init") and not case.get("explicit"):
        # class of D22: the unconstrained least-squares solution is <= 0 everywhere, so the default
        # initialisation clip(solve(UtU, UtM), 0) is the zero matrix
        rs = np.random.RandomState(case["seed"] + 1)
        M = U @ (-np.abs(rs.standard_normal((U.shape[1], M.shape[1]))) * (rs.choice([0.0, 1.0, 1.0], size=(U.shape[1], 1)) if rs.uniform() < 0.25 else 1.0))
    G, B = U.T @ U, U.T @ M
    sp = 0.0 if case["sp"] is None else case["sp"]
    rd = 0.0 if case["rd"] is None else case["rd"]
    return U, M, cond, G, B, sp, rd


def _hals_run(case, G, B, xref, its):
    kw = {}
    if case["sp"] is not None:
        kw["sparsity_coefficient"] = case["sp"]
    if case["rd"] is not None:
        kw["ridge_coefficient"] = case["rd"]
    if case.get("eps") is not None:
        kw["epsilon"] = case["eps"]
    if case["warm"] is not None:
        kw["V"] = _warm(case["warm"], case, B.shape[0], B.shape[1], xref, floor=case.get("eps") or 0.0)
    return hals_nnls(B.copy(), G.copy(), n_iter_max=its, tol=1e-24, **kw)


def o_hals(group):
    def oracle(case):
        U, M, cond, G, B, sp, rd = _hals_setup(case)
        case = _with_rd(case, G)
        rd = 0.0 if case["rd"] is None else case["rd"]
        xref, gref = ref_nnls(U, M, sp, rd)
        its = 600 if cond <= 5 else 1500 if cond <= 10 else 3000 if cond <= 20 else 6000
        eps = case.get("eps") or 0.0
        if group == "kkt":
            ver = lambda x: kkt(x, G, B, sp, rd, eps, eps * (1 + 1e-12), "hals")
        else:
            ver = lambda x: vs_ref(x, xref, U, G, B, M, sp, rd, "hals")
        extra = _with_retry(lambda n: _hals_run(case, G, B, xref, n), its, ver)
        if case.get("zero_init"):
            extra.append("zero_default_init=" + str(bool((np.clip(np.linalg.solve(G, B), 0, None) == 0).all())))
        return _labels(case, cond, xref, gref, extra + [f"warm={case['warm']}", f"pen={'l1' if sp else ''}{'ridge' if rd else ''}", f"ridge_rel={case.get('rd_rel')}"])
    return oracle


# ----------------------------------------------------------------------------
# FISTA
# ----------------------------------------------------------------------------
def _fista_case(variant, init):
    @st.composite
    def s(draw):
        c = draw(_problem())
        c["sp"], c["rd"], c["rd_rel"] = _pen(draw, variant, c["seed"])
        c["warm"] = None if init == "cold" else draw(st.sampled_from(["pos", "sparse", "zeros", "solution", "big"]))
        c["eps"] = draw(st.sampled_from([None, None, 0.0]))       # None = default 1e-8
        c["lr"] = draw(st.sampled_from(["default", "default", "given"]))
        c["vec"] = bool(c["n"] == 1 and draw(st.booleans()))     # 1-D right-hand side
        return c
    return s()


def _fista_run(case, G, B, xref, its):
    kw = {}
    if case["sp"] is not None:
        kw["sparsity_coef"] = case["sp"]
    if case["rd"] is not None:
        kw["ridge_coef"] = case["rd"]
    if case["eps"] is not None:
        kw["epsilon"] = case["eps"]
    if case["lr"] == "given":
        kw["lr"] = 1.0 / (float(np.linalg.eigvalsh(G)[-1]) + 2 * (case["rd"] or 0.0))
    b = B.copy()
    x0 = None
    if case["warm"] is not None:
        x0 = _warm(case["warm"], case, B.shape[0], B.shape[1], xref)
    if case["vec"]:
        b = b[:, 0]
        x0 = None if x0 is None else x0[:, 0]
    if x0 is not None:
        kw["x"] = x0
    x = fista(b, G.copy(), n_iter_max=its, tol=0, **kw)
    if case["vec"]:
        x = assert_shape(x, (B.shape[0],), "fista/shape").reshape(-1, 1)
    return x


def o_fista(group):
    def oracle(case):
        U, M, cond = build(case)
        G, B = U.T @ U, U.T @ M
        case = _with_rd(case, G)
        sp = 0.0 if case["sp"] is None else case["sp"]
        rd = 0.0 if case["rd"] is None else case["rd"]
        xref, gref = ref_nnls(U, M, sp, rd)
        its = 1500 if cond <= 5 else 5000 if cond <= 10 else 12000
        eps = 1e-8 if case["eps"] is None else case["eps"]
        if group == "kkt":
            ver = lambda x: kkt(x, G, B, sp, rd, 0.0, 2 * eps, "fista")
        else:
            # entries held at epsilon instead of 0 move the objective by at most eps * sum |g_ref| (+ second order)
            slack = 2 * eps * float(np.sum(np.abs(gref))) + 2 * eps * eps * float(np.sum(np.abs(G))) * B.shape[1]
            ver = lambda x: vs_ref(x, xref, U, G, B, M, sp, rd, "fista", extra_obj=slack)
        extra = _with_retry(lambda n: _fista_run(case, G, B, xref, n), its, ver)
        return _labels(case, cond, xref, gref, extra + [f"warm={case['warm']}", f"eps={case['eps']}", f"lr={case['lr']}",
                                                       f"vec={case['vec']}", f"pen={'l1' if sp else ''}{'ridge' if rd else ''}", f"ridge_rel={case.get('rd_rel')}"])
    return oracle


@st.composite
def _fista_kron_case(draw):
    """UtU given as a list of Gram matrices acting on the modes of a matrix-shaped unknown
    (the form used by non_negative_tucker_hals for its core)"""
    c = {"r1": draw(st.sampled_from([1, 2, 2, 3, 3])), "r2": draw(st.sampled_from([1, 2, 3, 3])), "seed": draw(gen.seeds),
         "k1": draw(st.sampled_from([1.0, 2.0, 5.0])), "k2": draw(st.sampled_from([1.0, 2.0, 5.0])),
         "d1": draw(st.sampled_from(["signed", "abs"])), "d2": draw(st.sampled_from(["signed", "abs"])),
         "p0": draw(st.sampled_from([0.0, 0.3, 0.5, 0.7])), "pull": draw(st.sampled_from([0.0, 0.5, 2.0])),
         "noise": draw(st.sampled_from([0.0, 0.01, 0.3])),
         "warm": draw(st.sampled_from([None, "pos", "sparse"]))}
    c["m1"] = c["r1"] + draw(st.integers(0, 3))
    c["m2"] = c["r2"] + draw(st.integers(0, 3))
    c["sp"], c["rd"], c["rd_rel"] = _pen(draw, ["plain", "pen"][(c["seed"] // 27) % 2], c["seed"])
    return c


def o_fista_kron(case):
    rs = np.random.RandomState(case["seed"])
    U1 = _design(rs, case["m1"], case["r1"], case["k1"], case["d1"])
    U2 = _design(rs, case["m2"], case["r2"], case["k2"], case["d2"])
    r1, r2 = case["r1"], case["r2"]
    xs = np.abs(rs.standard_normal((r1, r2))) * (rs.uniform(size=(r1, r2)) >= case["p0"])
    d = -case["pull"] * np.abs(rs.standard_normal((r1, r2))) * (xs == 0)
    M = U1 @ (xs + d) @ U2.T + case["noise"] * rs.standard_normal((case["m1"], case["m2"]))
    # vectorised (row-major) form: vec(U1 X U2^T) = (U1 kron U2) vec(X)
    UK = np.einsum(U1, [0, 1], U2, [2, 3], [0, 2, 1, 3]).reshape(case["m1"] * case["m2"], r1 * r2)
    sv = np.linalg.svd(UK, compute_uv=False)
    cond = float(sv[0] / sv[-1])
    if cond > COND_MAX:
        discard("cond(U)>30")
    G1, G2 = U1.T @ U1, U2.T @ U2
    B = U1.T @ M @ U2
    case = _with_rd(case, UK.T @ UK)
    sp = 0.0 if case["sp"] is None else case["sp"]
    rd = 0.0 if case["rd"] is None else case["rd"]
    xref, gref = ref_nnls(UK, M.reshape(-1, 1), sp, rd)
    lr = 1.0 / (float(np.linalg.eigvalsh(G1)[-1]) * float(np.linalg.eigvalsh(G2)[-1]) + 2 * rd)
    kw = {}
    if case["sp"] is not None:
        kw["sparsity_coef"] = case["sp"]
    if case["rd"] is not None:
        kw["ridge_coef"] = case["rd"]
    if case["warm"] is not None:
        kw["x"] = _warm(case["warm"], case, r1, r2, None)
    GK = UK.T @ UK

    def run(n):
        x = fista(B.copy(), [G1.copy(), G2.copy()], n_iter_max=n, tol=0, lr=lr, **kw)
        return assert_shape(x, (r1, r2), "fista_kron/shape").reshape(-1, 1)

    def ver(x):
        kkt(x, GK, B.reshape(-1, 1), sp, rd, 0.0, 2e-8, "fista_kron")
        slack = 2e-8 * float(np.sum(np.abs(gref))) + 1e-15 * float(np.sum(np.abs(GK)))
        vs_ref(x, xref, UK, GK, B.reshape(-1, 1), M.reshape(-1, 1), sp, rd, "fista_kron", extra_obj=slack)

    extra = _with_retry(run, 5000 if cond <= 10 else 12000, ver)
    return _labels({"design": case["d1"] + "x" + case["d2"]}, cond, xref, gref, extra + [f"warm={case['warm']}"])


# ----------------------------------------------------------------------------
# active set (vector right-hand side, no penalties offered)
# ----------------------------------------------------------------------------
def _as_case(init):
    @st.composite
    def s(draw):
        c = draw(_problem(vector=True))
        c["warm"] = None if init == "cold" else draw(st.sampled_from(["pos", "sparse", "solution", "big"]))
        c["tol"] = draw(st.sampled_from([None, None, 1e-12]))     # None = default 1e-7
        c["xshape"] = draw(st.sampled_from(["vec", "col"]))       # warm start given as (r,) or (r,1)
        return c
    return s()


def o_as(group):
    def oracle(case):
        U, M, cond = build(case)
        G, B = U.T @ U, U.T @ M
        xref, gref = ref_nnls(U, M, 0.0, 0.0)
        r = B.shape[0]
        kw = {}
        if case["tol"] is not None:
            kw["tol"] = case["tol"]
        if case["warm"] is not None:
            x0 = gen.dec(case["x0"]).reshape(r, 1) if case.get("x0") else _warm(case["warm"], case, r, 1, xref)
            if not (x0 > 0).any():
                x0 = None          # an all-zero start is the cold start
            else:
                kw["x"] = x0[:, 0] if case["xshape"] == "vec" else x0
        x = active_set_nnls(B[:, 0].copy(), G.copy(), n_iter_max=500, **kw)
        x = assert_shape(x, (r,), "active_set/shape").reshape(-1, 1)
        if group == "kkt":
            kkt(x, G, B, 0.0, 0.0, 0.0, 0.0, "active_set")
        else:
            # the documented stopping rule leaves gradients up to tol on active entries
            t = 1e-7 if case["tol"] is None else case["tol"]
            vs_ref(x, xref, U, G, B, M, 0.0, 0.0, "active_set", extra_obj=t * float(np.sum(np.abs(xref))))
        return _labels(case, cond, xref, gref, [f"warm={case['warm']}", f"tol={case['tol']}"])
    return oracle


# ----------------------------------------------------------------------------
# ADMM without constraints
# ----------------------------------------------------------------------------
@st.composite
def _admm_case(draw):
    c = draw(_problem())
    c["x0"] = draw(st.sampled_from(["zeros", "normal", "pos"]))
    c["dual"] = draw(st.sampled_from(["zeros", "normal"]))
    c["iters"] = draw(st.sampled_from([None, 1, 3, 20]))
    return c


def o_admm(case):
    U, M, cond = build(case)
    G = U.T @ U
    r, n = U.shape[1], M.shape[1]
    MtU = M.T @ U                       # the library's "UtM" for a factor of shape (n, r)
    rs = np.random.RandomState(case["seed"] + 3)
    x0 = {"zeros": np.zeros((n, r)), "normal": rs.standard_normal((n, r)), "pos": np.abs(rs.standard_normal((n, r)))}[case["x0"]]
    dual = np.zeros((n, r)) if case["dual"] == "zeros" else rs.standard_normal((n, r))
    kw = {} if case["iters"] is None else {"n_iter_max": case["iters"]}
    out = admm(MtU.copy(), G.copy(), x0.copy(), dual.copy(), n_const=None, **kw)
    check(isinstance(out, tuple) and len(out) == 3, "admm/arity", "admm must return (x, x_split, dual_var)")
    x = finite(assert_shape(out[0], (n, r), "admm/shape"), "admm/finite")
    want = np.linalg.solve(G, U.T @ M).T
    close(x, want, "admm/lstsq", rel=1e-9, scale=max(1.0, float(np.max(np.abs(want)))))
    res = x @ G - MtU
    close(res, np.zeros_like(res), "admm/normal-equations", rel=1e-9, scale=1.0 + float(np.max(np.abs(MtU))))
    lsq = np.linalg.lstsq(U, M, rcond=None)[0].T
    close(x, lsq, "admm/lstsq-qr", rel=1e-7, scale=max(1.0, float(np.max(np.abs(lsq)))))
    return {"nontrivial": r >= 2, "labels": [f"r={r}", f"n={n}", f"x0={case['x0']}", f"dual={case['dual']}", f"iters={case['iters']}",
                                            "cond=" + ("<=2" if cond <= 2 else "<=10" if cond <= 10 else "<=30")]}


# ----------------------------------------------------------------------------
# re-solve on the SAME array objects (what an outer alternating loop does): cold solve, then a warm
# re-start from the returned solution with the very same UtM / UtU objects; certificates from pristine copies
# ----------------------------------------------------------------------------
def o_resolve(solver):
    def oracle(case):
        U, M, cond = build(case)
        G, B = U.T @ U, U.T @ M
        case = _with_rd(case, G)
        sp = 0.0 if case.get("sp") is None else case["sp"]
        rd = 0.0 if case.get("rd") is None else case["rd"]
        xref, gref = ref_nnls(U, M, sp, rd)
        Gs, Bs = G.copy(), B.copy()            # shared by both calls, never used by the oracle
        if solver == "hals":
            its = 600 if cond <= 5 else 1500 if cond <= 10 else 3000 if cond <= 20 else 6000
            kw = {}
            if case["sp"] is not None:
                kw["sparsity_coefficient"] = case["sp"]
            if case["rd"] is not None:
                kw["ridge_coefficient"] = case["rd"]
            run = lambda v, n: hals_nnls(Bs, Gs, V=v, n_iter_max=n, tol=1e-24, **kw)
            floor = 0.0
        elif solver == "fista":
            its = 1500 if cond <= 5 else 5000 if cond <= 10 else 12000
            kw = {}
            if case["sp"] is not None:
                kw["sparsity_coef"] = case["sp"]
            if case["rd"] is not None:
                kw["ridge_coef"] = case["rd"]
            run = lambda v, n: fista(Bs, Gs, x=v, n_iter_max=n, tol=0, **kw)
            floor = 2e-8
        else:
            its = 500
            bs = Bs[:, 0]
            run = lambda v, n: active_set_nnls(bs, Gs, x=v, n_iter_max=n).reshape(-1, 1)
            floor = 0.0
        x1 = run(None, its)
        kkt(np.array(x1), G, B, sp, rd, 0.0, floor, solver + "/first-call")
        start = np.array(x1, dtype=float)
        if solver == "active_set":
            start = start[:, 0] if (start > 0).any() else None
        x2 = run(start, its)
        kkt(np.array(x2), G, B, sp, rd, 0.0, floor, solver + "/re-solve-same-arrays")
        return _labels(case, cond, xref, gref, [f"pen={'l1' if sp else ''}{'ridge' if rd else ''}"])
    return oracle


@st.composite
def _resolve_case(draw, vector=False):
    c = draw(_problem(vector=vector))
    c["kappa"] = min(c["kappa"], 10.0)          # two solves per case: keep them short
    c["sp"], c["rd"], c["rd_rel"] = (None, None, None) if vector else _pen(draw, "pen", c["seed"])
    return c


# ----------------------------------------------------------------------------
def subchecks(tier):
    subs = []
    variants = [("cold", "plain"), ("cold", "l1"), ("cold", "ridge"), ("cold", "l1ridge"), ("warm", "plain"), ("warm", "pen")]
    for init, var in variants:
        for grp in ("kkt", "ref"):
            subs.append(SubCheck(f"hals/{init}/{var}/{grp}", _hals_case(var, init), o_hals(grp), quick=25, thorough=150,
                                 budget_quick=75))
            subs.append(SubCheck(f"fista/{init}/{var}/{grp}", _fista_case(var, init), o_fista(grp), quick=30, thorough=150,
                                 budget_quick=75))
    subs.append(SubCheck("hals/epsilon/kkt", _hals_case("pen", "any", eps=True), o_hals("kkt"), quick=30, thorough=150, budget_quick=75))
    subs.append(SubCheck("hals/cold_zero_init/kkt", _hals_case("plain", "cold", zero_init=True), o_hals("kkt"), quick=30, thorough=150, budget_quick=75))
    subs.append(SubCheck("hals/cold_zero_init/ref", _hals_case("pen", "cold", zero_init=True), o_hals("ref"), quick=30, thorough=150, budget_quick=75))
    subs.append(SubCheck("fista/kron_list/kkt_ref", _fista_kron_case(), o_fista_kron, quick=60, thorough=400, budget_quick=75))
    for init in ("cold", "warm"):
        for grp in ("kkt", "ref"):
            subs.append(SubCheck(f"active_set/{init}/{grp}", _as_case(init), o_as(grp), quick=400, thorough=4000))
    subs.append(SubCheck("hals/resolve_same_arrays/kkt", _resolve_case(), o_resolve("hals"), quick=25, thorough=150, budget_quick=75))
    subs.append(SubCheck("fista/resolve_same_arrays/kkt", _resolve_case(), o_resolve("fista"), quick=25, thorough=150, budget_quick=75))
    subs.append(SubCheck("active_set/resolve_same_arrays/kkt", _resolve_case(vector=True), o_resolve("active_set"), quick=200, thorough=2000))
    subs.append(SubCheck("admm/unconstrained/lstsq", _admm_case(), o_admm, quick=400, thorough=4000))
    return subs
