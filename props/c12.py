"""C12 — proximal operators return the exact minimiser of their prox problem."""
import itertools
import numpy as np
from hypothesis import strategies as st
from scipy.optimize import nnls as scipy_nnls

import tensorly as tl
from tensorly.tenalg import proximal as P

from vlib import gen, ref
from vlib.engine import SubCheck, check, Fail, fail, discard
from vlib.cmp import close, as_array, finite

PROPERTY = "C12"
RULE = ("Hypothesis draws vectors (1-8) and matrices (1-7 x 1-3) from classes signed / all-negative / all-positive / "
        "small integers with ties and zeros / points inside or outside the constraint set, scaled by 1e-3, 1 or 1e3, and "
        "parameters 0.01-10 (k = 1..n). Each operator (called directly and through proximal_operator) is checked against an "
        "independent optimality certificate (closed form, PAVA, bisection simplex projection, NNLS-reformulated unimodal fit "
        "per peak, brute force over supports), feasibility, idempotence, firm non-expansiveness (convex operators) and "
        "objective <= objective(competitor) for generated feasible competitors. Non-trivial: the input is infeasible for the "
        "constraint (the operator has to move it) or, for identity clauses, strictly feasible; distinct = distinct case hash.")
ASSUMPTIONS = ["NumPy arithmetic/linalg", "scipy.optimize.nnls solves small NNLS problems exactly (used for the unimodal reference)",
               "Hypothesis generates what its strategies describe"]

SCALES = [1e-3, 1.0, 1e3]


# ----------------------------------------------------------------------------
# generators
# ----------------------------------------------------------------------------
@st.composite
def _values(draw, n, kinds=("int", "dyadic", "allneg", "allpos", "seed")):
    kind = draw(st.sampled_from(list(kinds)))
    if kind == "int":
        return kind, [float(v) for v in draw(st.lists(st.integers(-4, 4), min_size=n, max_size=n))]
    if kind == "dyadic":
        return kind, [v / 8 for v in draw(st.lists(st.integers(-64, 64), min_size=n, max_size=n))]
    if kind == "allneg":
        return kind, [-v / 8 for v in draw(st.lists(st.integers(1, 64), min_size=n, max_size=n))]
    if kind == "allpos":
        return kind, [v / 8 for v in draw(st.lists(st.integers(1, 64), min_size=n, max_size=n))]
    seed = draw(gen.seeds)
    return kind, np.random.RandomState(seed).standard_normal(n).round(6).tolist()


@st.composite
def _tensor_case(draw, matrix=None, max_rows=8, max_cols=3, min_rows=1, kinds=("int", "dyadic", "allneg", "allpos", "seed")):
    """{"shape": [n] or [n, c], "d": flat list, "scale": s, "kind": ...}"""
    is_matrix = draw(st.booleans()) if matrix is None else matrix
    if is_matrix:
        shape = [draw(st.integers(min_rows, max_rows - 1)), draw(st.integers(1, max_cols))]
    else:
        shape = [draw(st.integers(min_rows, max_rows))]
    kind, d = draw(_values(gen.prod(shape), kinds))
    return {"shape": shape, "d": d, "scale": draw(st.sampled_from(SCALES)), "kind": kind}


def _arr(c):
    return (np.array(c["d"], dtype=float) * c["scale"]).reshape(c["shape"])


def _cols(a):
    """iterate columns (a 1-D array is one column)"""
    a = np.asarray(a)
    if a.ndim == 1:
        return [a]
    return [a[:, j] for j in range(a.shape[1])]


def _param(lo=0.01, hi=10.0):
    return st.sampled_from([0.01, 0.1, 0.25, 0.5, 1.0, 2.0, 3.0, 10.0]).filter(lambda x: lo <= x <= hi)


def _labels(c, extra=()):
    return [f"kind={c['kind']}", f"scale={c['scale']}", f"ndim={len(c['shape'])}"] + list(extra)


def _same_shape(out, v, clause, allow_column=False):
    o = as_array(out, clause)
    if allow_column and v.ndim == 1 and o.shape == (v.shape[0], 1):
        o = o[:, 0]
    check(o.shape == v.shape, clause + "/shape", lambda: f"shape {o.shape} != input shape {v.shape}")
    check(bool(np.all(np.isfinite(o))), clause + "/finite", "non-finite output")
    return o


def _fne(pu, pv, u, v, clause, scale):
    """firm non-expansiveness: <P(u)-P(v), u-v> >= ||P(u)-P(v)||^2"""
    d = (pu - pv).ravel()
    lhs = float(np.dot(d, (u - v).ravel()))
    rhs = float(np.dot(d, d))
    check(lhs >= rhs - 1e-9 * max(scale * scale, 1e-300), clause,
          lambda: f"<Pu-Pv,u-v>={lhs:.6e} < ||Pu-Pv||^2={rhs:.6e}")


def _scale_of(*arrays):
    return max([float(np.max(np.abs(a))) if np.size(a) else 0.0 for a in arrays] + [1e-300])


# ----------------------------------------------------------------------------
# closed-form operators
# ----------------------------------------------------------------------------
@st.composite
def _pair_case(draw, **kw):
    c = draw(_tensor_case(**kw))
    kind2, d2 = draw(_values(gen.prod(c["shape"])))
    c["d2"] = d2
    return c


def _arr2(c):
    return (np.array(c["d2"], dtype=float) * c["scale"]).reshape(c["shape"])


def o_nonneg(case):
    v = _arr(case)
    u = _arr2(case)
    out = _same_shape(P.proximal_operator(v.copy(), non_negative=True), v, "non_negative")
    sc = _scale_of(v)
    close(out, np.maximum(v, 0), "non_negative/closed_form", rel=1e-12, scale=sc)
    out2 = P.proximal_operator(out.copy(), non_negative=True)
    close(out2, out, "non_negative/idempotent", rel=1e-12, scale=sc)
    pu = _same_shape(P.proximal_operator(u.copy(), non_negative=True), u, "non_negative")
    _fne(pu, out, u, v, "non_negative/fne", _scale_of(u, v))
    return {"nontrivial": bool((v < 0).any()), "labels": _labels(case, [f"allneg={bool((v < 0).all())}"])}


@st.composite
def _soft_case(draw):
    c = draw(_pair_case())
    c["thr_kind"] = draw(st.sampled_from(["scalar", "array"]))
    if c["thr_kind"] == "scalar":
        c["thr"] = draw(_param())
    else:
        n = gen.prod(c["shape"])
        c["thr"] = [k / 4 for k in draw(st.lists(st.integers(0, 8), min_size=n, max_size=n))]
    return c


def o_soft(case):
    v = _arr(case)
    u = _arr2(case)
    if case["thr_kind"] == "scalar":
        t = case["thr"] * case["scale"]
        targ = t
    else:
        t = np.array(case["thr"]).reshape(case["shape"]) * case["scale"]
        targ = t.copy()
    out = _same_shape(P.soft_thresholding(v.copy(), targ), v, "soft_thresholding")
    sc = _scale_of(v, t)
    tol = 1e-12 * sc
    # subgradient certificate: v - x in t * d|x|
    r = v - out
    tt = np.broadcast_to(t, v.shape)
    nz = out != 0
    check(bool(np.all(np.abs(r[nz] - tt[nz] * np.sign(out[nz])) <= tol)), "soft_thresholding/subgradient_nonzero",
          lambda: f"v-x != t*sign(x) on the support: {r[nz]} vs {tt[nz] * np.sign(out[nz])}")
    check(bool(np.all(np.abs(r[~nz]) <= tt[~nz] + tol)), "soft_thresholding/subgradient_zero",
          lambda: "|v| > t where x == 0")
    close(out, np.sign(v) * np.maximum(np.abs(v) - tt, 0), "soft_thresholding/closed_form", rel=1e-12, scale=sc)
    pu = _same_shape(P.soft_thresholding(u.copy(), targ), u, "soft_thresholding")
    _fne(pu, out, u, v, "soft_thresholding/fne", _scale_of(u, v))
    if case["thr_kind"] == "scalar":
        via = _same_shape(P.proximal_operator(v.copy(), l1_reg=float(t)), v, "proximal_operator(l1_reg)")
        close(via, out, "proximal_operator(l1_reg)/same_as_direct", rel=1e-12, scale=sc)
    return {"nontrivial": bool(np.any(np.abs(v) > tt)) and bool(np.any(np.abs(v) <= tt) or True),
            "labels": _labels(case, [f"thr={case['thr_kind']}"])}


@st.composite
def _reg_pair(draw, **kw):
    c = draw(_pair_case(**kw))
    c["reg"] = draw(_param())
    return c


def o_l2(case):
    v = _arr(case)
    u = _arr2(case)
    t = case["reg"] * case["scale"]
    out = _same_shape(P.l2_prox(v.copy(), t), v, "l2_prox")
    sc = _scale_of(v, t)
    nv = float(np.linalg.norm(v))
    if nv <= t:
        close(out, np.zeros_like(v), "l2_prox/zero_inside", rel=1e-12, scale=sc)
    else:
        # v - x = t * x / ||x||
        nx = float(np.linalg.norm(out))
        check(nx > 0, "l2_prox/nonzero_outside", "x == 0 although ||v|| > t")
        close(v - out, t * out / nx, "l2_prox/optimality", rel=1e-9, scale=sc)
    pu = _same_shape(P.l2_prox(u.copy(), t), u, "l2_prox")
    _fne(pu, out, u, v, "l2_prox/fne", _scale_of(u, v))
    via = _same_shape(P.proximal_operator(v.copy(), l2_reg=t), v, "proximal_operator(l2_reg)")
    close(via, out, "proximal_operator(l2_reg)/same_as_direct", rel=1e-12, scale=sc)
    return {"nontrivial": nv > t, "labels": _labels(case, [f"inside={nv <= t}"])}


def o_l2sq(case):
    v = _arr(case)
    u = _arr2(case)
    t = case["reg"]
    out = _same_shape(P.l2_square_prox(v.copy(), t), v, "l2_square_prox")
    sc = _scale_of(v)
    close(out * (1 + 2 * t), v, "l2_square_prox/optimality", rel=1e-12, scale=sc)
    pu = _same_shape(P.l2_square_prox(u.copy(), t), u, "l2_square_prox")
    _fne(pu, out, u, v, "l2_square_prox/fne", _scale_of(u, v))
    via = _same_shape(P.proximal_operator(v.copy(), l2_square_reg=t), v, "proximal_operator(l2_square_reg)")
    close(via, out, "proximal_operator(l2_square_reg)/same_as_direct", rel=1e-12, scale=sc)
    return {"nontrivial": bool(np.any(v != 0)), "labels": _labels(case)}


def o_smooth(case):
    v = _arr(case)
    u = _arr2(case)
    t = case["reg"]
    out = _same_shape(P.smoothness_prox(v.copy(), t), v, "smoothness_prox")
    n = v.shape[0]
    L = 2 * np.eye(n) - np.eye(n, k=1) - np.eye(n, k=-1)
    sc = _scale_of(v) * (1 + 4 * t)
    close((np.eye(n) + t * L) @ out, v, "smoothness_prox/optimality", rel=1e-9, scale=sc)
    pu = _same_shape(P.smoothness_prox(u.copy(), t), u, "smoothness_prox")
    _fne(pu, out, u, v, "smoothness_prox/fne", _scale_of(u, v))
    via = _same_shape(P.proximal_operator(v.copy(), smoothness=t), v, "proximal_operator(smoothness)")
    close(via, out, "proximal_operator(smoothness)/same_as_direct", rel=1e-12, scale=sc)
    return {"nontrivial": n >= 2 and bool(np.any(v != 0)), "labels": _labels(case, [f"n={n}"])}


# ----------------------------------------------------------------------------
# simplex / l1 ball
# ----------------------------------------------------------------------------
def o_simplex(case):
    v = _arr(case)
    u = _arr2(case)
    r = case["reg"] * case["scale"]
    out = _same_shape(P.simplex_prox(v.copy(), r), v, "simplex_prox")
    sc = _scale_of(v, r)
    tol = 1e-9 * sc
    for j, (col, vc) in enumerate(zip(_cols(out), _cols(v))):
        check(bool(np.all(col >= -tol)), "simplex_prox/feasible_nonneg", lambda: f"column {j} has negative entries {col}")
        check(abs(col.sum() - r) <= tol * len(col), "simplex_prox/feasible_sum", lambda: f"column {j} sums to {col.sum()} != {r}")
        want = ref.simplex_proj(vc, r)
        close(col, want, "simplex_prox/equals_reference", rel=1e-9, scale=sc)
    out2 = _same_shape(P.simplex_prox(out.copy(), r), v, "simplex_prox")
    close(out2, out, "simplex_prox/idempotent", rel=1e-9, scale=sc)
    pu = _same_shape(P.simplex_prox(u.copy(), r), u, "simplex_prox")
    _fne(pu, out, u, v, "simplex_prox/fne", _scale_of(u, v, r))
    via = _same_shape(P.proximal_operator(v.copy(), simplex=r), v, "proximal_operator(simplex)")
    close(via, out, "proximal_operator(simplex)/same_as_direct", rel=1e-12, scale=sc)
    # competitors: feasible points built from the second input
    for cc, vc, oc in zip(_cols(u), _cols(v), _cols(out)):
        comp = ref.simplex_proj(cc, r)
        check(np.sum((oc - vc) ** 2) <= np.sum((comp - vc) ** 2) + 1e-9 * sc * sc, "simplex_prox/not_worse_than_competitor",
              lambda: "a feasible competitor is closer to the input than the output")
    infeasible = any((c < 0).any() or abs(c.sum() - r) > tol for c in _cols(v))
    return {"nontrivial": infeasible, "labels": _labels(case)}


def o_soft_sparsity(case):
    v = _arr(case)
    u = _arr2(case)
    r = case["reg"] * case["scale"]
    out = _same_shape(P.soft_sparsity_prox(v.copy(), r), v, "soft_sparsity_prox")
    sc = _scale_of(v, r)
    tol = 1e-9 * sc
    inside_cols = []
    for j, (col, vc) in enumerate(zip(_cols(out), _cols(v))):
        check(np.abs(col).sum() <= r + tol * len(col), "soft_sparsity_prox/feasible", lambda: f"column {j}: l1 norm {np.abs(col).sum()} > {r}")
        if np.abs(vc).sum() <= r:
            inside_cols.append(j)
        else:
            close(col, ref.l1ball_proj(vc, r), "soft_sparsity_prox/equals_reference_outside", rel=1e-9, scale=sc)
    out2 = _same_shape(P.soft_sparsity_prox(out.copy(), r), v, "soft_sparsity_prox")
    if not inside_cols:
        close(out2, out, "soft_sparsity_prox/idempotent", rel=1e-8, scale=sc)
    both_outside = all(np.abs(c).sum() > r * (1 + 1e-9) for c in _cols(v)) and all(np.abs(c).sum() > r * (1 + 1e-9) for c in _cols(u))
    if both_outside:
        pu = _same_shape(P.soft_sparsity_prox(u.copy(), r), u, "soft_sparsity_prox")
        _fne(pu, out, u, v, "soft_sparsity_prox/fne", _scale_of(u, v, r))
    via = _same_shape(P.proximal_operator(v.copy(), soft_sparsity=r), v, "proximal_operator(soft_sparsity)")
    close(via, out, "proximal_operator(soft_sparsity)/same_as_direct", rel=1e-12, scale=sc)
    # last: the identity clause for columns already inside the ball (known finding KF-C12-1 lives here only)
    for j in inside_cols:
        close(_cols(out)[j], _cols(v)[j], "soft_sparsity_prox/identity_inside_ball", rel=1e-9, scale=sc)
    if inside_cols:
        close(out2, out, "soft_sparsity_prox/identity_inside_ball/idempotent", rel=1e-8, scale=sc)
    return {"nontrivial": len(inside_cols) < len(_cols(v)), "labels": _labels(case, [f"inside_cols={min(len(inside_cols), 2)}"])}


# ----------------------------------------------------------------------------
# monotone / unimodal
# ----------------------------------------------------------------------------
@st.composite
def _mono_case(draw):
    c = draw(_pair_case())
    c["decreasing"] = draw(st.booleans())
    return c


def o_monotone(case):
    v = _arr(case)
    u = _arr2(case)
    dec = case["decreasing"]
    out = _same_shape(P.monotonicity_prox(v.copy(), decreasing=dec), v, "monotonicity_prox", allow_column=True)
    sc = _scale_of(v)
    tol = 1e-9 * sc
    for j, (col, vc) in enumerate(zip(_cols(out), _cols(v))):
        d = np.diff(col)
        check(bool(np.all(d <= tol)) if dec else bool(np.all(d >= -tol)), "monotonicity_prox/feasible",
              lambda: f"column {j} not monotone ({'decreasing' if dec else 'increasing'}): {col}")
        want = ref.pava_decreasing(vc) if dec else ref.pava_increasing(vc)
        close(col, want, "monotonicity_prox/equals_pava", rel=1e-9, scale=sc)
    out2 = _same_shape(P.monotonicity_prox(out.copy(), decreasing=dec), v, "monotonicity_prox", allow_column=True)
    close(out2, out, "monotonicity_prox/idempotent", rel=1e-9, scale=sc)
    pu = _same_shape(P.monotonicity_prox(u.copy(), decreasing=dec), u, "monotonicity_prox", allow_column=True)
    _fne(pu, out, u, v, "monotonicity_prox/fne", _scale_of(u, v))
    if not dec:
        via = _same_shape(P.proximal_operator(v.copy(), monotonicity=True), v, "proximal_operator(monotonicity)", allow_column=True)
        close(via, out, "proximal_operator(monotonicity)/same_as_direct", rel=1e-12, scale=sc)
    infeasible = any((np.diff(c) > 0).any() if dec else (np.diff(c) < 0).any() for c in _cols(v))
    return {"nontrivial": infeasible, "labels": _labels(case, [f"dec={dec}"])}


def _unimodal_best(y):
    """exact least-squares unimodal fit error: min over peak positions of an NNLS-reformulated fit"""
    y = np.asarray(y, dtype=float)
    n = len(y)
    best = None
    for j in range(n):
        # x_j = p+ - p-;  x_{j-i} = x_j - a_1 - ... - a_i ; x_{j+i} = x_j - b_1 - ... - b_i ; a, b >= 0
        na, nb = j, n - 1 - j
        A = np.zeros((n, 2 + na + nb))
        A[:, 0] = 1.0
        A[:, 1] = -1.0
        for i in range(1, na + 1):
            A[:j - i + 1, 1 + i] = -1.0      # a_i lowers x_0..x_{j-i}
        for i in range(1, nb + 1):
            A[j + i:, 1 + na + i] = -1.0     # b_i lowers x_{j+i}..x_{n-1}
        sol, rn = scipy_nnls(A, y, maxiter=2000)
        e = float(np.sum((A @ sol - y) ** 2))
        if best is None or e < best:
            best = e
    return best


def _is_unimodal(col, tol):
    n = len(col)
    for j in range(n):
        if np.all(np.diff(col[:j + 1]) >= -tol) and np.all(np.diff(col[j:]) <= tol):
            return True
    return False


def o_unimodal(case):
    v = _arr(case)
    out = _same_shape(P.unimodality_prox(v.copy()), v, "unimodality_prox", allow_column=True)
    sc = _scale_of(v)
    tol = 1e-9 * sc
    for j, (col, vc) in enumerate(zip(_cols(out), _cols(v))):
        check(_is_unimodal(col, tol), "unimodality_prox/feasible", lambda: f"column {j} not unimodal: {col} (input {vc})")
    via = _same_shape(P.proximal_operator(v.copy(), unimodality=True), v, "proximal_operator(unimodality)", allow_column=True)
    close(via, out, "proximal_operator(unimodality)/same_as_direct", rel=1e-12, scale=sc)
    out2 = _same_shape(P.unimodality_prox(out.copy()), v, "unimodality_prox", allow_column=True)
    for j, col in enumerate(_cols(out2)):
        check(_is_unimodal(col, tol), "unimodality_prox/feasible_second_application", lambda: f"column {j} not unimodal: {col}")
    # optimality clauses last (known finding KF-C12-2 lives in exactly these two clauses)
    for j, (col, vc) in enumerate(zip(_cols(out), _cols(v))):
        best = _unimodal_best(vc)
        got = float(np.sum((col - vc) ** 2))
        check(got <= best + 1e-7 * sc * sc, "unimodality_prox/optimal",
              lambda: f"column {j}: ||x-v||^2 = {got:.9e} > best unimodal fit {best:.9e}; v={vc}, x={col}")
    close(out2, out, "unimodality_prox/optimal/idempotent", rel=1e-9, scale=sc)
    return {"nontrivial": any(not _is_unimodal(c, 0.0) for c in _cols(v)), "labels": _labels(case)}


# ----------------------------------------------------------------------------
# sparsity projections
# ----------------------------------------------------------------------------
@st.composite
def _k_case(draw, nonzero=False):
    c = draw(_tensor_case())
    n = gen.prod(c["shape"])
    c["k"] = draw(st.integers(1, n))
    if nonzero and not any(c["d"]):
        c["d"][0] = 1.0
    return c


def o_hard(case):
    v = _arr(case)
    k = case["k"]
    out = _same_shape(P.hard_thresholding(v.copy(), k), v, "hard_thresholding")
    fo, fv = out.ravel(), v.ravel()
    supp = fo != 0
    check(int(supp.sum()) <= k, "hard_thresholding/support", lambda: f"{int(supp.sum())} non-zeros > k={k}")
    check(bool(np.all(fo[supp] == fv[supp])), "hard_thresholding/kept_values", "a kept entry differs from the input")
    kept = np.zeros(fv.shape, dtype=bool)
    kept[supp] = True
    # entries of v that are zero may count as kept or dropped: the nearest k-sparse point keeps the k largest |v|
    nkeep_possible = int((fv != 0).sum())
    check(int(supp.sum()) == min(k, nkeep_possible), "hard_thresholding/keeps_k",
          lambda: f"kept {int(supp.sum())} entries, expected {min(k, nkeep_possible)}")
    if supp.any() and (~supp).any():
        check(np.min(np.abs(fv[supp])) >= np.max(np.abs(fv[~supp])), "hard_thresholding/largest_kept",
              lambda: f"min kept |v|={np.min(np.abs(fv[supp]))} < max dropped |v|={np.max(np.abs(fv[~supp]))}")
    out2 = _same_shape(P.hard_thresholding(out.copy(), k), v, "hard_thresholding")
    check(bool(np.all(out2 == out)), "hard_thresholding/idempotent", "P(P(v)) != P(v)")
    via = _same_shape(P.proximal_operator(v.copy(), hard_sparsity=k), v, "proximal_operator(hard_sparsity)")
    check(bool(np.all(via == out)), "proximal_operator(hard_sparsity)/same_as_direct", "dispatcher result differs")
    return {"nontrivial": int((fv != 0).sum()) > k, "labels": _labels(case, [f"ties={len(set(np.abs(fv))) < len(fv)}"])}


def o_normsparse(case):
    v = _arr(case)
    k = case["k"]
    if not np.any(v):
        discard("zero input (0/0 undefined)")
    out = _same_shape(P.normalized_sparsity_prox(v.copy(), k), v, "normalized_sparsity_prox")
    fo, fv = out.ravel(), v.ravel()
    check(abs(np.linalg.norm(fo) - 1) <= 1e-9, "normalized_sparsity_prox/unit_norm", lambda: f"norm {np.linalg.norm(fo)}")
    check(int((fo != 0).sum()) <= k, "normalized_sparsity_prox/support", lambda: f"{int((fo != 0).sum())} non-zeros > k={k}")
    # nearest feasible point: brute force over supports of size <= k (n <= 8 for vectors; matrices up to 21 entries: limit)
    n = len(fv)
    if n <= 10:
        best = None
        for S in itertools.combinations(range(n), min(k, n)):
            w = np.zeros(n)
            w[list(S)] = fv[list(S)]
            nw = np.linalg.norm(w)
            if nw == 0:
                continue
            d = float(np.sum((w / nw - fv) ** 2))
            best = d if best is None else min(best, d)
        got = float(np.sum((fo - fv) ** 2))
        sc = _scale_of(v)
        check(got <= best + 1e-9 * max(sc * sc, 1.0), "normalized_sparsity_prox/nearest",
              lambda: f"||x-v||^2={got:.9e} > best over supports {best:.9e}")
    out2 = _same_shape(P.normalized_sparsity_prox(out.copy(), k), v, "normalized_sparsity_prox")
    close(out2, out, "normalized_sparsity_prox/idempotent", rel=1e-9, scale=1.0)
    via = _same_shape(P.proximal_operator(v.copy(), normalized_sparsity=k), v, "proximal_operator(normalized_sparsity)")
    close(via, out, "proximal_operator(normalized_sparsity)/same_as_direct", rel=1e-12, scale=1.0)
    return {"nontrivial": int((fv != 0).sum()) > k or abs(np.linalg.norm(fv) - 1) > 1e-6, "labels": _labels(case)}


def o_normalize(case):
    v = _arr(case)
    if not np.any(v):
        discard("zero input (0/0 undefined)")
    out = _same_shape(P.proximal_operator(v.copy(), normalize=True), v, "proximal_operator(normalize)")
    check(abs(np.max(np.abs(out)) - 1) <= 1e-12, "normalize/max_is_one", lambda: f"max|x| = {np.max(np.abs(out))}")
    close(out * np.max(np.abs(v)), v, "normalize/parallel_to_input", rel=1e-12, scale=_scale_of(v))
    out2 = _same_shape(P.proximal_operator(out.copy(), normalize=True), v, "proximal_operator(normalize)")
    close(out2, out, "normalize/idempotent", rel=1e-12, scale=1.0)
    return {"nontrivial": abs(np.max(np.abs(v)) - 1) > 1e-9, "labels": _labels(case)}


# ----------------------------------------------------------------------------
# spectral operators
# ----------------------------------------------------------------------------
@st.composite
def _mat_pair(draw):
    shape_class = draw(st.sampled_from(["small", "small", "tall", "wide"]))
    if shape_class == "small":
        m, n = draw(st.integers(1, 5)), draw(st.integers(1, 5))
    elif shape_class == "tall":       # strongly tall / wide matrices (fast paths keyed on the aspect ratio)
        m, n = draw(st.integers(6, 12)), draw(st.integers(1, 3))
    else:
        m, n = draw(st.integers(1, 3)), draw(st.integers(6, 12))
    kind, d = draw(_values(m * n, ("int", "dyadic", "seed")))
    kind2, d2 = draw(_values(m * n, ("int", "dyadic", "seed")))
    lowrank = draw(st.sampled_from([False, True, "dupcol", "zerocol"]))
    return {"shape": [m, n], "d": d, "d2": d2, "scale": draw(st.sampled_from(SCALES)), "kind": kind,
            "reg": draw(_param()), "lowrank": lowrank, "shape_class": shape_class}


def _mat(c, key="d"):
    a = (np.array(c[key], dtype=float) * c["scale"]).reshape(c["shape"])
    lr = c.get("lowrank")
    if lr is True and min(a.shape) >= 2:
        a = np.outer(a[:, 0], a[0, :])  # rank <= 1
    elif lr == "dupcol" and min(a.shape) >= 2:      # rank deficient by a duplicated column / row
        a = a.copy()
        if a.shape[0] >= a.shape[1]:
            a[:, -1] = a[:, 0]
        else:
            a[-1, :] = a[0, :]
    elif lr == "zerocol" and min(a.shape) >= 2:
        a = a.copy()
        if a.shape[0] >= a.shape[1]:
            a[:, -1] = 0
        else:
            a[-1, :] = 0
    return a


def o_svt(case):
    v = _mat(case)
    u = _mat(case, "d2")
    t = case["reg"] * case["scale"]
    out = _same_shape(P.svd_thresholding(v.copy(), t), v, "svd_thresholding")
    sc = _scale_of(v, t)
    r = v - out
    s_r = np.linalg.svd(r, compute_uv=False)
    check(bool(np.all(s_r <= t + 1e-9 * sc)), "svd_thresholding/dual_feasible", lambda: f"sigma(v-x) = {s_r} > t = {t}")
    nuc = float(np.sum(np.linalg.svd(out, compute_uv=False)))
    inner = float(np.sum(r * out))
    check(abs(inner - t * nuc) <= 1e-9 * sc * sc * max(v.shape), "svd_thresholding/complementarity",
          lambda: f"<v-x,x>={inner:.9e} != t*||x||_* = {t * nuc:.9e}")
    s_v = np.linalg.svd(v, compute_uv=False)
    close(np.linalg.svd(out, compute_uv=False), np.maximum(s_v - t, 0), "svd_thresholding/spectrum", rel=1e-9, scale=sc)
    pu = _same_shape(P.svd_thresholding(u.copy(), t), u, "svd_thresholding")
    _fne(pu, out, u, v, "svd_thresholding/fne", _scale_of(u, v))
    return {"nontrivial": bool(np.any(s_v > t)) and min(v.shape) >= 2, "labels": _labels(case, [f"lowrank={case['lowrank']}"])}


def o_procrustes(case):
    v = _mat(case)
    out = _same_shape(P.procrustes(v.copy()), v, "procrustes")
    m, n = v.shape
    sc = _scale_of(v)
    if m >= n:
        close(out.T @ out, np.eye(n), "procrustes/orthonormal_columns", rel=1e-9, scale=1.0)
    else:
        close(out @ out.T, np.eye(m), "procrustes/orthonormal_rows", rel=1e-9, scale=1.0)
    nuc = float(np.sum(np.linalg.svd(v, compute_uv=False)))
    tr = float(np.sum(out * v))
    check(abs(tr - nuc) <= 1e-9 * sc * max(m, n), "procrustes/attains_nuclear_norm", lambda: f"tr(Q^T M)={tr:.9e} != ||M||_*={nuc:.9e}")
    return {"nontrivial": min(m, n) >= 2, "labels": _labels(case, [f"lowrank={case['lowrank']}", f"shape={case.get('shape_class', 'small')}"])}


# ----------------------------------------------------------------------------
# dispatcher semantics
# ----------------------------------------------------------------------------
@st.composite
def _dispatch_case(draw):
    c = draw(_tensor_case(matrix=True))
    c["n_const"] = draw(st.integers(1, 4))
    c["order"] = draw(st.integers(0, c["n_const"] - 1))
    c["spec"] = draw(st.sampled_from(["scalar", "list", "dict_hit", "dict_miss", "none"]))
    return c


def o_dispatch(case):
    """proximal_operator applies the constraint registered for mode `order`, and only that one"""
    v = _arr(case)
    n, o, spec = case["n_const"], case["order"], case["spec"]
    if spec == "scalar":
        out = P.proximal_operator(v.copy(), non_negative=True, n_const=n, order=o)
        active = True
    elif spec == "list":
        lst = [False] * n
        lst[o] = True
        out = P.proximal_operator(v.copy(), non_negative=lst, n_const=n, order=o)
        active = True
    elif spec == "dict_hit":
        out = P.proximal_operator(v.copy(), non_negative={o: True}, n_const=n, order=o)
        active = True
    elif spec == "dict_miss":
        if n == 1:
            discard("no other mode")
        out = P.proximal_operator(v.copy(), non_negative={(o + 1) % n: True}, n_const=n, order=o)
        active = False
    else:
        out = P.proximal_operator(v.copy(), n_const=n, order=o)
        active = False
    out = _same_shape(out, v, "proximal_operator/dispatch")
    want = np.maximum(v, 0) if active else v
    close(out, want, "proximal_operator/dispatch_mode", rel=1e-12, scale=_scale_of(v))
    return {"nontrivial": bool((v < 0).any()), "labels": [f"spec={spec}"]}


@st.composite
def _dispatch_param_case(draw):
    """per-mode parameters: every mode gets its own l1 threshold, given as a list or as a dict whose keys are
    inserted in an arbitrary order; proximal_operator must use the parameter of mode `order`"""
    c = draw(_tensor_case(matrix=True))
    n = draw(st.integers(2, 4))
    c["n_const"] = n
    c["order"] = draw(st.integers(0, n - 1))
    c["params"] = [k / 4 for k in draw(st.lists(st.integers(1, 12), min_size=n, max_size=n, unique=True))]
    c["form"] = draw(st.sampled_from(["list", "dict", "dict", "dict_subset"]))
    c["key_order"] = draw(st.permutations(list(range(n))))
    c["kw"] = draw(st.sampled_from(["l1_reg", "l2_square_reg", "simplex", "hard_sparsity"]))
    return c


def o_dispatch_param(case):
    v = _arr(case)
    n, o, kw = case["n_const"], case["order"], case["kw"]
    params = list(case["params"])
    if kw == "hard_sparsity":
        params = [int(4 * p) for p in params]
    if case["form"] == "list":
        spec = list(params)
        mine = params[o]
    else:
        keys = [k for k in case["key_order"]]
        if case["form"] == "dict_subset":
            keys = [k for k in keys if k != (o + 1) % n]       # one other mode left unconstrained
        spec = {k: params[k] for k in keys}                    # insertion order = drawn key order
        mine = params[o]
    out = _same_shape(P.proximal_operator(v.copy(), n_const=n, order=o, **{kw: spec}), v, "proximal_operator/per_mode")
    if kw == "l1_reg":
        want = np.sign(v) * np.maximum(np.abs(v) - mine, 0)
    elif kw == "l2_square_reg":
        want = v / (1 + 2 * mine)
    elif kw == "simplex":
        want = np.stack([ref.simplex_proj(c, mine) for c in _cols(v)], axis=1)
    else:
        want = P.hard_thresholding(v.copy(), mine)   # the operator itself is certified in its own sub-check
    close(out, want, "proximal_operator/per_mode_parameter", rel=1e-9, scale=_scale_of(v, mine))
    return {"nontrivial": True, "labels": [f"form={case['form']}", f"kw={kw}",
                                           f"keys_sorted={list(case['key_order']) == sorted(case['key_order'])}"]}


def subchecks(tier):
    pc = _pair_case()
    return [
        SubCheck("non_negative", pc, o_nonneg, quick=500, thorough=5000),
        SubCheck("soft_thresholding", _soft_case(), o_soft, quick=500, thorough=5000),
        SubCheck("l2_prox", _reg_pair(), o_l2, quick=500, thorough=5000),
        SubCheck("l2_square_prox", _reg_pair(), o_l2sq, quick=400, thorough=4000),
        SubCheck("smoothness_prox", _reg_pair(), o_smooth, quick=400, thorough=4000),
        SubCheck("simplex_prox", _reg_pair(), o_simplex, quick=500, thorough=5000),
        SubCheck("soft_sparsity_prox", _reg_pair(), o_soft_sparsity, quick=500, thorough=5000),
        SubCheck("monotonicity_prox", _mono_case(), o_monotone, quick=500, thorough=5000),
        SubCheck("unimodality_prox", _tensor_case(), o_unimodal, quick=300, thorough=3000),
        SubCheck("hard_thresholding", _k_case(), o_hard, quick=500, thorough=5000),
        SubCheck("normalized_sparsity_prox", _k_case(nonzero=True), o_normsparse, quick=400, thorough=4000),
        SubCheck("normalize", _tensor_case(), o_normalize, quick=300, thorough=3000),
        SubCheck("svd_thresholding", _mat_pair(), o_svt, quick=400, thorough=4000),
        SubCheck("procrustes", _mat_pair(), o_procrustes, quick=400, thorough=4000),
        SubCheck("dispatch", _dispatch_case(), o_dispatch, quick=300, thorough=3000),
        SubCheck("dispatch_per_mode_parameter", _dispatch_param_case(), o_dispatch_param, quick=300, thorough=3000),
    ]


def _kf_soft_sparsity_inside(sub_name, case, info):
    return sub_name == "soft_sparsity_prox" and info.get("clause", "").startswith("soft_sparsity_prox/identity_inside_ball")


def _kf_unimodal_not_optimal(sub_name, case, info):
    return sub_name == "unimodality_prox" and info.get("clause", "").startswith("unimodality_prox/optimal")


KNOWN_CLASSES = {"soft_sparsity_inside_ball": _kf_soft_sparsity_inside,
                 "unimodality_not_optimal": _kf_unimodal_not_optimal}
