"""C10 — non-negative decompositions return entrywise non-negative factors.

One sub-check per (algorithm x init/option group).  The oracle is the plain NumPy
predicate "finite and min >= 0" applied to exactly the arrays the algorithm declares
non-negative (factors on nn modes, CP weights, Tucker core); NaN is a failure.
"""
import numpy as np
from hypothesis import strategies as st

from tensorly.decomposition import (
    non_negative_parafac, non_negative_parafac_hals, non_negative_tucker,
    non_negative_tucker_hals, constrained_parafac, parafac2,
)

from vlib import gen
from vlib import x_c10 as X
from vlib.engine import SubCheck, check, discard, Fail

PROPERTY = "C10"
RULE = ("Hypothesis: data tensors of order 2-4 (PARAFAC2: 2-4 slices), sides 2-4, classes signed normal / non-negative / "
        "sparse signed / sparse non-negative / small ints / all-negative / exactly low CP rank (signed and non-negative), each at data magnitude 1, 1e-4, 1e-8 or 1e4; "
        "rank 1-3 (also > side); init svd / random(seed) / entrywise non-negative user init (weights None, ones or positive; "
        "with fixed modes); n_iter_max 0-6 (PARAFAC2 up to 9 so that line-search iterations occur); tol 0 / 1e-8 / 1e-1; "
        "normalize_factors; masks (MU-CP); sparsity coefficients float / list (HALS, Tucker-HALS, core); nn_modes 'all' / "
        "every non-empty subset; FISTA / active-set core; constrained_parafac non_negative True / dict subset / list. "
        "Oracle: every array declared non-negative (factors on nn modes, weights, core) is finite with min >= 0, computed "
        "by NumPy; undeclared modes and PARAFAC2 mode 1 are not inspected.  LinAlgError from the library = discard. "
        "Non-trivial: data has negative entries or >= 30 % zeros, or a user init / strict subset of modes is used.")
ASSUMPTIONS = ["NumPy min / isfinite are correct", "Hypothesis generates what its strategies describe",
               "exact=True (50000 unbounded inner HALS sweeps) is not explored for cost reasons"]

LIN = (np.linalg.LinAlgError,)
# data magnitude class: the guarantee is scale-free, absolute thresholds inside the algorithms are not
SCALES = [None, None, None, 1e-4, 1e-8, 1e4]


def _draw_scale(draw, x):
    sc = draw(st.sampled_from(SCALES))
    if sc is not None:
        x["xscale"] = sc
    return sc


# ----------------------------------------------------------------------------
# strategies
# ----------------------------------------------------------------------------
@st.composite
def _base(draw, min_order=2, max_order=4, max_iter=6, inits=("random", "user"), kinds=X.DATA_KINDS, max_side=4,
          cap_rank=False):
    x = draw(X.data(min_order, max_order, 2, max_side, kinds=kinds))
    _draw_scale(draw, x)
    shape = x["s"]
    rank = draw(st.integers(1, 3))
    if cap_rank and rank > min(shape) and draw(st.integers(0, 3)) > 0:
        rank = min(shape)   # unconstrained modes are solved exactly: rank > side is singular (LinAlgError = discard)
    init = draw(st.sampled_from(list(inits)))
    c = {"x": x, "rank": rank, "init": init, "seed": draw(st.integers(0, 10 ** 6)),
         "n_iter": draw(st.integers(0, max_iter)), "tol": draw(st.sampled_from([0, 1e-8, 1e-1])),
         "normalize": draw(st.booleans())}
    if init == "user":
        c["uinit"] = draw(X.nn_cp_init(shape, rank))
        nd = len(shape)
        c["fixed"] = draw(st.one_of(st.none(), st.lists(st.integers(0, nd - 1), unique=True, max_size=nd - 1).map(sorted)))
    return c


def _init_arg(c):
    if c["init"] == "user":
        w, f = X.dec_nn_cp_init(c["uinit"])
        return (w, f)
    return c["init"]


def _common_labels(c, x):
    neg, zf = X.data_class(x)
    lab = [f"order={x.ndim}", f"data={c['x']['kind']}", f"init={c['init']}", f"n_iter={c['n_iter']}",
           f"rank_gt_side={c['rank'] > min(x.shape)}", f"normalize={c['normalize']}", f"scale={c['x'].get('xscale')}"]
    nt = neg or zf >= 0.3 or c["init"] == "user"
    return lab, nt


def _data(c):
    x = X.dec_data(c["x"])
    if not np.any(x):
        discard("zero tensor")
    return x


def _check_cp(res, shape, rank, modes, clause, weights=True):
    try:
        w, facs = res
        facs = list(facs)
    except Exception:  # noqa
        raise Fail(clause + "/structure", f"result is not (weights, factors): {type(res).__name__}")
    check(len(facs) == len(shape), clause + "/structure", f"{len(facs)} factors for order {len(shape)}")
    for m in modes:
        X.assert_nonneg(facs[m], clause, f"factor[{m}]", shape=(shape[m], rank))
    if weights:
        X.assert_nonneg(w, clause + "/weights", "weights", shape=(rank,))


# ---- non_negative_parafac (multiplicative updates) -----------------------------
@st.composite
def _mu_case(draw, inits):
    c = draw(_base(inits=inits))
    c["cvg"] = draw(st.sampled_from(["abs_rec_error", "rec_error"]))
    c["mask_seed"] = draw(st.one_of(st.none(), st.integers(0, 10 ** 6))) if draw(st.booleans()) else None
    return c


def o_mu(c):
    x = _data(c)
    kw = {}
    if c.get("mask_seed") is not None:
        rs = np.random.RandomState(c["mask_seed"])
        kw["mask"] = (rs.uniform(size=x.shape) < 0.8).astype(float)
    if c.get("fixed") is not None:
        kw["fixed_modes"] = list(c["fixed"])
    res = non_negative_parafac(x.copy(), c["rank"], n_iter_max=c["n_iter"], init=_init_arg(c), tol=c["tol"],
                               random_state=c["seed"], normalize_factors=c["normalize"],
                               cvg_criterion=c["cvg"], **kw)
    _check_cp(res, x.shape, c["rank"], range(x.ndim), "nonneg/mu_cp")
    lab, nt = _common_labels(c, x)
    return {"nontrivial": nt, "labels": lab + [f"mask={'mask' in kw}", f"fixed={bool(c.get('fixed'))}"]}


# ---- non_negative_parafac_hals ---------------------------------------------------
@st.composite
def _hals_case(draw, inits, nn, force_fixed=False):
    c = draw(_base(inits=inits, cap_rank=(nn != "all")))
    nd = len(c["x"]["s"])
    if force_fixed:
        # user init with a non-empty set of fixed modes (never the last) and >= 1 sweep: the updated modes sit at positions
        # different from their mode index (per-mode solver selection class)
        c["fixed"] = draw(st.lists(st.integers(0, nd - 2), unique=True, min_size=1, max_size=max(1, nd - 2)).map(sorted))
        c["n_iter"] = max(1, c["n_iter"])
    if nn == "all":
        c["nn_modes"] = "all"
    else:
        sub = draw(st.lists(st.integers(0, nd - 1), unique=True, min_size=1, max_size=nd - 1).map(sorted))
        c["nn_modes"] = sub
    if c.get("fixed"):
        # CP_NN_HALS docstring: "The last mode cannot be fixed due to error computation" (the function does not
        # un-fix it as parafac does, it crashes / mis-computes the error) -> outside the domain
        c["fixed"] = [m for m in c["fixed"] if m != nd - 1]
    sk = draw(st.sampled_from(["none", "float", "list"]))
    if sk == "none":
        c["sparsity"] = None
    elif sk == "float":
        c["sparsity"] = draw(st.sampled_from([0.0, 0.01, 0.5, 2.0]))
    else:
        c["sparsity"] = [draw(st.sampled_from([None, 0.0, 0.05, 1.0])) for _ in range(nd)]
    c["cvg"] = draw(st.sampled_from(["abs_rec_error", "rec_error"]))
    return c


def o_hals(c):
    x = _data(c)
    nd = x.ndim
    kw = {}
    if c.get("fixed") is not None:
        kw["fixed_modes"] = list(c["fixed"])
    sp = c["sparsity"]
    if isinstance(sp, list):
        sp = list(sp)
    nn = c["nn_modes"] if c["nn_modes"] == "all" else list(c["nn_modes"])
    res = non_negative_parafac_hals(x.copy(), c["rank"], n_iter_max=c["n_iter"], init=_init_arg(c), tol=c["tol"],
                                    random_state=c["seed"], sparsity_coefficients=sp, nn_modes=nn,
                                    normalize_factors=c["normalize"], cvg_criterion=c["cvg"], exact=False, **kw)
    modes = list(range(nd)) if nn == "all" else list(nn)
    _check_cp(res, x.shape, c["rank"], modes, "nonneg/hals_cp", weights=(nn == "all"))
    lab, nt = _common_labels(c, x)
    return {"nontrivial": nt or nn != "all",
            "labels": lab + [f"nn={'all' if nn == 'all' else 'subset'}",
                             f"sparsity={'none' if c['sparsity'] is None else type(c['sparsity']).__name__}",
                             f"fixed={bool(c.get('fixed'))}"]}


# ---- non-negative Tucker ------------------------------------------------------------
NONNEG_KINDS = ("nonneg", "sparse_nonneg", "lowrank_nonneg", "posint")
SIGNED_KINDS = ("normal", "sparse", "int", "allneg", "lowrank")


@st.composite
def _tucker_case(draw, inits, hals=False, alg=None, kinds=X.DATA_KINDS):
    x = draw(X.data(2, 4 if not hals else 3, 2, 4 if not hals else 3, kinds=kinds))
    _draw_scale(draw, x)
    shape = x["s"]
    nd = len(shape)
    rk = draw(st.sampled_from(["int", "list"]))
    if rk == "int":
        rank = draw(st.integers(1, 3))
        ranks = [rank] * nd
    else:
        ranks = [draw(st.integers(1, 3)) for _ in range(nd)]
        rank = list(ranks)
    init = draw(st.sampled_from(list(inits)))
    c = {"x": x, "rank": rank, "init": init, "seed": draw(st.integers(0, 10 ** 6)),
         "n_iter": draw(st.integers(0, 6 if not hals else 4)), "tol": draw(st.sampled_from([0, 1e-8, 1e-1])),
         "normalize": draw(st.booleans())}
    if init == "user":
        c["ucore"] = draw(gen.arr(ranks, kinds=("normal", "posint", "uniform", "sparse_nonneg")))
        c["ufacs"] = [draw(gen.arr([s, r], kinds=("normal", "posint", "uniform", "sparse_nonneg")))
                      for s, r in zip(shape, ranks)]
    if hals:
        c["alg"] = alg
        sk = draw(st.sampled_from(["none", "float", "list"]))
        c["sparsity"] = (None if sk == "none" else draw(st.sampled_from([0.0, 0.05, 1.0])) if sk == "float"
                         else [draw(st.sampled_from([None, 0.0, 0.05, 1.0])) for _ in range(nd)])
        c["core_sparsity"] = draw(st.sampled_from([None, 0.0, 0.05, 1.0])) if alg == "fista" else None
    return c


def _tucker_init(c):
    if c["init"] == "user":
        return (np.abs(gen.dec(c["ucore"])), [np.abs(gen.dec(f)) for f in c["ufacs"]])
    return c["init"]


def _check_tucker(res, x, c, clause):
    try:
        core, facs = res
        facs = list(facs)
    except Exception:  # noqa
        raise Fail(clause + "/structure", f"result is not (core, factors): {type(res).__name__}")
    check(len(facs) == x.ndim, clause + "/structure", f"{len(facs)} factors for order {x.ndim}")
    for m, f in enumerate(facs):
        X.assert_nonneg(f, clause, f"factor[{m}]")
        check(np.ndim(f) == 2 and np.shape(f)[0] == x.shape[m], clause + "/shape", f"factor[{m}] shape {np.shape(f)}")
    X.assert_nonneg(core, clause + "/core", "core")
    neg, zf = X.data_class(x)
    ranks = c["rank"] if isinstance(c["rank"], list) else [c["rank"]] * x.ndim
    lab = [f"order={x.ndim}", f"data={c['x']['kind']}", f"init={c['init']}", f"n_iter={c['n_iter']}",
           f"rank_gt_side={any(r > s for r, s in zip(ranks, x.shape))}", f"normalize={c['normalize']}",
           f"scale={c['x'].get('xscale')}"]
    return {"nontrivial": neg or zf >= 0.3 or c["init"] == "user", "labels": lab}


def o_tucker_mu(c):
    x = _data(c)
    rank = c["rank"] if not isinstance(c["rank"], list) else list(c["rank"])
    res = non_negative_tucker(x.copy(), rank, n_iter_max=c["n_iter"], init=_tucker_init(c), tol=c["tol"],
                              random_state=c["seed"], normalize_factors=c["normalize"])
    return _check_tucker(res, x, c, "nonneg/mu_tucker")


def o_tucker_hals(c):
    x = _data(c)
    rank = c["rank"] if not isinstance(c["rank"], list) else list(c["rank"])
    sp = list(c["sparsity"]) if isinstance(c["sparsity"], list) else c["sparsity"]
    res = non_negative_tucker_hals(x.copy(), rank, n_iter_max=c["n_iter"], init=_tucker_init(c), tol=c["tol"],
                                   random_state=c["seed"], normalize_factors=c["normalize"],
                                   sparsity_coefficients=sp, core_sparsity_coefficient=c["core_sparsity"],
                                   exact=False, algorithm=c["alg"])
    # N1 signature (fista learning rate 1/sigma1(0) = inf once a whole factor is zero): own root-cause bucket
    try:
        core, facs = res
        if c["alg"] == "fista" and np.isnan(np.asarray(core)).any() and any(not np.any(np.asarray(f)) for f in facs):
            raise Fail("nonneg/hals_tucker_fista/core/nan_with_zero_factor",
                       "core has NaN entries and a returned factor is entirely zero")
    except (TypeError, ValueError):
        pass
    out = _check_tucker(res, x, c, f"nonneg/hals_tucker_{c['alg']}")
    out["labels"] += [f"sparsity={'none' if sp is None else type(sp).__name__}", f"core_sp={c['core_sparsity'] is not None}"]
    return out


# ---- constrained_parafac(non_negative=...) -------------------------------------------
@st.composite
def _constrained_case(draw, form, inits=("svd", "random", "user"), force_fixed=False):
    x = draw(X.data(3, 4, 2, 4))
    _draw_scale(draw, x)
    shape = x["s"]
    nd = len(shape)
    rank = draw(st.integers(1, 3))
    init = draw(st.sampled_from(list(inits)))
    c = {"x": x, "rank": rank, "init": init, "seed": draw(st.integers(0, 10 ** 6)),
         "n_iter": draw(st.integers(0, 4)), "n_inner": draw(st.integers(1, 10)),
         "tol": draw(st.sampled_from([0, 1e-8, 1e-1])), "form": form}
    if form == "true":
        c["modes"] = list(range(nd))
    else:
        c["modes"] = draw(st.lists(st.integers(0, nd - 1), unique=True, min_size=1, max_size=nd).map(sorted))
    if init == "user":
        c["uinit"] = draw(X.nn_cp_init(shape, rank))
        c["fixed"] = draw(st.one_of(st.none(), st.lists(st.integers(0, nd - 1), unique=True, max_size=nd - 1).map(sorted)))
        if force_fixed:
            # user init + a non-empty set of fixed modes (never the last) + at least one sweep + a strict subset of declared
            # modes: the updated modes then sit at positions different from their mode index (per-mode bookkeeping class)
            c["fixed"] = draw(st.lists(st.integers(0, nd - 2), unique=True, min_size=1, max_size=nd - 1).map(sorted))
            c["n_iter"] = max(1, c["n_iter"])
            free = [m for m in range(nd) if m not in c["fixed"]]
            keep = draw(st.lists(st.sampled_from(free), unique=True, min_size=1, max_size=len(free)).map(sorted))
            c["modes"] = keep if form != "true" else c["modes"]
    return c


def o_constrained(c):
    x = _data(c)
    nd = x.ndim
    if c["form"] == "true":
        spec = True
    else:
        spec = {int(m): True for m in c["modes"]}
    kw = {}
    if c.get("fixed") is not None:
        kw["fixed_modes"] = list(c["fixed"])
    np.random.seed(c["seed"] % (2 ** 32))  # init="random" draws from the global RNG on this tree (D10)
    res = constrained_parafac(x.copy(), c["rank"], n_iter_max=c["n_iter"], n_iter_max_inner=c["n_inner"],
                              init=_init_arg(c), tol_outer=c["tol"], random_state=c["seed"], non_negative=spec, **kw)
    _check_cp(res, x.shape, c["rank"], c["modes"], "nonneg/constrained_cp", weights=True)
    neg, zf = X.data_class(x)
    lab = [f"order={nd}", f"data={c['x']['kind']}", f"init={c['init']}", f"n_iter={c['n_iter']}",
           f"nmodes={len(c['modes'])}/{nd}", f"fixed={bool(c.get('fixed'))}", f"scale={c['x'].get('xscale')}"]
    return {"nontrivial": neg or zf >= 0.3 or c["init"] == "user" or len(c["modes"]) < nd, "labels": lab}


# ---- parafac2(nn_modes) ------------------------------------------------------------------
NN_P2 = [[0], [2], [0, 2], "all", [0, 1, 2], [1, 2], [0, 1]]


@st.composite
def _p2_case(draw, iters, inits=("random", "svd", "user_p2", "user_cp"), ls_tol0=False, ls_all=False, ls_end=False):
    n_slices = draw(st.integers(2, 4))
    K = draw(st.integers(2, 4))
    rank = draw(st.integers(1, min(3, K)))
    init = draw(st.sampled_from(list(inits)))
    uniform = draw(st.booleans()) or init == "user_cp"
    J0 = draw(st.integers(rank, 4))
    Js = [J0] * n_slices if uniform else [draw(st.integers(rank, 4)) for _ in range(n_slices)]
    kind = draw(st.sampled_from(["normal", "nonneg", "sparse", "allneg", "int", "lowrank_nonneg", "sparse_p2", "sparse_p2"]))
    c = {"Js": Js, "K": K, "rank": rank, "init": init, "kind": kind, "dseed": draw(gen.seeds),
         "as_array": bool(uniform and draw(st.booleans())),
         "seed": draw(st.integers(0, 10 ** 6)), "n_iter": draw(st.integers(iters[0], iters[1])),
         "tol": draw(st.sampled_from([0, 1e-8, 1e-2])), "normalize": draw(st.booleans()),
         "nn": draw(st.sampled_from(NN_P2)), "linesearch": draw(st.booleans()),
         "n_iter_parafac": draw(st.integers(1, 5)), "xscale": draw(st.sampled_from(SCALES))}
    if init in ("user_p2", "user_cp"):
        c["uA"] = draw(gen.arr([n_slices, rank], kinds=("normal", "posint", "uniform")))
        c["uC"] = draw(gen.arr([K, rank], kinds=("normal", "posint", "uniform")))
        c["uB"] = draw(gen.arr([rank if init == "user_p2" else J0, rank], kinds=("normal", "int")))
        c["uw"] = draw(st.sampled_from(["none", "ones", "pos"]))
        c["pseed"] = draw(gen.seeds)
    if ls_end:
        # first-class citizen: runs that END on a line-search sweep (even sweep index > 5, i.e. caps 7 / 9 / 11 / 13 reached
        # with a tiny tolerance) with a single declared mode well represented, on data generated from sparse non-negative
        # PARAFAC2 factors (entries of A / C that converge to 0 from above are overshot by the extrapolation)
        c["linesearch"] = True
        c["n_iter"] = draw(st.sampled_from([7, 7, 7, 9, 9, 11, 13]))
        c["tol"] = draw(st.sampled_from([1e-14, 1e-12, 0]))
        c["nn"] = draw(st.sampled_from([[0], [0], [0], [0], [0], [2], [2], [0, 2], [0, 1, 2], "all", [0, 1], [1, 2]]))
        c["nn_tuple"] = draw(st.booleans())
        c["kind"] = draw(st.sampled_from(["sparse_p2", "sparse_p2", "sparse_p2", "sparse_p2", "lowrank_nonneg", "nonneg"]))
        c["noise"] = draw(st.sampled_from([0.0, 0.0, 1e-3, 1e-2, 1e-1]))
        c["n_iter_parafac"] = draw(st.sampled_from([1, 1, 2, 2, 3]))
        # measured under a "line-search iterate not clipped" change: rank 1 never overshoots, ranks 2-3 do
        if c["rank"] == 1 and draw(st.integers(0, 7)) > 0:
            c["rank"] = min(2, K)
            c["Js"] = [max(j, c["rank"]) for j in c["Js"]]
            for key in ("uA", "uC", "uB", "uw", "pseed"):
                c.pop(key, None)
            if c["init"].startswith("user"):
                c["init"] = "random"
    if ls_all:       # regression class of N5 (fixed): nn_modes="all" + a line-search iteration
        c["linesearch"], c["nn"], c["n_iter"] = True, "all", max(c["n_iter"], 7)
        if c["tol"] == 0:
            c["tol"] = 1e-12
    if ls_tol0:      # regression class of N3 (fixed): line search + falsy tol + a line-search iteration
        c["linesearch"], c["tol"], c["n_iter"] = True, 0, max(c["n_iter"], 7)
    return c


def _p2_slices(c):
    rs = np.random.RandomState(c["dseed"] % (2 ** 32))
    n, K, r = len(c["Js"]), c["K"], c["rank"]
    k = c["kind"]
    out = []
    if k == "sparse_p2":
        # sparse non-negative PARAFAC2 factors: A and C have exact zeros (every column keeps a non-zero), B_i = P_i B
        A = np.abs(rs.standard_normal((n, r))) * (rs.uniform(size=(n, r)) < 0.6)
        C = np.abs(rs.standard_normal((K, r))) * (rs.uniform(size=(K, r)) < 0.7)
        for M in (A, C):
            for j in range(r):
                if not M[:, j].any():
                    M[rs.randint(M.shape[0]), j] = 1.0
        B = rs.standard_normal((r, r))
        for i, J in enumerate(c["Js"]):
            P = gen.orthonormal(int(rs.randint(0, 2 ** 31 - 1)), J, r)
            sl = P @ B @ np.diag(A[i]) @ C.T
            out.append(sl + c.get("noise", 0.0) * rs.standard_normal(sl.shape))
        return out
    if k == "lowrank_nonneg":
        A = np.abs(rs.standard_normal((n, r))) + 0.1
        C = np.abs(rs.standard_normal((K, r)))
        for i, J in enumerate(c["Js"]):
            Bi = np.abs(rs.standard_normal((J, r)))
            out.append(Bi @ np.diag(A[i]) @ C.T)
        return out
    for J in c["Js"]:
        a = rs.standard_normal((J, K))
        if k == "nonneg":
            a = np.abs(a)
        elif k == "sparse":
            a = a * (rs.uniform(size=a.shape) < 0.5)
        elif k == "allneg":
            a = -np.abs(a) - 0.01
        elif k == "int":
            a = rs.randint(-4, 5, a.shape).astype(float)
        out.append(a)
    return out


def o_p2(c):
    slices = _p2_slices(c)
    if c.get("xscale") is not None:
        slices = [s * c["xscale"] for s in slices]
    if not any(np.any(s) for s in slices):
        discard("zero tensor")
    data = np.stack(slices) if c["as_array"] else [s.copy() for s in slices]
    n, K, r = len(slices), c["K"], c["rank"]
    init = c["init"]
    if init in ("user_p2", "user_cp"):
        A, C = np.abs(gen.dec(c["uA"])), np.abs(gen.dec(c["uC"]))
        B = gen.dec(c["uB"])
        w = {"none": None, "ones": np.ones(r), "pos": np.arange(1, r + 1) / 2.0}[c["uw"]]
        if init == "user_p2":
            projs = [gen.orthonormal(c["pseed"] + i, J, r) for i, J in enumerate(c["Js"])]
            init = (w, [A, B, C], projs)
        else:
            init = (w, [A, B, C])
    nn = c["nn"] if c["nn"] == "all" else list(c["nn"])
    if c.get("nn_tuple") and nn != "all":
        nn = tuple(nn)
    res = parafac2(data, r, n_iter_max=c["n_iter"], init=init, normalize_factors=c["normalize"], tol=c["tol"],
                   nn_modes=nn, random_state=c["seed"], n_iter_parafac=c["n_iter_parafac"],
                   linesearch=c["linesearch"])
    try:
        w_out, facs, projs_out = res
        facs = list(facs)
    except Exception:  # noqa
        raise Fail("nonneg/parafac2/structure", f"result is not (weights, factors, projections): {type(res).__name__}")
    check(len(facs) == 3, "nonneg/parafac2/structure", f"{len(facs)} factors")
    declared = [0, 1, 2] if nn == "all" else nn
    inspected = [m for m in declared if m in (0, 2)]
    for m in inspected:
        X.assert_nonneg(facs[m], "nonneg/parafac2", f"factor[{m}]", shape=((n, r) if m == 0 else (K, r)))
    neg = c["kind"] in ("normal", "sparse", "allneg", "int")
    return {"nontrivial": True,
            "labels": [f"data={c['kind']}", f"init={c['init']}", f"n_iter={c['n_iter']}", f"nn={c['nn']}",
                       f"linesearch={c['linesearch']}", f"ls_reached={c['linesearch'] and c['n_iter'] >= 7}",
                       f"normalize={c['normalize']}", f"neg_data={neg}", f"scale={c.get('xscale')}"]}


# ----------------------------------------------------------------------------
# open known finding KF-C10-1 (N2): parafac2 with the SVD initialisation and a zero iteration budget returns the
# signed SVD factor C although mode 2 was declared non-negative.  Recognised from the case alone.
def _kf_parafac2_svd_zero_budget(sub_name, case, info):
    if not sub_name.startswith("parafac2/"):
        return False
    nn = case.get("nn")
    return (case.get("init") == "svd" and case.get("n_iter") == 0
            and (nn == "all" or (isinstance(nn, list) and 2 in nn)))


KNOWN_CLASSES = {"parafac2_svd_init_zero_budget": _kf_parafac2_svd_zero_budget}


def subchecks(tier):
    S = []
    # multiplicative CP
    S.append(SubCheck("nncp_mu/random_user", _mu_case(("random", "user")), o_mu, quick=300, thorough=2000, discard_exc=LIN))
    S.append(SubCheck("nncp_mu/svd", _mu_case(("svd",)), o_mu, quick=300, thorough=2000, discard_exc=LIN))
    # HALS CP
    S.append(SubCheck("nncp_hals/random_user/all", _hals_case(("random", "user"), "all"), o_hals, quick=200, thorough=1500, discard_exc=LIN))
    S.append(SubCheck("nncp_hals/random_user/subset", _hals_case(("random", "user"), "subset"), o_hals, quick=200, thorough=1500, discard_exc=LIN))
    S.append(SubCheck("nncp_hals/user_fixed/subset", _hals_case(("user",), "subset", force_fixed=True), o_hals, quick=150, thorough=1000, discard_exc=LIN))
    S.append(SubCheck("nncp_hals/svd/all", _hals_case(("svd",), "all"), o_hals, quick=200, thorough=1500, discard_exc=LIN))
    S.append(SubCheck("nncp_hals/svd/subset", _hals_case(("svd",), "subset"), o_hals, quick=200, thorough=1500, discard_exc=LIN))
    # Tucker
    S.append(SubCheck("nntucker_mu/random_user", _tucker_case(("random", "user")), o_tucker_mu, quick=250, thorough=2000, discard_exc=LIN))
    S.append(SubCheck("nntucker_mu/svd", _tucker_case(("svd",)), o_tucker_mu, quick=250, thorough=2000, discard_exc=LIN))
    for alg in ("fista", "active_set"):
        # signed data can drive a whole factor to zero (N1 for fista): kept apart from non-negative data
        # active set: all-negative data always ends in a zero factor and a singular solve (LinAlgError = discard),
        # so that class gets a lower weight there to keep the discard rate well below 50 %
        signed = SIGNED_KINDS if alg == "fista" else ("normal", "normal", "sparse", "int", "int", "lowrank", "allneg")
        for dk, kinds in (("nonneg_data", NONNEG_KINDS), ("signed_data", signed)):
            S.append(SubCheck(f"nntucker_hals/{alg}/random_user/{dk}", _tucker_case(("random", "user"), True, alg, kinds),
                              o_tucker_hals, quick=120, thorough=1000, discard_exc=LIN))
        S.append(SubCheck(f"nntucker_hals/{alg}/svd", _tucker_case(("svd",), True, alg), o_tucker_hals,
                          quick=120, thorough=1000, discard_exc=LIN))
    # constrained CP
    S.append(SubCheck("constrained_cp/true", _constrained_case("true"), o_constrained, quick=250, thorough=2000, discard_exc=LIN))
    S.append(SubCheck("constrained_cp/dict", _constrained_case("dict"), o_constrained, quick=250, thorough=2000, discard_exc=LIN))
    S.append(SubCheck("constrained_cp/user_fixed/dict", _constrained_case("dict", ("user",), force_fixed=True), o_constrained, quick=150, thorough=1000, discard_exc=LIN))
    # PARAFAC2
    S.append(SubCheck("parafac2/nn", _p2_case((0, 9)), o_p2, quick=200, thorough=1500, discard_exc=LIN))
    S.append(SubCheck("parafac2/linesearch_end", _p2_case((7, 13), ls_end=True), o_p2, quick=200, thorough=800, discard_exc=LIN))
    S.append(SubCheck("parafac2/linesearch_tol0", _p2_case((7, 9), ls_tol0=True), o_p2, quick=60, thorough=100, discard_exc=LIN))
    S.append(SubCheck("parafac2/linesearch_nn_all", _p2_case((7, 9), ls_all=True), o_p2, quick=60, thorough=100, discard_exc=LIN))
    return S
