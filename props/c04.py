"""C04 — canonicalising and algebraic transforms preserve the represented tensor.

One sub-check per (transform x clause group).  Every oracle reconstructs the dense tensor
of the input and of the output with the references in vlib.ref (never with tensorly) and
compares them at a cancellation-aware scale (the reconstruction of the absolute values of
the input factors).  Transforms that rebind / write their argument (cp_flip_sign,
cp_permute_factors, *_mode_dot(copy=False)) always receive fresh copies.
"""
import contextlib
import io

import numpy as np
from hypothesis import strategies as st

import tensorly as tl
from tensorly import cp_tensor as CP
from tensorly import tucker_tensor as TK
from tensorly import parafac2_tensor as P2
from tensorly import tt_tensor as TT
from tensorly import tr_tensor as TR
from tensorly import preprocessing as PP

from vlib import gen, ref, snap
from vlib.engine import SubCheck, check, fail, discard, Fail
from vlib.cmp import close, as_array, assert_shape
from vlib.util import tenalg_backend, TENALG_BACKENDS

PROPERTY = "C04"
RULE = ("Hypothesis draws CP (order 2-4, sides 1-4, rank 1-4 -- thorough tier: 2-5, 1-5, 1-5; weights None/ones/positive/negative/mixed/with zeros; tuple or "
        "wrapper), Tucker (order 2-4, per-mode ranks 1-3 incl. rank > side), TT / TR / TT-matrix cores (ranks 1-3) and PARAFAC2 "
        "(1-4 slices, uneven J_i in [R, R+3], orthonormal projections) factor sets with explicit small-integer or seeded Gaussian "
        "data, then *forces* degenerate classes by recorded edits: zero columns, integer columns summing to 0, duplicated columns, "
        "negated columns, rank 1.  Each transform is applied to a fresh copy; the oracle reconstructs input and output densely with "
        "np.einsum/tensordot references and compares at rel 1e-9 x (reconstruction of |factors|), then checks the advertised "
        "canonical form (unit-norm or untouched zero columns, weights >= 0, non-negative column summaries, ranks = old + n_padding, "
        "orthonormal projections, aligned components) or, for mode products, equality with the reference mode product of the dense "
        "input for every mode / matrix / vector / keep_dim / copy option.  Non-trivial: a forced degenerate class is present, or "
        "rank >= 2 and order >= 3 (for TT/TR: some internal rank >= 2); distinct = distinct case hash.")
ASSUMPTIONS = ["NumPy einsum / tensordot / linalg.norm / linalg.svd are correct",
               "Hypothesis generates what its strategies describe",
               "deep copies handed to mutating transforms (cp_flip_sign, cp_permute_factors, copy=False mode products); caller-side mutation is C15's business"]

REL = 1e-9

# size bounds; subchecks(tier) enlarges them for the thorough tier (read at draw time)
_B = {"order": 4, "side": 4, "rank": 4, "trank": 3}


# ----------------------------------------------------------------------------
# generation helpers
# ----------------------------------------------------------------------------
# "tiny" classes: a column (or the whole tensor) whose norm is far below the machine epsilon of the working precision but not zero
_TINY = {"float64": 1e-18, "float32": 1e-8}


def _tol(case):
    """(rel for dense comparisons, unit-norm tolerance, collinearity tolerance) of the working precision"""
    return (REL, 1e-10, 1e-9) if case.get("dtype", "float64") == "float64" else (5e-5, 2e-5, 2e-5)


def _f64(xs):
    return [np.asarray(x, dtype=np.float64) for x in xs]


def _round_to(case, x):
    """values representable in the working precision, held in float64 for the references"""
    dt = case.get("dtype", "float64")
    return x if (x is None or dt == "float64") else np.asarray(x).astype(dt).astype(np.float64)


def _cast(case, x):
    return None if x is None else np.array(x, dtype=case.get("dtype", "float64"))


def _tiny_comps(case):
    """(mode, column, 1/t) for every 'tiny' edit: the caller scales a weight / core slice / partner column up so that the tensor stays O(1)"""
    t = _TINY[case.get("dtype", "float64")]
    return [(e[1], e[2], 1.0 / t) for e in case.get("edits", []) if e[0] == "tiny"]


def _apply_edits(factors, edits, dtype="float64"):
    """force degenerate classes on decoded factor matrices (in place on fresh arrays)"""
    t = _TINY[dtype]
    done_all = False
    for e in edits:
        op, j, r = e[0], e[1], e[2]
        f = factors[j]
        if op == "tiny":               # one column with norm << eps (compensated by the caller, see _tiny_comps)
            f[:, r] = f[:, r] * t
        elif op == "tinyall":          # whole tensor at a tiny scale, applied once (float32: three factors at most; both to stay clear of underflow)
            if not done_all:
                for g in factors[:len(factors) if dtype == "float64" else 3]:
                    g *= t
            done_all = True
        elif op == "zero":
            f[:, r] = 0
        elif op == "zmean":            # integer column with sum exactly 0
            col = np.rint(f[:, r] * 2)
            col[-1] = -col[:-1].sum()
            if not col.any() and col.size >= 2:
                col[0], col[-1] = 1, -1
            f[:, r] = col
        elif op == "dup":
            f[:, r] = f[:, e[3]]
        elif op == "neg":
            f[:, r] = -np.abs(f[:, r])
    return factors


@st.composite
def _edits(draw, n_modes, rank, kinds=("zero", "zmean", "dup", "neg"), max_edits=2, p_none=0.3):
    # Hypothesis favours the minimal value of a draw: make "no edit" the non-minimal outcome
    if draw(st.integers(0, 9)) >= 10 - int(round(p_none * 10)):
        return []
    out = []
    for _ in range(draw(st.integers(1, max_edits))):
        op = draw(st.sampled_from(list(kinds)))
        j = draw(st.integers(0, n_modes - 1))
        r = draw(st.integers(0, rank - 1))
        if op == "dup":
            if rank < 2:
                op, e = "zero", ["zero", j, r]
            else:
                r2 = draw(st.integers(0, rank - 2))
                r2 = r2 if r2 < r else r2 + 1
                e = ["dup", j, r, r2]
        else:
            e = [op, j, r]
        out.append(e)
    return out


@st.composite
def _cp_case(draw, min_order=2, max_order=None, max_side=None, max_rank=None, edit_kinds=("zero", "zmean", "dup", "neg"),
             weights=("none", "ones", "pos", "neg", "mixed", "zero"), forms=("tuple", "wrapper"), min_side=1, dtypes=None):
    shape = draw(gen.shapes(min_order, max_order or _B["order"], min_side, max_side or _B["side"]))
    rank = draw(st.integers(1, max_rank or _B["rank"]))
    cp = draw(gen.cp_factors(shape, rank, weights=weights))
    c = {"shape": shape, "rank": rank, "cp": cp, "edits": draw(_edits(len(shape), rank, edit_kinds)),
         "form": draw(st.sampled_from(list(forms)))}
    if dtypes:
        c["dtype"] = draw(st.sampled_from(list(dtypes)))
    return c


def _cp_build(case):
    w, fs = gen.dec_cp(case["cp"])
    fs = _apply_edits([np.array(f, dtype=float) for f in fs], case.get("edits", []), case.get("dtype", "float64"))
    for j, r, up in _tiny_comps(case):
        if w is not None:
            w[r] = w[r] * up
        else:
            fs[(j + 1) % len(fs)][:, r] *= up
    return _round_to(case, w), [_round_to(case, f) for f in fs]


def _cp_obj(case, w, fs):
    """fresh library input (tuple or CPTensor) holding copies"""
    t = (_cast(case, w), [_cast(case, f) for f in fs])
    if case["form"] == "wrapper":
        return CP.CPTensor(t)
    return t


def _cp_scale(w, fs):
    return float(np.max(ref.cp_dense(None if w is None else np.abs(w), [np.abs(f) for f in fs]))) if all(f.size for f in fs) else 1.0


def _cp_labels(case, extra=()):
    kinds = sorted({e[0] for e in case.get("edits", [])})
    return [f"order={len(case['shape'])}", f"rank={case['rank']}", f"w={case['cp']['wkind']}", f"form={case['form']}",
            "edits=" + ("+".join(kinds) if kinds else "none"), f"dtype={case.get('dtype', 'float64')}"] + list(extra)


def _cp_nontrivial(case):
    return bool(case.get("edits")) or (case["rank"] >= 2 and len(case["shape"]) >= 3)


def _unpack_cp(res, clause, n_modes, rank):
    """(weights, factors) of a library result, shape-checked"""
    try:
        w, fs = res
    except Exception:
        raise Fail(clause + "/structure", f"result {type(res).__name__} is not a (weights, factors) pair")
    check(len(fs) == n_modes, clause + "/structure", lambda: f"{len(fs)} factors, expected {n_modes}")
    fs = [as_array(f, clause + "/structure") for f in fs]
    for f in fs:
        check(f.ndim == 2 and f.shape[1] == rank, clause + "/structure", lambda: f"factor shape {f.shape}, rank {rank}")
    if w is not None:
        w = assert_shape(w, (rank,), clause + "/structure")
    return w, fs


def _colnorms(f):
    return np.sqrt(np.sum(np.abs(f) ** 2, axis=0))


def _check_unit_or_zero(out_f, in_f, clause, unit=1e-10, col=1e-9):
    """columns of out_f have unit norm where the input column is non-zero (and are collinear with
    it), and are exactly zero where the input column is zero"""
    nin = _colnorms(in_f)
    nout = _colnorms(out_f)
    for r in range(in_f.shape[1]):
        if nin[r] == 0:
            check(nout[r] == 0, clause + "/zero-col", lambda: f"zero input column {r} became norm {nout[r]:.3e}")
        else:
            check(abs(nout[r] - 1) <= unit, clause + "/unit-norm", lambda: f"column {r} has norm {nout[r]!r} (input column norm {nin[r]:.3e})")
            c = abs(float(np.dot(out_f[:, r], in_f[:, r] / nin[r])))
            check(abs(c - 1) <= col, clause + "/collinear", lambda: f"column {r}: |cos| with input column = {c!r}")


# ----------------------------------------------------------------------------
# CP normalise
# ----------------------------------------------------------------------------
def _o_cp_normalize(part, method):
    def oracle(case):
        w, fs = _cp_build(case)
        dense = ref.cp_dense(w, fs)
        scale = _cp_scale(w, fs)
        if method:
            obj = CP.CPTensor((_cast(case, np.ones(case["rank"]) if w is None else w), [_cast(case, f) for f in fs]))
            ret = obj.normalize()
            res = obj
            check(ret is None or isinstance(ret, CP.CPTensor), "normalize/return", lambda: f"returned {type(ret).__name__}")
        else:
            res = CP.cp_normalize(_cp_obj(case, w, fs))
        rel, unit, col = _tol(case)
        ow, ofs = _unpack_cp(res, "cp_normalize", len(fs), case["rank"])
        check(ow is not None, "cp_normalize/structure", "weights None after normalisation")
        ow, ofs = np.asarray(ow, dtype=np.float64), _f64(ofs)
        if part == "dense":
            close(ref.cp_dense(ow, ofs), dense, "cp_normalize/dense", rel=rel, scale=scale)
        else:
            win = np.ones(case["rank"]) if w is None else w
            check(bool(np.all(ow >= 0)), "cp_normalize/weights-nonneg", lambda: f"weights {ow.tolist()}")
            for j, (o, f) in enumerate(zip(ofs, fs)):
                assert_shape(o, f.shape, "cp_normalize/structure")
                if j == 0:
                    # the input weights are absorbed somewhere; a zero weight makes the whole component zero, so for
                    # such components a zero column and a unit column are both acceptable in mode 0
                    nz = win != 0
                    nout = _colnorms(o)
                    for r in range(case["rank"]):
                        if not nz[r]:
                            check(nout[r] == 0 or abs(nout[r] - 1) <= unit, "cp_normalize/mode0/unit-norm",
                                  lambda: f"mode 0 column {r} has norm {nout[r]!r}")
                    _check_unit_or_zero(o[:, nz], f[:, nz], "cp_normalize/mode0", unit, col)
                else:
                    _check_unit_or_zero(o, f, "cp_normalize/modek", unit, col)
            # scale moved to the weights: |w| * prod of column norms (asserted for components without a zero column;
            # for the others the dense clause already forces weight * columns = 0)
            norms = np.prod([_colnorms(f) for f in fs], axis=0)
            want = np.abs(win) * norms
            full = want != 0
            close(ow[full], want[full], "cp_normalize/weights-value", rel=rel, scale=float(np.max(want)) if want.size and np.max(want) > 0 else 1.0)
        return {"nontrivial": _cp_nontrivial(case), "labels": _cp_labels(case)}
    return oracle


def o_cp_normalize_returns(case):
    """CPTensor.normalize documents `inplace` and a CPTensor return value ("returns itself ... a normalized copy")"""
    w, fs = _cp_build(case)
    dense = ref.cp_dense(w, fs)
    scale = _cp_scale(w, fs)
    obj = CP.CPTensor((_cast(case, np.ones(case["rank"]) if w is None else w), [_cast(case, f) for f in fs]))
    rel, unit, col = _tol(case)
    before = snap.freeze(obj)
    ret = obj.normalize() if case["inplace"] == "default" else obj.normalize(inplace=case["inplace"])
    check(ret is not None, "CPTensor.normalize/returns-cp-tensor", lambda: f"normalize(inplace={case['inplace']}) returned None")
    if case["inplace"] is False:
        # "if False, returns a normalized Copy": the object itself is left as it was
        d = snap.diff(before, snap.freeze(obj))
        check(d is None, "CPTensor.normalize/inplace-false-leaves-self", lambda: d)
        check(ret is not obj, "CPTensor.normalize/inplace-false-returns-copy", "returned the object itself")
    else:
        # "otherwise the tensor modifies itself and returns itself"
        check(ret is obj, "CPTensor.normalize/inplace-true-returns-self", lambda: f"returned a different object ({type(ret).__name__})")
    ow, ofs = _unpack_cp(ret, "CPTensor.normalize", len(fs), case["rank"])
    ow, ofs = np.asarray(ow, dtype=np.float64), _f64(ofs)
    close(ref.cp_dense(ow, ofs), dense, "CPTensor.normalize/returned-dense", rel=rel, scale=scale)
    for o in ofs:
        n = _colnorms(o)
        check(bool(np.all((n == 0) | (np.abs(n - 1) <= unit))), "CPTensor.normalize/returned-unit-norm", lambda: f"column norms {n.tolist()}")
    # whatever `inplace`, the object itself keeps representing the same tensor
    sw, sfs = _unpack_cp(obj, "CPTensor.normalize", len(fs), case["rank"])
    close(ref.cp_dense(np.asarray(sw, dtype=np.float64), _f64(sfs)), dense, "CPTensor.normalize/self-dense", rel=rel, scale=scale)
    return {"nontrivial": _cp_nontrivial(case), "labels": _cp_labels(case, [f"inplace={case['inplace']}"])}


# ----------------------------------------------------------------------------
# CP flip sign
# ----------------------------------------------------------------------------
_FUNCS = {"default": None, "mean": tl.mean, "sum": tl.sum}
_NPFUNCS = {"default": np.mean, "mean": np.mean, "sum": np.sum}


@st.composite
def _flip_case(draw, zero_summary):
    """zero_summary=True forces an integer zero-sum column in a factor other than `mode` (class D16);
    False generates no zmean edits (accidental zero summaries are skipped by the oracle with a counted label)."""
    kinds = ("zero", "dup", "neg") if not zero_summary else ("zero", "zmean", "dup", "neg")
    c = draw(_cp_case(edit_kinds=kinds, weights=("ones", "pos", "neg", "mixed", "zero")))
    n = len(c["shape"])
    c["mode"] = draw(st.integers(0, n - 1))
    c["func"] = draw(st.sampled_from(["default", "mean", "sum"]))
    if zero_summary:
        j = draw(st.integers(0, n - 2))
        j = j if j < c["mode"] else j + 1
        c["edits"] = list(c["edits"]) + [["zmean", j, draw(st.integers(0, c["rank"] - 1))]]
    return c


def _has_zero_summary(fs, mode, npf):
    return any(bool(np.any(npf(f, axis=0) == 0)) for j, f in enumerate(fs) if j != mode)


def _o_flip(part, zero_summary):
    def oracle(case):
        w, fs = _cp_build(case)
        mode, fname = case["mode"], case["func"]
        zs = _has_zero_summary(fs, mode, _NPFUNCS[fname])
        if not zero_summary and zs:
            # class D16 is searched by its own sub-checks (cp_flip_sign/zero_summary/*)
            return {"nontrivial": False, "labels": ["skipped=zero-summary-column(D16 class)"]}
        dense = ref.cp_dense(w, fs)
        scale = _cp_scale(w, fs)
        kw = {} if fname == "default" else {"func": _FUNCS[fname]}
        res = CP.cp_flip_sign(_cp_obj(case, w, fs), mode=mode, **kw)
        ow, ofs = _unpack_cp(res, "cp_flip_sign", len(fs), case["rank"])
        for o, f in zip(ofs, fs):
            assert_shape(o, f.shape, "cp_flip_sign/structure")
        if part == "dense":
            close(ref.cp_dense(ow, ofs), dense, "cp_flip_sign/dense", rel=REL, scale=scale)
        else:
            check(ow is not None and bool(np.all(ow >= 0)), "cp_flip_sign/weights-nonneg", lambda: f"weights {None if ow is None else ow.tolist()}")
            npf = _NPFUNCS[fname]
            for j, o in enumerate(ofs):
                if j == mode:
                    continue
                s = npf(o, axis=0)
                tol = 1e-12 * max(1.0, float(np.max(np.abs(o))) if o.size else 1.0) * o.shape[0]
                check(bool(np.all(s >= -tol)), "cp_flip_sign/summary-nonneg",
                      lambda: f"func={fname} mode={mode}: factor {j} has column summaries {s.tolist()}")
                # flipping only changes signs of whole columns
                close(np.abs(o), np.abs(fs[j]), "cp_flip_sign/only-signs", rel=1e-12, scale=max(1.0, float(np.max(np.abs(fs[j]))) if o.size else 1.0))
        return {"nontrivial": _cp_nontrivial(case) or zs, "labels": _cp_labels(case, [f"func={fname}", f"mode={mode}", f"zero_summary={zs}"])}
    return oracle


def o_flip_none_weights(case):
    """(None, factors) tuples are an accepted CP form everywhere else (cp_to_tensor, cp_normalize, cp_norm ...)"""
    w, fs = _cp_build(case)
    mode = case["mode"]
    if _has_zero_summary(fs, mode, np.mean):
        return {"nontrivial": False, "labels": ["skipped=zero-summary-column(D16 class)"]}
    dense = ref.cp_dense(None, fs)
    res = CP.cp_flip_sign((None, [f.copy() for f in fs]), mode=mode)
    ow, ofs = _unpack_cp(res, "cp_flip_sign", len(fs), case["rank"])
    close(ref.cp_dense(ow, ofs), dense, "cp_flip_sign/dense", rel=REL, scale=_cp_scale(None, fs))
    return {"nontrivial": True, "labels": _cp_labels(case)}


# ----------------------------------------------------------------------------
# CP permute factors
# ----------------------------------------------------------------------------
@st.composite
def _permute_case(draw):
    c = draw(_cp_case(min_order=2, max_order=3, max_rank=4, edit_kinds=("dup", "neg"), weights=("ones", "pos", "neg", "mixed"),
                      forms=("wrapper",)))
    R, n = c["rank"], len(c["shape"])
    ncop = draw(st.integers(1, 2))
    c["as_list"] = True if ncop == 2 else draw(st.booleans())
    c["copies"] = []
    for _ in range(ncop):
        perm = list(draw(st.permutations(list(range(R)))))
        scal = [[k / 4 for k in draw(st.lists(st.integers(-8, 8).filter(lambda x: x != 0), min_size=R, max_size=R))] for _ in range(n)]
        wsc = [k / 4 for k in draw(st.lists(st.integers(-8, 8).filter(lambda x: x != 0), min_size=R, max_size=R))]
        c["copies"].append({"perm": perm, "scal": scal, "wscal": wsc})
    return c


def _fix_zero_cols(fs):
    """cp_permute_factors (through congruence_coefficient) documents that zero columns are rejected: make every column non-zero"""
    n = 0
    for f in fs:
        for r in range(f.shape[1]):
            if not f[:, r].any():
                f[0, r] = 1.0
                n += 1
    return n


def o_permute(case):
    w, fs = _cp_build(case)
    nfix = _fix_zero_cols(fs)
    R = case["rank"]
    refcp = CP.CPTensor((w.copy(), [f.copy() for f in fs]))
    copies, inputs = [], []
    for cdef in case["copies"]:
        p = cdef["perm"]
        cw = (w * np.array(cdef["wscal"]))[p]
        cf = [(f * np.array(s))[:, p] for f, s in zip(fs, cdef["scal"])]
        copies.append((cw, cf))
        inputs.append(CP.CPTensor((cw.copy(), [x.copy() for x in cf])))
    arg = inputs if case["as_list"] else inputs[0]
    out, perms = CP.cp_permute_factors(refcp, arg)
    if len(inputs) == 1:
        check(not isinstance(out, list), "cp_permute_factors/structure", "single tensor in, list out")
        outs = [out]
    else:
        check(isinstance(out, list) and len(out) == len(inputs), "cp_permute_factors/structure", "list length")
        outs = out
    check(len(perms) == len(inputs), "cp_permute_factors/structure", lambda: f"{len(perms)} permutations for {len(inputs)} tensors")
    for (cw, cf), o, pm in zip(copies, outs, perms):
        ow, ofs = _unpack_cp(o, "cp_permute_factors", len(fs), R)
        pm = [int(x) for x in np.asarray(pm).ravel()]
        check(sorted(pm) == list(range(R)), "cp_permute_factors/is-permutation", lambda: f"{pm}")
        # tensor unchanged
        close(ref.cp_dense(ow, ofs), ref.cp_dense(cw, cf), "cp_permute_factors/dense", rel=REL, scale=_cp_scale(cw, cf))
        # result is the input with columns re-ordered by the returned permutation
        for j in range(len(fs)):
            close(ofs[j], cf[j][:, pm], "cp_permute_factors/perm-applied", rel=0, scale=1.0)
        close(ow, cw[pm], "cp_permute_factors/perm-applied", rel=0, scale=1.0)
        # aligned: component r of the result is collinear with component r of the reference in every mode
        for j in range(len(fs)):
            a, b = fs[j], ofs[j]
            cos = np.abs(np.sum(a * b, axis=0)) / (_colnorms(a) * _colnorms(b))
            check(bool(np.all(np.abs(cos - 1) <= 1e-9)), "cp_permute_factors/aligned",
                  lambda: f"mode {j}: |cos| between reference and permuted components = {cos.tolist()} (perm {pm})")
    nonid = any(c["perm"] != sorted(c["perm"]) for c in case["copies"])
    return {"nontrivial": nonid and R >= 2, "labels": _cp_labels(case, [f"as_list={case['as_list']}", f"ncopies={len(inputs)}", f"zero_cols_fixed={nfix > 0}"])}


# ----------------------------------------------------------------------------
# Tucker normalise
# ----------------------------------------------------------------------------
@st.composite
def _tucker_case(draw, min_order=2, max_order=None, extra_kinds=(), dtypes=None):
    shape = draw(gen.shapes(min_order, min(max_order, _B["order"]) if max_order else _B["order"], 1, _B["side"]))
    ranks = [draw(st.integers(1, _B["trank"])) for _ in shape]
    tk = draw(gen.tucker_factors(shape, ranks))
    edits = []
    if draw(st.integers(0, 9)) < 7:
        for _ in range(draw(st.integers(1, 2))):
            j = draw(st.integers(0, len(shape) - 1))
            r = draw(st.integers(0, ranks[j] - 1))
            op = draw(st.sampled_from(list(extra_kinds) + ["zero", "zmean", "neg", "dup"]))
            if op == "dup":
                if ranks[j] < 2:
                    edits.append(["zero", j, r])
                else:
                    edits.append(["dup", j, r, (r + 1) % ranks[j]])
            else:
                edits.append([op, j, r])
    c = {"shape": shape, "ranks": ranks, "tk": tk, "edits": edits, "form": draw(st.sampled_from(["tuple", "wrapper"]))}
    if dtypes:
        c["dtype"] = draw(st.sampled_from(list(dtypes)))
    return c


def _tucker_build(case):
    core = np.array(gen.dec(case["tk"]["core"]), dtype=float)
    fs = _apply_edits([np.array(gen.dec(f), dtype=float) for f in case["tk"]["factors"]], case["edits"], case.get("dtype", "float64"))
    for j, r, up in _tiny_comps(case):      # the core slice that multiplies the tiny column is scaled up: the tensor stays O(1)
        idx = [slice(None)] * core.ndim
        idx[j] = r
        core[tuple(idx)] *= up
    return _round_to(case, core), [_round_to(case, f) for f in fs]


def _tucker_obj(case, core, fs):
    t = (_cast(case, core), [_cast(case, f) for f in fs])
    return TK.TuckerTensor(t) if case["form"] == "wrapper" else t


def _tucker_scale(core, fs):
    return float(np.max(ref.tucker_dense(np.abs(core), [np.abs(f) for f in fs])))


def _tucker_labels(case, extra=()):
    kinds = sorted({e[0] for e in case["edits"]})
    return [f"order={len(case['shape'])}", f"maxrank={max(case['ranks'])}", f"form={case['form']}",
            "edits=" + ("+".join(kinds) if kinds else "none"), f"dtype={case.get('dtype', 'float64')}",
            f"rank_gt_side={any(r > s for r, s in zip(case['ranks'], case['shape']))}"] + list(extra)


def _tucker_nontrivial(case):
    return bool(case["edits"]) or (max(case["ranks"]) >= 2 and len(case["shape"]) >= 3)


def _unpack_tucker(res, clause, ranks):
    try:
        core, fs = res
    except Exception:
        raise Fail(clause + "/structure", f"result {type(res).__name__} is not a (core, factors) pair")
    core = as_array(core, clause + "/structure")
    fs = [as_array(f, clause + "/structure") for f in fs]
    check(core.ndim == len(fs), clause + "/structure", lambda: f"core ndim {core.ndim} with {len(fs)} factors")
    for i, f in enumerate(fs):
        check(f.ndim == 2 and f.shape[1] == core.shape[i], clause + "/structure", lambda: f"factor {i} shape {f.shape} vs core {core.shape}")
    return core, fs


def _o_tucker_normalize(part, method):
    def oracle(case):
        core, fs = _tucker_build(case)
        dense = ref.tucker_dense(core, fs)
        if method:
            obj = TK.TuckerTensor((_cast(case, core), [_cast(case, f) for f in fs]))
            obj.normalize()
            res = obj
        else:
            res = TK.tucker_normalize(_tucker_obj(case, core, fs))
        rel, unit, col = _tol(case)
        oc, ofs = _unpack_tucker(res, "tucker_normalize", case["ranks"])
        assert_shape(oc, core.shape, "tucker_normalize/structure")
        oc, ofs = np.asarray(oc, dtype=np.float64), _f64(ofs)
        if part == "dense":
            close(ref.tucker_dense(oc, ofs), dense, "tucker_normalize/dense", rel=rel, scale=_tucker_scale(core, fs))
        else:
            for o, f in zip(ofs, fs):
                assert_shape(o, f.shape, "tucker_normalize/structure")
                _check_unit_or_zero(o, f, "tucker_normalize", unit, col)
        return {"nontrivial": _tucker_nontrivial(case), "labels": _tucker_labels(case)}
    return oracle


# ----------------------------------------------------------------------------
# PARAFAC2
# ----------------------------------------------------------------------------
@st.composite
def _p2_case(draw, extra_kinds=(), dtypes=None):
    R = draw(st.integers(1, 3))
    I = draw(st.integers(1, 4))
    K = draw(st.integers(1, 4))
    Js = [draw(st.integers(R, R + 3)) for _ in range(I)]
    kinds = ("int", "normal")
    A = draw(gen.arr([I, R], kinds=kinds))
    B = draw(gen.arr([R, R], kinds=kinds))
    C = draw(gen.arr([K, R], kinds=kinds))
    wk = draw(st.sampled_from(["none", "pos", "mixed", "zero"]))
    if wk == "none":
        w = None
    else:
        lo = {"pos": 1, "mixed": -12, "zero": -4}[wk]
        ws = draw(st.lists(st.integers(lo, 12 if wk != "zero" else 4), min_size=R, max_size=R))
        if wk == "mixed":
            ws = [x if x != 0 else 3 for x in ws]
        w = {"s": [R], "d": [x / 4 for x in ws]}
    c = {"R": R, "Js": Js, "A": A, "B": B, "C": C, "w": w, "wkind": wk, "pseeds": [draw(gen.seeds) for _ in range(I)],
         "edits": draw(_edits(3, R, tuple(extra_kinds) + ("zero", "zmean", "dup", "neg"))), "form": draw(st.sampled_from(["tuple", "wrapper"]))}
    if dtypes:
        c["dtype"] = draw(st.sampled_from(list(dtypes)))
    return c


def _p2_build(case):
    fs = _apply_edits([np.array(gen.dec(case[k]), dtype=float) for k in "ABC"], case["edits"], case.get("dtype", "float64"))
    w = gen.dec(case["w"]) if case["w"] is not None else None
    for j, r, up in _tiny_comps(case):
        if w is not None:
            w[r] = w[r] * up
        else:
            fs[(j + 1) % 3][:, r] *= up
    projs = [gen.orthonormal(s, J, case["R"]) for s, J in zip(case["pseeds"], case["Js"])]
    return _round_to(case, w), [_round_to(case, f) for f in fs], [_round_to(case, p) for p in projs]


def _p2_scale(w, fs, projs):
    aw = None if w is None else np.abs(w)
    sl = ref.parafac2_slices(aw, np.abs(fs[0]), np.abs(fs[1]), np.abs(fs[2]), [np.abs(p) for p in projs])
    return max(float(np.max(s)) if s.size else 0.0 for s in sl)


def _p2_labels(case):
    kinds = sorted({e[0] for e in case["edits"]})
    return [f"R={case['R']}", f"I={len(case['Js'])}", f"w={case['wkind']}", f"form={case['form']}",
            f"uneven={len(set(case['Js'])) > 1}", "edits=" + ("+".join(kinds) if kinds else "none"), f"dtype={case.get('dtype', 'float64')}"]


def _unpack_p2(res, clause, I, R):
    try:
        w, fs, projs = res
        A, B, C = fs
    except Exception:
        raise Fail(clause + "/structure", f"result {type(res).__name__} is not (weights, (A, B, C), projections)")
    A, B, C = (as_array(x, clause + "/structure") for x in (A, B, C))
    projs = [as_array(p, clause + "/structure") for p in projs]
    check(len(projs) == I and A.shape == (I, R) and B.shape[1] == R and C.ndim == 2 and C.shape[1] == R,
          clause + "/structure", lambda: f"A{A.shape} B{B.shape} C{C.shape} n_proj={len(projs)}")
    for p in projs:
        check(p.ndim == 2 and p.shape[1] == B.shape[0], clause + "/structure", lambda: f"projection {p.shape} vs B {B.shape}")
    if w is not None:
        w = assert_shape(w, (R,), clause + "/structure")
    return w, (A, B, C), projs


def _check_orthonormal(p, clause, tol=1e-9):
    p = np.asarray(p, dtype=np.float64)
    g = p.T @ p
    d = float(np.max(np.abs(g - np.eye(g.shape[0])))) if g.size else 0.0
    check(d <= tol, clause, lambda: f"max|P^T P - I| = {d:.3e}")


def _o_p2_normalise(part):
    def oracle(case):
        w, fs, projs = _p2_build(case)
        slices = ref.parafac2_slices(w, fs[0], fs[1], fs[2], projs)
        t = (_cast(case, w), [_cast(case, f) for f in fs], [_cast(case, p) for p in projs])
        arg = P2.Parafac2Tensor(t) if case["form"] == "wrapper" else t
        res = P2.parafac2_normalise(arg)
        rel, unit, col = _tol(case)
        ow, (A, B, C), op = _unpack_p2(res, "parafac2_normalise", len(projs), case["R"])
        ow = None if ow is None else np.asarray(ow, dtype=np.float64)
        (A, B, C), op = _f64((A, B, C)), _f64(op)
        if part == "dense":
            got = ref.parafac2_slices(ow, A, B, C, op)
            sc = _p2_scale(w, fs, projs)
            for i, (g, s) in enumerate(zip(got, slices)):
                close(g, s, "parafac2_normalise/slices", rel=rel, scale=sc)
        else:
            check(ow is not None and bool(np.all(ow >= 0)), "parafac2_normalise/weights-nonneg", lambda: f"{ow}")
            win = np.ones(case["R"]) if w is None else w
            nz = win != 0
            _check_unit_or_zero(A[:, nz], fs[0][:, nz], "parafac2_normalise/A", unit, col)
            nA = _colnorms(A)
            check(bool(np.all((nA[~nz] == 0) | (np.abs(nA[~nz] - 1) <= unit))), "parafac2_normalise/A/unit-norm", lambda: f"{nA}")
            _check_unit_or_zero(B, fs[1], "parafac2_normalise/B", unit, col)
            _check_unit_or_zero(C, fs[2], "parafac2_normalise/C", unit, col)
            for p, p0 in zip(op, projs):
                _check_orthonormal(p, "parafac2_normalise/projections-orthonormal", 1e-9 if unit < 1e-9 else 1e-5)
                close(p, p0, "parafac2_normalise/projections-unchanged", rel=1e-12, scale=1.0)
        return {"nontrivial": bool(case["edits"]) or case["R"] >= 2, "labels": _p2_labels(case)}
    return oracle


@st.composite
def _from_cp_case(draw):
    R = draw(st.integers(1, 4))
    shape = [draw(st.integers(1, 4)), draw(st.integers(R, R + 3)), draw(st.integers(1, 4))]
    cp = draw(gen.cp_factors(shape, R))
    return {"shape": shape, "rank": R, "cp": cp, "edits": draw(_edits(3, R)), "form": draw(st.sampled_from(["tuple", "wrapper"])),
            "ok_flag": draw(st.booleans())}


def o_from_cp(case):
    w, fs = _cp_build(case)
    dense = ref.cp_dense(w, fs)
    arg = _cp_obj(case, w, fs)
    res = P2.Parafac2Tensor.from_CPTensor(arg, parafac2_tensor_ok=case["ok_flag"])
    check(isinstance(res, P2.Parafac2Tensor), "from_CPTensor/structure", lambda: f"returned {type(res).__name__}")
    I, R = case["shape"][0], case["rank"]
    ow, (A, B, C), projs = _unpack_p2(res, "from_CPTensor", I, R)
    for p in projs:
        check(p.shape[0] == case["shape"][1], "from_CPTensor/structure", lambda: f"projection rows {p.shape[0]} != J {case['shape'][1]}")
        _check_orthonormal(p, "from_CPTensor/projections-orthonormal")
    got = ref.parafac2_slices(ow, A, B, C, projs)
    sc = _cp_scale(w, fs)
    for i, g in enumerate(got):
        close(g, dense[i], "from_CPTensor/slices", rel=REL, scale=sc)
    check(tuple(res.shape) == tuple((case["shape"][1], case["shape"][2]) for _ in range(I)) and res.rank == R,
          "from_CPTensor/shape-rank", lambda: f"shape {res.shape} rank {res.rank}")
    return {"nontrivial": _cp_nontrivial(case), "labels": _cp_labels(case, [f"J-R={case['shape'][1] - R}"])}


# ---- SVD compression --------------------------------------------------------
@st.composite
def _compress_case(draw):
    # forced share (seed-independence pass, seeded change C04-r3m2): uneven slices whose FIRST slice is short (rows < columns)
    # while a later slice is taller and has a larger rank than the first slice has rows
    short_first = draw(st.integers(0, 2)) == 0
    K = draw(st.integers(2 if short_first else 1, 4))
    I = draw(st.integers(2 if short_first else 1, 3))
    J0 = draw(st.integers(1, K - 1)) if short_first else None
    tall = draw(st.integers(1, I - 1)) if short_first else None
    slices = []
    for i in range(I):
        if short_first and i == 0:
            J = J0
            r = draw(st.integers(0, J0))
        elif short_first and i == tall:
            J = draw(st.integers(J0 + 1, 6))
            r = draw(st.integers(J0 + 1, min(J, K)))
        else:
            J = draw(st.integers(1, 6))
            r = draw(st.integers(0, min(J, K)))       # exact rank bound of the slice (0 = zero slice)
        if r == 0:
            slices.append({"J": J, "r": 0})
        else:
            slices.append({"J": J, "r": r, "L": draw(gen.arr([J, r], kinds=("int", "normal"))),
                           "Rt": draw(gen.arr([r, K], kinds=("int", "normal")))})
    rmax = max(s["r"] for s in slices)
    mr = draw(st.sampled_from(["none", "ge_rank", "big"]))
    max_rank = None if mr == "none" else (draw(st.integers(max(rmax, 1), max(K, rmax, 1))) if mr == "ge_rank" else draw(st.integers(K, K + 3)))
    return {"K": K, "slices": slices, "max_rank": max_rank, "thr": draw(st.sampled_from([0.0, 0, 1e-12, "default"])),
            "R": draw(st.integers(1, 3)), "pseeds": [draw(gen.seeds) for _ in range(I)], "fseed": draw(gen.seeds),
            "w": draw(st.sampled_from(["none", "mixed"]))}


def _slices_of(case):
    out = []
    for s in case["slices"]:
        if s["r"] == 0:
            out.append(np.zeros((s["J"], case["K"])))
        else:
            out.append(gen.dec(s["L"]) @ gen.dec(s["Rt"]))
    return out


def _o_compress(part):
    def oracle(case):
        X = _slices_of(case)
        K = case["K"]
        kw = {}
        if case["thr"] != "default":
            kw["compression_threshold"] = case["thr"]
        if case["max_rank"] is not None:
            kw["max_rank"] = case["max_rank"]
        scores, loadings = PP.svd_compress_tensor_slices([x.copy() for x in X], **kw)
        check(len(scores) == len(X) and len(loadings) == len(X), "svd_compress/structure", "list lengths")
        ncomp = 0
        for i, x in enumerate(X):
            s = as_array(scores[i], "svd_compress/structure")
            check(s.ndim == 2 and s.shape[1] == K, "svd_compress/structure", lambda: f"score {i} shape {s.shape}")
            sc = max(float(np.linalg.norm(x, 2)) if x.size else 0.0, 1e-300)
            limit = K if case["max_rank"] is None else min(K, case["max_rank"])
            if part == "roundtrip":
                check(s.shape[0] <= limit, "svd_compress/max-rank", lambda: f"score {i} has {s.shape[0]} rows > rank limit {limit}")
            if loadings[i] is None:
                if part == "roundtrip":
                    close(s, x, "svd_compress/uncompressed-slice", rel=REL, scale=sc)
                continue
            ncomp += 1
            U = as_array(loadings[i], "svd_compress/structure")
            check(U.ndim == 2 and U.shape == (x.shape[0], s.shape[0]), "svd_compress/structure", lambda: f"loading {U.shape} score {s.shape} slice {x.shape}")
            if part == "roundtrip":
                close(U @ s, x, "svd_compress/loading@score==slice", rel=REL, scale=sc)
                _check_orthonormal(U, "svd_compress/loading-orthonormal")
        if part == "decompress":
            # any PARAFAC2 model of the compressed slices whose rank fits in every compressed slice
            rows = [as_array(s, "x").shape[0] for s in scores]
            R = min(case["R"], min(rows))
            if R < 1:
                discard("empty score matrix")
            rs = np.random.RandomState(case["fseed"] % (2 ** 32))
            A = rs.randint(-3, 4, (len(X), R)).astype(float)
            B = rs.randint(-3, 4, (R, R)).astype(float)
            C = rs.randint(-3, 4, (K, R)).astype(float)
            w = None if case["w"] == "none" else rs.randint(1, 5, R) * rs.choice([-0.5, 0.5], R)
            projs = [gen.orthonormal(sd, n, R) for sd, n in zip(case["pseeds"], rows)]
            comp_slices = ref.parafac2_slices(w, A, B, C, projs)
            p2 = P2.Parafac2Tensor((None if w is None else w.copy(), [A.copy(), B.copy(), C.copy()], [p.copy() for p in projs]))
            res = PP.svd_decompress_parafac2_tensor(p2, loadings)
            ow, (oA, oB, oC), op = _unpack_p2(res, "svd_decompress", len(X), R)
            got = ref.parafac2_slices(ow, oA, oB, oC, op)
            for i, g in enumerate(got):
                want = comp_slices[i] if loadings[i] is None else np.asarray(loadings[i]) @ comp_slices[i]
                close(g, want, "svd_decompress/slices", rel=REL, scale=max(float(np.max(np.abs(comp_slices[i]))) if comp_slices[i].size else 0, 1.0) * R)
                check(op[i].shape[0] == X[i].shape[0], "svd_decompress/structure", lambda: f"projection rows {op[i].shape[0]} vs slice rows {X[i].shape[0]}")
                _check_orthonormal(op[i], "svd_decompress/projections-orthonormal")
        sl = case["slices"]
        short_first = sl[0]["J"] < K and any(t["J"] > sl[0]["J"] and t["r"] > sl[0]["J"] for t in sl[1:])
        return {"nontrivial": ncomp > 0, "labels": [f"ncompressed={ncomp}", f"short_first_taller_later={short_first}", f"max_rank={'none' if case['max_rank'] is None else 'given'}",
                                                   f"thr={case['thr']}", f"zero_slice={any(s['r'] == 0 for s in case['slices'])}",
                                                   f"rank_deficient={any(s['r'] < min(s['J'], K) for s in case['slices'])}"]}
    return oracle


# ----------------------------------------------------------------------------
# pad_tt_rank
# ----------------------------------------------------------------------------
@st.composite
def _tt_case(draw, kind, min_order=2):
    order = draw(st.integers(min_order, _B["order"]))
    shape = [draw(st.integers(1, _B["side"] if kind != "ttm" else 4)) for _ in range(order)]
    inner = [draw(st.integers(1, _B["trank"])) for _ in range(order - 1)]
    if kind == "tr":
        b = draw(st.integers(1, _B["trank"]))
        ranks = [b] + inner + [b]
    else:
        ranks = [1] + inner + [1]
    c = {"kind": kind, "shape": shape, "ranks": ranks, "n_padding": draw(st.integers(1, 3)),
         "wrapper": draw(st.booleans())}
    if kind == "ttm":
        out_shape = [draw(st.integers(1, 3)) for _ in range(order)]
        c["out_shape"] = out_shape
        c["cores"] = draw(gen.ttm_cores(shape, out_shape, ranks))
        c["wrapper"] = False
    else:
        c["cores"] = draw(gen.tt_cores(shape, ranks))
    c["pad_boundaries"] = (kind == "tr") and draw(st.booleans())
    return c


def _tt_dense(kind, cores):
    return {"tt": ref.tt_dense, "tr": ref.tr_dense, "ttm": ref.ttm_dense}[kind](cores)


def _o_pad(part):
    def oracle(case):
        kind = case["kind"]
        cores = [np.array(gen.dec(c), dtype=float) for c in case["cores"]]
        n = case["n_padding"]
        pb = case["pad_boundaries"]
        arg = [c.copy() for c in cores]
        if case["wrapper"]:
            arg = TT.TTTensor(arg) if kind == "tt" else TR.TRTensor(arg)
        res = TT.pad_tt_rank(arg, n_padding=n, pad_boundaries=pb)
        try:
            out = [as_array(c, "pad_tt_rank/structure") for c in res]
        except TypeError:
            raise Fail("pad_tt_rank/structure", f"result {type(res).__name__} not iterable")
        check(len(out) == len(cores), "pad_tt_rank/structure", lambda: f"{len(out)} cores, expected {len(cores)}")
        last = len(cores) - 1
        for i, (o, c) in enumerate(zip(out, cores)):
            left = n if (pb or i > 0) else 0
            right = n if (pb or i < last) else 0
            want = (c.shape[0] + left,) + c.shape[1:-1] + (c.shape[-1] + right,)
            if part == "ranks":
                check(tuple(o.shape) == want, "pad_tt_rank/ranks", lambda: f"core {i}: shape {tuple(o.shape)} expected {want} (n_padding={n}, pad_boundaries={pb})")
        if part == "dense":
            for i in range(len(out)):
                check(out[i].ndim == cores[i].ndim, "pad_tt_rank/structure", "core ndim changed")
                check(i == 0 or out[i].shape[0] == out[i - 1].shape[-1], "pad_tt_rank/structure", "bond mismatch")
            if kind in ("tt", "ttm"):
                check(out[0].shape[0] == 1 and out[-1].shape[-1] == 1, "pad_tt_rank/boundary-rank-1",
                      lambda: f"boundary ranks {out[0].shape[0]}, {out[-1].shape[-1]}")
            else:
                check(out[0].shape[0] == out[-1].shape[-1], "pad_tt_rank/structure", "ring closure mismatch")
            dense = _tt_dense(kind, cores)
            scale = float(np.max(_tt_dense(kind, [np.abs(c) for c in cores])))
            close(_tt_dense(kind, out), dense, "pad_tt_rank/dense", rel=REL, scale=scale)
        elif part == "embedding":
            # zero padding: the old core sits in the leading block, everything else is exactly zero
            for i, (o, c) in enumerate(zip(out, cores)):
                check(o.ndim == c.ndim and all(a >= b for a, b in zip(o.shape, c.shape)), "pad_tt_rank/structure", "shape shrank")
                # "padded with 0s": the old core is a contiguous block of the new one and everything else is exactly zero
                # (the block position is not advertised, so any offset is accepted)
                found = False
                for a in range(o.shape[0] - c.shape[0] + 1):
                    for b in range(o.shape[-1] - c.shape[-1] + 1):
                        idx = (slice(a, a + c.shape[0]),) + (slice(None),) * (c.ndim - 2) + (slice(b, b + c.shape[-1]),)
                        if np.array_equal(o[idx], c):
                            rest = np.array(o, copy=True)
                            rest[idx] = 0
                            found = found or not rest.any()
                check(found, "pad_tt_rank/zero-embedding", lambda: f"core {i}: padded core is not the old core surrounded by zeros")
        return {"nontrivial": max(case["ranks"]) >= 2 or len(cores) >= 3,
                "labels": [f"kind={kind}", f"order={len(cores)}", f"n_padding={n}", f"pad_boundaries={pb}", f"wrapper={case['wrapper']}"]}
    return oracle


@st.composite
def _tt_order1_case(draw):
    n = draw(st.integers(1, 4))
    return {"kind": "tt", "shape": [n], "ranks": [1, 1], "n_padding": draw(st.integers(1, 3)), "wrapper": draw(st.booleans()),
            "cores": draw(gen.tt_cores([n], [1, 1])), "pad_boundaries": False}


# ----------------------------------------------------------------------------
# mode products
# ----------------------------------------------------------------------------
@st.composite
def _cp_modedot_case(draw, operand, form, copy, weights=("ones", "pos", "neg", "mixed", "zero")):
    c = draw(_cp_case(min_order=2, weights=weights, forms=(form,)))
    n = len(c["shape"])
    c["mode"] = draw(st.integers(0, n - 1))
    side = c["shape"][c["mode"]]
    if operand == "matrix":
        c["op"] = draw(gen.arr([draw(st.integers(1, 4)), side], kinds=("int", "normal")))
        c["keep_dim"] = draw(st.booleans())       # irrelevant for matrices; must not change the result
    else:
        c["op"] = draw(gen.arr([side], kinds=("int", "normal")))
        c["keep_dim"] = operand == "vector_keep"
    c["operand"] = operand
    c["copy"] = copy
    c["via"] = draw(st.sampled_from(["function", "method"])) if form == "wrapper" else "function"
    return c


def _want_modedot(dense, op, mode, keep_dim):
    if op.ndim == 2:
        return ref.mode_dot_matrix(dense, op, mode)
    out = ref.mode_dot_vector(dense, op, mode)
    return np.expand_dims(out, mode) if keep_dim else out


def o_cp_modedot(case):
    w, fs = _cp_build(case)
    op = gen.dec(case["op"])
    mode, keep, cpy = case["mode"], case["keep_dim"], case["copy"]
    dense = ref.cp_dense(w, fs)
    want = _want_modedot(dense, op, mode, keep)
    absop = np.abs(op)
    scale = float(np.max(_want_modedot(ref.cp_dense(None if w is None else np.abs(w), [np.abs(f) for f in fs]), absop, mode, keep))) if want.size else 1.0
    arg = _cp_obj(case, w, fs)
    before = snap.freeze(arg)
    op_in = op.copy()
    if case["via"] == "method":
        res = arg.mode_dot(op_in, mode, keep_dim=keep, copy=cpy)
    else:
        res = CP.cp_mode_dot(arg, op_in, mode, keep_dim=keep, copy=cpy)
    ow, ofs = _unpack_cp(res, "cp_mode_dot", want.ndim, case["rank"])
    got = ref.cp_dense(ow, ofs)
    close(got, want, "cp_mode_dot/dense", rel=REL, scale=scale)
    if hasattr(res, "shape"):
        check(tuple(res.shape) == tuple(want.shape), "cp_mode_dot/shape-attr", lambda: f"result.shape {res.shape} != {want.shape}")
    if cpy:
        d = snap.diff(before, snap.freeze(arg))
        check(d is None, "cp_mode_dot/copy-leaves-input", lambda: d)
    return {"nontrivial": _cp_nontrivial(case), "labels": _cp_labels(case, [f"operand={case['operand']}", f"mode={mode}", f"copy={cpy}", f"via={case['via']}"])}


@st.composite
def _tucker_modedot_case(draw, operand, form, copy):
    c = draw(_tucker_case(min_order=3 if operand == "vector" else 2))
    c["form"] = form
    n = len(c["shape"])
    c["mode"] = draw(st.integers(0, n - 1))
    side = c["shape"][c["mode"]]
    if operand == "matrix":
        c["op"] = draw(gen.arr([draw(st.integers(1, 4)), side], kinds=("int", "normal")))
        c["keep_dim"] = draw(st.booleans())
    else:
        c["op"] = draw(gen.arr([side], kinds=("int", "normal")))
        c["keep_dim"] = operand == "vector_keep"
    c["operand"] = operand
    c["copy"] = copy
    c["via"] = draw(st.sampled_from(["function", "method"])) if form == "wrapper" else "function"
    c["tenalg"] = draw(st.sampled_from(TENALG_BACKENDS))
    return c


def o_tucker_modedot(case):
    core, fs = _tucker_build(case)
    op = gen.dec(case["op"])
    mode, keep, cpy = case["mode"], case["keep_dim"], case["copy"]
    dense = ref.tucker_dense(core, fs)
    want = _want_modedot(dense, op, mode, keep)
    scale = float(np.max(_want_modedot(ref.tucker_dense(np.abs(core), [np.abs(f) for f in fs]), np.abs(op), mode, keep))) if want.size else 1.0
    arg = _tucker_obj(case, core, fs)
    before = snap.freeze(arg)
    # tucker_mode_dot prints a debug line ('contracting mode') on the contraction path: keep it off the runner's stdout
    with tenalg_backend(case["tenalg"]), contextlib.redirect_stdout(io.StringIO()):
        if case["via"] == "method":
            res = arg.mode_dot(op.copy(), mode, keep_dim=keep, copy=cpy)
        else:
            res = TK.tucker_mode_dot(arg, op.copy(), mode, keep_dim=keep, copy=cpy)
    oc, ofs = _unpack_tucker(res, "tucker_mode_dot", None)
    check(oc.ndim == want.ndim, "tucker_mode_dot/order", lambda: f"result order {oc.ndim}, expected {want.ndim}")
    close(ref.tucker_dense(oc, ofs), want, "tucker_mode_dot/dense", rel=REL, scale=scale)
    if hasattr(res, "shape"):
        check(tuple(res.shape) == tuple(want.shape), "tucker_mode_dot/shape-attr", lambda: f"result.shape {res.shape} != {want.shape}")
    if cpy:
        d = snap.diff(before, snap.freeze(arg))
        check(d is None, "tucker_mode_dot/copy-leaves-input", lambda: d)
    return {"nontrivial": _tucker_nontrivial(case), "labels": _tucker_labels(case, [f"operand={case['operand']}", f"mode={mode}", f"copy={cpy}", f"via={case['via']}", f"tenalg={case['tenalg']}"])}


# ----------------------------------------------------------------------------
def subchecks(tier):
    S = []
    q, t = 300, 4000
    # thorough: larger instances (orders up to 5, sides up to 5, CP ranks up to 5, Tucker / TT ranks up to 4)
    _B.update({"order": 5, "side": 5, "rank": 5, "trank": 4} if tier == "thorough" else {"order": 4, "side": 4, "rank": 4, "trank": 3})
    # normalisers: additionally "tiny" columns / tiny whole tensors (norm << eps but non-zero) and single precision
    NK = ("tiny", "tinyall", "zero", "zmean", "dup", "neg")
    ND = ("float64", "float64", "float32")
    for part in ("dense", "canonical"):
        S.append(SubCheck(f"cp_normalize/{part}", _cp_case(edit_kinds=NK, dtypes=ND), _o_cp_normalize(part, False), quick=q, thorough=t))
        S.append(SubCheck(f"CPTensor.normalize/{part}", _cp_case(forms=("wrapper",), edit_kinds=NK, dtypes=ND), _o_cp_normalize(part, True), quick=q, thorough=t))
        S.append(SubCheck(f"tucker_normalize/{part}", _tucker_case(extra_kinds=NK[:2], dtypes=ND), _o_tucker_normalize(part, False), quick=q, thorough=t))
        S.append(SubCheck(f"TuckerTensor.normalize/{part}", _tucker_case(extra_kinds=NK[:2], dtypes=ND), _o_tucker_normalize(part, True), quick=q, thorough=t))
        S.append(SubCheck(f"parafac2_normalise/{part}", _p2_case(extra_kinds=NK[:2], dtypes=ND), _o_p2_normalise(part), quick=q, thorough=t))
        S.append(SubCheck(f"cp_flip_sign/{part}", _flip_case(False), _o_flip(part, False), quick=q, thorough=t))
        # D16: zero-summary columns (sign(0) = 0 deletes the component) -- kept apart so that the others keep searching
        S.append(SubCheck(f"cp_flip_sign/zero_summary/{part}", _flip_case(True), _o_flip(part, True), quick=q, thorough=t))
    # documented return value / `inplace` option of the method (defect N5 class)
    S.append(SubCheck("CPTensor.normalize/returns", st.builds(lambda c, i: dict(c, inplace=i), _cp_case(forms=("wrapper",), edit_kinds=NK, dtypes=ND),
                                                             st.sampled_from(["default", True, False])),
                      o_cp_normalize_returns, quick=150, thorough=1500))
    S.append(SubCheck("cp_flip_sign/none_weights", st.builds(lambda c, m: dict(c, mode=m % len(c["shape"]), form="tuple"),
                                                            _cp_case(weights=("none",), edit_kinds=("zero", "dup", "neg")), st.integers(0, 3)),
                      o_flip_none_weights, quick=150, thorough=1000))
    S.append(SubCheck("cp_permute_factors/aligned", _permute_case(), o_permute, quick=q, thorough=t))
    S.append(SubCheck("from_CPTensor/slices", _from_cp_case(), o_from_cp, quick=q, thorough=t))
    for part in ("roundtrip", "decompress"):
        S.append(SubCheck(f"svd_compress/{part}", _compress_case(), _o_compress(part), quick=q, thorough=t))
    for kind in ("tt", "tr", "ttm"):
        for part in ("dense", "ranks", "embedding"):
            S.append(SubCheck(f"pad_tt_rank/{kind}/{part}", _tt_case(kind), _o_pad(part), quick=200, thorough=3000))
    S.append(SubCheck("pad_tt_rank/tt_order1/dense", _tt_order1_case(), _o_pad("dense"), quick=60, thorough=400))
    # mode products
    for operand in ("matrix", "vector", "vector_keep"):          # vector_keep = D17 class
        # (plain tuple, copy=False) is the documented input form with the function's default option (defect N1 class)
        for form, cpy in (("wrapper", True), ("wrapper", False), ("tuple", True), ("tuple", False)):
            n = (q, t) if (form, cpy) != ("tuple", False) else (150, 1500)
            S.append(SubCheck(f"cp_mode_dot/{operand}/{form}/copy={cpy}", _cp_modedot_case(operand, form, cpy), o_cp_modedot, quick=n[0], thorough=n[1]))
        for form, cpy in (("wrapper", True), ("wrapper", False), ("tuple", True), ("tuple", False)):
            S.append(SubCheck(f"tucker_mode_dot/{operand}/{form}/copy={cpy}", _tucker_modedot_case(operand, form, cpy), o_tucker_modedot, quick=q, thorough=t))
    # (None, factors) tuples (defect N2 class)
    for operand, cpy in (("matrix", True), ("vector", False), ("vector_keep", True)):
        S.append(SubCheck(f"cp_mode_dot/{operand}/tuple_none_weights/copy={cpy}", _cp_modedot_case(operand, "tuple", cpy, weights=("none",)),
                          o_cp_modedot, quick=150, thorough=1500))
    return S
