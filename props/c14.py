"""C14 — warm starts begin at the supplied decomposition; fixed modes stay fixed.

Clauses
  (a) budget 0  =>  dense(result) == dense(init)                                  [*/budget0, a/...]
  (b) fixed-mode factors are returned bit-identical (same dtype, shape, bytes) to the
      supplied ones; all modes fixed => the initialisation comes back unchanged      [b/...]
  (c) re-expression: a run from (w, F) and a run from (1, F with w absorbed into one
      factor) give the same dense iterate after 1..3 sweeps — CP-ALS, multiplicative
      NN-CP, HALS NN-CP and PARAFAC2 only (AO-ADMM is not scale-equivariant)       [c/...]

Sub-checks whose input class contains *non-unit CP weights* are separate (`.../weighted`,
`.../reexpress`, `.../all_fixed_weighted`): D11 (geometric-mean weight handling in
initialize_cp / initialize_constrained_parafac) makes them fail on the unrepaired tree;
the unit-weight sub-checks keep searching behind it.
"""
import numpy as np
from hypothesis import strategies as st

import tensorly as tl
from tensorly.cp_tensor import CPTensor
from tensorly.tucker_tensor import TuckerTensor
from tensorly.parafac2_tensor import Parafac2Tensor
from tensorly.decomposition import (
    parafac, non_negative_parafac, non_negative_parafac_hals, constrained_parafac,
    tucker, non_negative_tucker, non_negative_tucker_hals, parafac2, partial_tucker, randomised_parafac,
    CP, CP_NN, CP_NN_HALS, ConstrainedCP, RandomizedCP, Tucker, Parafac2,
)
from tensorly.decomposition._tucker import Tucker_NN, Tucker_NN_HALS

from vlib import gen, ref
from vlib.engine import SubCheck, check, fail, discard, Fail
from vlib.cmp import same_bits, close, as_array, assert_shape

PROPERTY = "C14"
RULE = ("Data tensors of order 2-4 (CP, Tucker) / 3 (PARAFAC2, ragged slice lists included) with sides 2-4, rank 1-3, "
        "float64 (float32 in a third of the CP cases); user initialisations given as tuple / list / wrapper object with "
        "weights None / ones / positive / negative / mixed (non-negative algorithms: positive only); fixed-mode subsets in "
        "any order, never containing the last mode where the library removes it (all-modes case for parafac, tucker, and "
        "HALS with tol=0); budgets 0-3; Tucker fixed factors orthonormal (non-orthonormal = separate sub-check, clause (b) "
        "only). Oracle: dense reconstructions by np.einsum sublists from pristine copies of the supplied init (a: rel "
        "1e-10), bitwise comparison of fixed-mode factors (b), dense iterate of the weighted start vs. the start with the "
        "weights absorbed into a drawn mode (c: relative to max(1,|X|,|iterate|), tol=0, no l2_reg; tolerances >= 100 x the "
        "measured worst deviation: MU / HALS 1e-8, CP-ALS 1e-7, PARAFAC2 3e-7, PARAFAC2 with line-search jumps 2e-6; HALS with "
        "non-uniform weights 1e-2 because its inner early stop is not scale-invariant). Counted discards: LinAlgError; any "
        "normal-equation matrix along the compared sweeps (recomputed from the iterates) singular or with cond > 1e8; sweeps "
        "whose iterate moves by > 1e-9 under a 1e-12 perturbation of the start; PARAFAC2 iterates whose projection step is "
        "rank-deficient. "
        "Non-trivial: non-unit weights or at least one fixed mode; distinct = distinct case hash.")
ASSUMPTIONS = ["NumPy einsum / linalg.qr are correct", "Hypothesis generates what its strategies describe",
               "CP-ALS, multiplicative NN-CP, HALS NN-CP and PARAFAC2-ALS sweeps are column-scaling-equivariant up to "
               "rounding (measured <= 2e-13 on 300 random instances each); AO-ADMM is not and is not asserted"]

LINALG = (np.linalg.LinAlgError,)

CP_ALGOS = {
    "parafac": dict(fn=parafac, cls=CP, nonneg=False, reexpress=True),
    "nn_mu": dict(fn=non_negative_parafac, cls=CP_NN, nonneg=True, reexpress=True),
    "nn_hals": dict(fn=non_negative_parafac_hals, cls=CP_NN_HALS, nonneg=True, reexpress=True),
    "admm": dict(fn=constrained_parafac, cls=ConstrainedCP, nonneg=False, reexpress=False),
}


# ----------------------------------------------------------------------------
# generators
# ----------------------------------------------------------------------------
@st.composite
def _weights(draw, rank, kind):
    """encoded weight vector; kinds: none / ones / pos / neg / mixed (the last three never all-ones)"""
    if kind == "none":
        return None
    if kind == "ones":
        return {"s": [rank], "d": [1.0] * rank}
    if kind == "pos":
        ks = draw(st.lists(st.integers(1, 12), min_size=rank, max_size=rank).filter(lambda v: any(k != 4 for k in v)))
    elif kind == "neg":
        ks = [-k for k in draw(st.lists(st.integers(1, 12), min_size=rank, max_size=rank))]
    else:
        ks = draw(st.lists(st.integers(-12, 12).filter(lambda k: k != 0), min_size=rank, max_size=rank)
                  .filter(lambda v: any(k != 4 for k in v)))
    return {"s": [rank], "d": [k / 4 for k in ks]}


def _wsign(w):
    if w is None:
        return "none"
    w = np.asarray(w)
    if np.all(w == 1):
        return "ones"
    if np.all(w > 0):
        return "pos"
    if np.all(w < 0):
        return "neg"
    return "mixed"


@st.composite
def _subset(draw, universe, min_size=0, max_size=None):
    universe = list(universe)
    if max_size is None:
        max_size = len(universe)
    perm = draw(st.permutations(universe)) if universe else []
    k = draw(st.integers(min(min_size, len(universe)), min(max_size, len(universe))))
    return list(perm[:k])


@st.composite
def _cp_case(draw, algo, wclass, budgets=(0, 1, 2, 3), fixed="proper", reexpress=False, orthogonalise=False,
             linesearch=False, api=None):
    """wclass: 'unit' | 'weighted';  fixed: 'none' | 'proper' (subset without last mode, may be empty)
       | 'nonempty' | 'all' | 'with_last' (contains the last mode; may be all)"""
    spec = CP_ALGOS[algo]
    nonneg = spec["nonneg"]
    xk = ("nonneg", "uniform", "lowrank_nonneg") if nonneg else ("normal", "lowrank")
    X = draw(gen.data_tensor(min_order=2, max_order=4, min_side=2, max_side=4, kinds=xk))
    shape = X["s"]
    nd = len(shape)
    rank = draw(st.integers(1, 3))
    fk = ("uniform", "nonneg", "posint") if nonneg else ("normal", "normal", "int")
    facs = [draw(gen.arr([s, rank], kinds=fk)) for s in shape]
    if wclass == "unit":
        wk = draw(st.sampled_from(["none", "ones"]))
    elif nonneg:
        wk = "pos"
    else:
        wk = draw(st.sampled_from(["pos", "neg", "mixed"]))
    w = draw(_weights(rank, wk))
    if reexpress and w is not None and draw(st.booleans()):
        k0 = next(k for k in w["d"] if k != 1.0) if wk != "neg" else w["d"][0]
        w = {"s": [rank], "d": [k0] * rank}          # uniform non-unit weights
    c = {"algo": algo, "X": X, "rank": rank, "weights": w, "factors": facs,
         "form": draw(st.sampled_from(["tuple", "list", "wrapper"])),
         "n_iter": draw(st.sampled_from(list(budgets))),
         "dtype": "float64" if reexpress else draw(st.sampled_from(["float64", "float64", "float32"]))}
    if fixed == "none":
        c["fixed"] = []
    elif fixed == "proper":
        c["fixed"] = draw(_subset(range(nd - 1)))
    elif fixed == "nonempty":
        c["fixed"] = draw(_subset(range(nd - 1), min_size=1))
    elif fixed == "all":
        c["fixed"] = list(range(nd))
    elif fixed == "with_last":
        if draw(st.booleans()):
            c["fixed"] = list(range(nd))
        else:
            c["fixed"] = draw(_subset(range(nd - 1), max_size=nd - 2)) + [nd - 1]
            c["fixed"] = draw(st.permutations(c["fixed"]))
    opts = {}
    if reexpress:
        opts["tol"] = 0
        c["absorb"] = draw(st.integers(0, nd - 1))
    else:
        opts["tol"] = draw(st.sampled_from([0, None]))      # None -> library default
    if algo == "parafac":
        if not reexpress:
            opts["l2_reg"] = draw(st.sampled_from([0, 0, 0.25]))
            opts["return_errors"] = draw(st.booleans())
        if orthogonalise:
            opts["orthogonalise"] = draw(st.sampled_from([True, 1, 2]))
        if linesearch:
            # line-search steps happen at iteration indices 6, 8, 10: the budget must exceed 6; no early stop,
            # no regularisation (accepted jumps are what matters)
            opts["linesearch"] = True
            opts["tol"] = draw(st.sampled_from([0, 0, 1e-12]))
            opts["l2_reg"] = 0
    elif algo == "nn_hals":
        opts["nn_modes"] = draw(st.sampled_from(["all", "all", "subset", "none"]))
        if opts["nn_modes"] == "subset":
            opts["nn_modes"] = sorted(draw(_subset(range(nd), min_size=1)))
        if fixed == "with_last":
            opts["tol"] = 0
    elif algo == "admm":
        opts["constraint"] = draw(st.sampled_from(["non_negative", "l2_square_reg", "l2_reg"]))
        opts["n_iter_max_inner"] = draw(st.integers(1, 4))
    c["opts"] = opts
    # the class wrappers (CP, CP_NN, CP_NN_HALS, ConstrainedCP) forward init / fixed_modes to the same functions
    c["api"] = api or ("function" if (reexpress or fixed == "all") else draw(st.sampled_from(["function", "function", "class"])))
    return c


def _wrap_cp(form, w, F):
    if form == "tuple":
        return (w, F)
    if form == "list":
        return [w, F]
    return CPTensor((w, F))


def _run_cp(case, w, F, X, n_iter=None, fixed=None):
    """calls the algorithm on fresh copies; returns (weights, factors) of the result as arrays"""
    algo = case["algo"]
    spec = CP_ALGOS[algo]
    opts = case["opts"]
    kw = {}
    tolname = "tol_outer" if algo == "admm" else "tol"
    if opts.get("tol", None) is not None:
        kw[tolname] = opts["tol"]
    if algo == "parafac":
        if opts.get("l2_reg"):
            kw["l2_reg"] = opts["l2_reg"]
        if opts.get("return_errors"):
            kw["return_errors"] = True
        if opts.get("orthogonalise"):
            kw["orthogonalise"] = opts["orthogonalise"]
        if opts.get("linesearch"):
            kw["linesearch"] = True
    elif algo == "nn_hals":
        nm = opts.get("nn_modes", "all")
        kw["nn_modes"] = None if nm == "none" else nm
    elif algo == "admm":
        cons = opts["constraint"]
        kw[cons] = True if cons == "non_negative" else 0.5
        kw["n_iter_max_inner"] = opts["n_iter_max_inner"]
    fx = case["fixed"] if fixed is None else fixed
    if fx:
        kw["fixed_modes"] = list(fx)
    init = _wrap_cp(case["form"], None if w is None else w.copy(), [f.copy() for f in F])
    budget = case["n_iter"] if n_iter is None else n_iter
    if case.get("api") == "class":
        kw.pop("return_errors", None)
        out = spec["cls"](case["rank"], n_iter_max=budget, init=init, **kw).fit_transform(X.copy())
    else:
        out = spec["fn"](X.copy(), case["rank"], n_iter_max=budget, init=init, **kw)
    if kw.get("return_errors") and isinstance(out, tuple) and len(out) == 2 and isinstance(out[1], list):
        # (cp, errors); parafac's all-modes-fixed shortcut returns the bare CPTensor even with
        # return_errors=True — an interface inconsistency outside C14, accepted here (see notes/c14.md)
        out = out[0]
    try:
        rw, rf = out
        rf = list(rf)
    except Exception:  # noqa
        raise Fail("result/form", f"result is not a (weights, factors) pair: {type(out).__name__}")
    check(len(rf) == len(F), "result/form", f"{len(rf)} factors for an order-{len(F)} tensor")
    for i, f in enumerate(rf):
        assert_shape(f, F[i].shape, "result/factor-shape")
    if rw is not None:
        assert_shape(rw, (case["rank"],), "result/weights-shape")
    return rw, rf


def _decode_cp(case):
    dt = case["dtype"]
    X = gen.dec_data(case["X"], dt)
    w = gen.dec(case["weights"], dt) if case["weights"] is not None else None
    F = [gen.dec(f, dt) for f in case["factors"]]
    return X, w, F


def _reltol(dt, tight):
    return tight if dt == "float64" else 2e-4


def o_cp(case):
    """clauses (a) and (b) for the CP family"""
    X, w, F = _decode_cp(case)
    nd = X.ndim
    fx = list(case["fixed"])
    n = case["n_iter"]
    rw, rf = _run_cp(case, w, F, X)
    want = ref.cp_dense(w, F)
    scale = max(1.0, float(np.max(np.abs(want))))
    allfixed = sorted(fx) == list(range(nd))
    unit = _wsign(w) in ("none", "ones")
    for m in fx:
        if allfixed and m == nd - 1 and not unit:
            continue   # weights may legitimately be absorbed into the last factor
        same_bits(rf[m], F[m], "b/fixed-factor")
    if n == 0 or allfixed:
        got = ref.cp_dense(None if rw is None else as_array(rw, "result/weights"), rf)
        close(got, want, "b/all-fixed-tensor" if (allfixed and n > 0) else "a/budget0",
              rel=_reltol(case["dtype"], 1e-10), scale=scale)
    if allfixed and unit:
        same_bits(rf[nd - 1], F[nd - 1], "b/fixed-factor")
    return {"nontrivial": (not unit) or bool(fx),
            "labels": [f"order={nd}", f"w={_wsign(w)}", f"n={n}", f"nfixed={len(fx)}", f"form={case['form']}",
                       f"dtype={case['dtype']}", f"api={case.get('api', 'function')}"] + ([f"orthogonalise={case['opts']['orthogonalise']}"]
                                                          if case["opts"].get("orthogonalise") else [])}


def _perturb(arrs, nonneg=False):
    """entrywise additive perturbation of size 1e-12 * max(1, max|a|) (kept non-negative for NN algorithms)"""
    rs = np.random.RandomState(12345)
    out = []
    for a in arrs:
        u = rs.choice([0.5, 1.0] if nonneg else [-1.0, 1.0], size=a.shape)
        out.append(a + 1e-12 * max(1.0, float(np.max(np.abs(a)))) * u)
    return out


COND_MAX = 1e8
# tolerances of clause (c), each >= 100 x the worst deviation measured on HEAD (notes/c14.md, Corrections 6):
#   parafac 1.1e-10 / 33k cases, MU 1.2e-15 / 32k, HALS (uniform weights) 1.5e-13 / 25k,
#   PARAFAC2 budgets 1-3 2.4e-9 / 50k, PARAFAC2 with line-search jumps 1.6e-8 / 96k
CP_REL = {"parafac": 1e-7, "nn_mu": 1e-8, "nn_hals": 1e-8}
P2_REL = 3e-7
LS_REL = 2e-6
_DEV_LOG = None          # set to a list by measurement scripts: (sub-check kind, n_iter, deviation / scale)


def _cond(G):
    """2-norm condition number of a (Hadamard-)Gram matrix, also after scaling it to unit diagonal
    (so that the verdict does not depend on how the column scales are distributed); inf if singular"""
    G = np.asarray(G, dtype=float)
    if not np.all(np.isfinite(G)):
        return np.inf
    d = np.diag(G)
    if np.any(d <= 0):
        return np.inf
    Gn = G / np.sqrt(np.outer(d, d))
    with np.errstate(all="ignore"):
        try:
            return float(max(np.linalg.cond(G), np.linalg.cond(Gn)))
        except np.linalg.LinAlgError:
            return np.inf


def _worst_sweep_cond(states):
    """states[k] = factor list after k sweeps.  The normal-equation matrix the library solves for mode m in
    sweep k is the Hadamard product of the Grams of the already updated factors (state k+1, modes < m) and of
    the not yet updated ones (state k, modes > m): recomputed here from the sweep-boundary iterates."""
    worst = 0.0
    for k in range(len(states) - 1):
        cur, nxt = states[k], states[k + 1]
        nd = len(cur)
        for m in range(nd):
            G = None
            for i in range(nd):
                if i == m:
                    continue
                f = np.asarray(nxt[i] if i < m else cur[i], dtype=float)
                g = f.T @ f
                G = g if G is None else G * g
            worst = max(worst, _cond(G))
    return worst


def o_cp_reexpress(case):
    """clause (c): weighted start vs. the same start with the weights absorbed into mode `absorb`"""
    X, w, F = _decode_cp(case)
    m = case["absorb"]
    F2 = [f.copy() for f in F]
    F2[m] = F2[m] * w.reshape(1, -1)
    rw1, rf1 = _run_cp(case, w, F, X, fixed=[])
    c2 = dict(case, form="tuple")
    rw2, rf2 = _run_cp(c2, None, F2, X, fixed=[])
    d1 = ref.cp_dense(None if rw1 is None else as_array(rw1, "result/weights"), rf1)
    d2 = ref.cp_dense(None if rw2 is None else as_array(rw2, "result/weights"), rf2)
    if not (np.all(np.isfinite(d2))):
        discard("reference run not finite")
    scale = max(1.0, float(np.max(np.abs(X))), float(np.max(np.abs(d2))))
    # explicit well-posedness rule: every normal-equation matrix met along the compared sweeps (recomputed from
    # the sweep-boundary iterates of the reference run) must have full rank and 2-norm condition <= 1e8 — with
    # rank > a mode size the Hadamard-Gram of an order-2 problem is singular and the (NN)LS sub-problem has no
    # unique minimiser, so two expressions of the same start may legitimately end at different minimisers
    states = [F2]
    for k in range(1, case["n_iter"]):
        _, fk = _run_cp(c2, None, F2, X, n_iter=k, fixed=[])
        states.append(fk)
    states.append(rf2)
    if _worst_sweep_cond(states) > COND_MAX:
        discard("rank-deficient / ill-conditioned normal equations along the sweeps (cond > 1e8)")
    # conditioning rule: the same reference start perturbed by 1e-12 (relative, entrywise) must move the
    # iterate by <= 1e-9*scale, otherwise the sweep map amplifies rounding too much to assert 1e-8
    nonneg = CP_ALGOS[case["algo"]]["nonneg"]
    rw3, rf3 = _run_cp(c2, None, _perturb(F2, nonneg), X, fixed=[])
    d3 = ref.cp_dense(None if rw3 is None else as_array(rw3, "result/weights"), rf3)
    if not np.all(np.isfinite(d3)) or float(np.max(np.abs(d3 - d2))) > 1e-9 * scale:
        discard("ill-conditioned sweep (1e-12 perturbation moves the iterate by > 1e-9)")
    # same rule on the weighted expression (rank-deficient normal equations that happen not to raise)
    rw4, rf4 = _run_cp(case, w, _perturb(F, nonneg), X, fixed=[])
    d4 = ref.cp_dense(None if rw4 is None else as_array(rw4, "result/weights"), rf4)
    if np.all(np.isfinite(d1)) and np.all(np.isfinite(d4)) and float(np.max(np.abs(d4 - d1))) > 1e-9 * scale:
        discard("ill-conditioned sweep (1e-12 perturbation moves the iterate by > 1e-9)")
    # HALS' inner early stop (sum_k ||dV_k||^2 < 1e-8 * first) weighs the components by their scale, so with
    # *non-uniform* weights the two expressions may legitimately stop one inner iteration apart (difference
    # ~ sqrt(1e-8) of a step); only gross disagreement is asserted there.  Uniform weights leave the ratio invariant.
    uniform = bool(np.all(w == w[0]))
    loose = case["algo"] == "nn_hals" and not uniform
    if _DEV_LOG is not None and np.all(np.isfinite(d1)):
        _DEV_LOG.append((case["algo"] + ("/loose" if loose else ""), case["n_iter"], float(np.max(np.abs(d1 - d2))) / scale))
    close(d1, d2, "c/reexpress", rel=1e-2 if loose else CP_REL[case["algo"]], scale=scale)
    return {"nontrivial": True, "labels": [f"order={X.ndim}", f"w={_wsign(w)}", f"n={case['n_iter']}", f"absorb={m}",
                                           f"tol={'loose' if loose else 'tight'}"]}


# ----------------------------------------------------------------------------
# Tucker family
# ----------------------------------------------------------------------------
@st.composite
def _tucker_case(draw, algo, fixed="proper", budgets=(0, 1, 2, 3), orth=True):
    nonneg = algo != "tucker"
    xk = ("nonneg", "uniform") if nonneg else ("normal", "lowrank")
    X = draw(gen.data_tensor(min_order=2, max_order=4, min_side=2, max_side=4, kinds=xk))
    shape = X["s"]
    nd = len(shape)
    if draw(st.integers(0, 2)) > 0:
        r = draw(st.integers(1, min(min(shape), 3)))
        ranks = [r] * nd
    else:
        ranks = [draw(st.integers(1, min(s, 3))) for s in shape]
    last_ok = algo == "tucker"
    uni = range(nd) if last_ok else range(nd - 1)
    if fixed == "none":
        fx = []
    elif fixed == "proper":
        fx = draw(_subset(uni, max_size=nd - 1))
    elif fixed == "nonempty":
        fx = draw(_subset(uni, min_size=1, max_size=nd - 1))
    else:
        fx = list(range(nd))
    fk = ("uniform", "nonneg") if nonneg else ("normal", "int")
    facs = []
    for i, (s, rr) in enumerate(zip(shape, ranks)):
        if algo == "tucker" and i in fx and orth:
            facs.append({"orth": draw(gen.seeds), "s": [s, rr]})
        else:
            facs.append(draw(gen.arr([s, rr], kinds=fk)))
    core = draw(gen.arr(ranks, kinds=("uniform", "nonneg") if nonneg else ("normal", "int")))
    c = {"algo": algo, "X": X, "ranks": ranks, "core": core, "factors": facs, "fixed": fx,
         "form": draw(st.sampled_from(["tuple", "list", "wrapper"])),
         "n_iter": draw(st.sampled_from(list(budgets))), "opts": {}}
    if algo == "ntd_hals":
        c["opts"]["algorithm"] = draw(st.sampled_from(["fista", "active_set"]))
    c["api"] = draw(st.sampled_from(["function", "function", "class"]))
    return c


def _dec_factor(enc):
    if "orth" in enc:
        return gen.orthonormal(enc["orth"], enc["s"][0], enc["s"][1])
    return gen.dec(enc)


def _run_tucker(case, core, F, X):
    algo = case["algo"]
    c0, F0 = core.copy(), [f.copy() for f in F]
    init = (c0, F0) if case["form"] == "tuple" else [c0, F0] if case["form"] == "list" else TuckerTensor((c0, F0))
    fx = list(case["fixed"])
    cls = case.get("api") == "class"
    rk, n = list(case["ranks"]), case["n_iter"]
    if algo == "tucker":
        if cls:
            out = Tucker(rk, fixed_factors=fx if fx else None, n_iter_max=n, init=init).fit_transform(X.copy())
        else:
            out = tucker(X.copy(), rk, fixed_factors=fx if fx else None, n_iter_max=n, init=init)
    elif algo == "ntd_hals":
        if cls:
            out = Tucker_NN_HALS(rk, fixed_modes=fx if fx else None, n_iter_max=n, init=init,
                                 algorithm=case["opts"]["algorithm"]).fit_transform(X.copy())
        else:
            out = non_negative_tucker_hals(X.copy(), rk, fixed_modes=fx if fx else None, n_iter_max=n, init=init,
                                           algorithm=case["opts"]["algorithm"])
    elif algo == "partial_tucker":
        modes = case["opts"]["modes"]
        out, _errs = partial_tucker(X.copy(), [rk[m] for m in modes], modes=list(modes), n_iter_max=n, init=init)
    else:
        if cls:
            out = Tucker_NN(rk, n_iter_max=n, init=init).fit_transform(X.copy())
        else:
            out = non_negative_tucker(X.copy(), rk, n_iter_max=n, init=init)
    try:
        rc, rf = out
        rf = list(rf)
    except Exception:  # noqa
        raise Fail("result/form", f"result is not a (core, factors) pair: {type(out).__name__}")
    check(len(rf) == len(F), "result/form", f"{len(rf)} factors for an order-{len(F)} tensor")
    return as_array(rc, "result/core"), rf


def o_tucker(case):
    X = gen.dec_data(case["X"])
    core = gen.dec(case["core"])
    F = [_dec_factor(f) for f in case["factors"]]
    nd = X.ndim
    fx = list(case["fixed"])
    n = case["n_iter"]
    orth = all("orth" in case["factors"][i] for i in fx) or case["algo"] != "tucker"
    rc, rf = _run_tucker(case, core, F, X)
    for m in fx:
        same_bits(rf[m], F[m], "b/fixed-factor")
    allfixed = sorted(fx) == list(range(nd))
    labels = [f"order={nd}", f"n={n}", f"nfixed={len(fx)}", f"form={case['form']}", f"api={case.get('api', 'function')}",
              f"ranks={'equal' if len(set(case['ranks'])) == 1 else 'unequal'}"]
    if n == 0 or allfixed:
        assert_shape(rc, core.shape, "a/core-shape")
        for i, f in enumerate(rf):
            assert_shape(f, F[i].shape, "a/factor-shape")
        want = ref.tucker_dense(core, F)
        got = ref.tucker_dense(rc, rf)
        scale = max(1.0, float(np.max(np.abs(want))))
        if orth:
            close(got, want, "b/all-fixed-tensor" if (allfixed and n > 0) else "a/budget0", rel=1e-10, scale=scale)
        else:
            # non-orthonormal fixed HOOI factors: outcome reported, not asserted (DESIGN C14 soundness note)
            d = float(np.max(np.abs(got - want))) / scale
            labels.append(f"nonorth_budget0_same={d <= 1e-10}")
    return {"nontrivial": bool(fx), "labels": labels}


@st.composite
def _partial_tucker_case(draw):
    """partial_tucker with a user init (core has the tensor's size on the modes that are not decomposed)"""
    X = draw(gen.data_tensor(min_order=2, max_order=4, min_side=2, max_side=4, kinds=("normal", "lowrank")))
    shape = X["s"]
    nd = len(shape)
    modes = sorted(draw(_subset(range(nd), min_size=1)))
    ranks = [draw(st.integers(1, min(s, 3))) if i in modes else s for i, s in enumerate(shape)]
    facs = [draw(gen.arr([shape[m], ranks[m]], kinds=("normal", "int"))) for m in modes]
    return {"algo": "partial_tucker", "X": X, "ranks": ranks, "core": draw(gen.arr(ranks, kinds=("normal", "int"))),
            "factors": facs, "fixed": [], "form": draw(st.sampled_from(["tuple", "list"])), "n_iter": 0,
            "opts": {"modes": modes}, "api": "function"}


def o_partial_tucker(case):
    X = gen.dec_data(case["X"])
    core = gen.dec(case["core"])
    F = [gen.dec(f) for f in case["factors"]]
    modes = case["opts"]["modes"]
    rc, rf = _run_tucker(case, core, F, X)
    assert_shape(rc, core.shape, "a/core-shape")
    for i, f in enumerate(rf):
        assert_shape(f, F[i].shape, "a/factor-shape")
    want = ref.tucker_dense(core, F, modes)
    close(ref.tucker_dense(rc, rf, modes), want, "a/budget0", rel=1e-10, scale=max(1.0, float(np.max(np.abs(want)))))
    return {"nontrivial": len(modes) < X.ndim, "labels": [f"order={X.ndim}", f"nmodes={len(modes)}"]}


# ----------------------------------------------------------------------------
# randomised_parafac / RandomizedCP (sampled ALS; no fixed modes)
# ----------------------------------------------------------------------------
@st.composite
def _rcp_case(draw, wclass):
    X = draw(gen.data_tensor(min_order=3, max_order=4, min_side=2, max_side=4, kinds=("normal", "lowrank")))
    shape = X["s"]
    rank = draw(st.integers(1, 3))
    facs = [draw(gen.arr([s, rank], kinds=("normal", "normal", "int"))) for s in shape]
    wk = draw(st.sampled_from(["none", "ones"])) if wclass == "unit" else draw(st.sampled_from(["pos", "neg", "mixed"]))
    return {"X": X, "rank": rank, "weights": draw(_weights(rank, wk)), "factors": facs,
            "form": draw(st.sampled_from(["tuple", "list", "wrapper"])), "n_iter": draw(st.sampled_from([0, 0, 1, 2])),
            "n_samples": rank + draw(st.integers(2, 6)), "seed": draw(st.integers(0, 2 ** 32 - 1)),
            "api": draw(st.sampled_from(["function", "class"])), "callback": draw(st.booleans()),
            "return_errors": draw(st.booleans())}


def o_rcp(case):
    """(a) budget 0 => the result is the init tensor; the observer's first invocation (before any sweep)
    receives the init tensor, whatever the budget"""
    X = gen.dec_data(case["X"])
    w = gen.dec(case["weights"]) if case["weights"] is not None else None
    F = [gen.dec(f) for f in case["factors"]]
    seen = []

    def cb(cp, err=None):
        if not seen:
            try:
                cw, cf = cp
                seen.append((None if cw is None else np.array(cw, copy=True), [np.array(f, copy=True) for f in cf]))
            except Exception:  # noqa
                seen.append(None)

    init = _wrap_cp(case["form"], None if w is None else w.copy(), [f.copy() for f in F])
    kw = dict(n_iter_max=case["n_iter"], init=init, random_state=int(case["seed"]), tol=0,
              callback=cb if case["callback"] else None)
    if case["api"] == "class":
        out = RandomizedCP(case["rank"], case["n_samples"], verbose=0, **kw).fit_transform(X.copy())
    else:
        out = randomised_parafac(X.copy(), case["rank"], case["n_samples"], return_errors=case["return_errors"], **kw)
        if case["return_errors"]:
            check(isinstance(out, tuple) and len(out) == 2 and isinstance(out[1], list), "result/form",
                  "return_errors=True did not give (cp, errors)")
            out = out[0]
    try:
        rw, rf = out
        rf = list(rf)
    except Exception:  # noqa
        raise Fail("result/form", f"result is not a (weights, factors) pair: {type(out).__name__}")
    check(len(rf) == len(F), "result/form", f"{len(rf)} factors for an order-{len(F)} tensor")
    for i, f in enumerate(rf):
        assert_shape(f, F[i].shape, "result/factor-shape")
    want = ref.cp_dense(w, F)
    scale = max(1.0, float(np.max(np.abs(want))))
    if case["callback"]:
        check(len(seen) == 1 and seen[0] is not None, "a/callback0", "observer was not called with a (weights, factors) pair")
        cw, cf = seen[0]
        check(len(cf) == len(F), "a/callback0", "wrong number of factors in the observer's first argument")
        for i, f in enumerate(cf):
            assert_shape(f, F[i].shape, "a/callback0")
        close(ref.cp_dense(cw, cf), want, "a/callback0", rel=1e-10, scale=scale)
    if case["n_iter"] == 0:
        close(ref.cp_dense(None if rw is None else as_array(rw, "result/weights"), rf), want, "a/budget0", rel=1e-10, scale=scale)
    return {"nontrivial": _wsign(w) not in ("none", "ones"),
            "labels": [f"order={X.ndim}", f"w={_wsign(w)}", f"n={case['n_iter']}", f"api={case['api']}", f"form={case['form']}",
                       f"callback={case['callback']}"]}


# ----------------------------------------------------------------------------
# PARAFAC2
# ----------------------------------------------------------------------------
@st.composite
def _p2_case(draw, kind, budgets=(0,), wclass="any", linesearch=None):
    """kind: 'p2' (Parafac2Tensor-style triple) or 'cp' ((weights, [A, B, C]) with B of shape (J, R))"""
    I = draw(st.integers(2, 4))
    K = draw(st.integers(2, 4))
    R = draw(st.integers(1, min(3, K)))
    ragged = kind == "p2" and draw(st.booleans())
    if ragged:
        Js = [draw(st.integers(R, 4)) for _ in range(I)]
    else:
        Js = [draw(st.integers(R, 4))] * I
    c = {"kind": kind, "I": I, "K": K, "R": R, "Js": Js, "ragged": ragged, "xseed": draw(gen.seeds),
         "A": draw(gen.arr([I, R], kinds=("normal", "normal", "int"))),
         "C": draw(gen.arr([K, R], kinds=("normal", "normal", "int"))),
         "n_iter": draw(st.sampled_from(list(budgets)))}
    if kind == "p2":
        c["B"] = draw(gen.arr([R, R], kinds=("normal", "normal", "int")))
        c["pseeds"] = [draw(gen.seeds) for _ in range(I)]
        c["form"] = draw(st.sampled_from(["tuple", "list", "wrapper"]))
    else:
        c["B"] = draw(gen.arr([Js[0], R], kinds=("normal", "normal", "int")))
        c["form"] = draw(st.sampled_from(["tuple", "list", "wrapper"]))
    if wclass == "weighted":
        wk = draw(st.sampled_from(["pos", "neg", "mixed"]))
    else:
        wk = draw(st.sampled_from(["none", "ones", "pos", "neg", "mixed"]))
    c["weights"] = draw(_weights(R, wk))
    c["linesearch"] = draw(st.booleans()) if linesearch is None else linesearch
    c["api"] = draw(st.sampled_from(["function", "function", "class"]))
    if wclass == "weighted":
        c["absorb"] = draw(st.integers(0, 2))
    return c


def _p2_decode(case):
    rs = np.random.RandomState(case["xseed"])
    slices = [rs.standard_normal((j, case["K"])) for j in case["Js"]]
    X = slices if case["ragged"] else np.stack(slices)
    A, B, C = gen.dec(case["A"]), gen.dec(case["B"]), gen.dec(case["C"])
    w = gen.dec(case["weights"]) if case["weights"] is not None else None
    P = None
    if case["kind"] == "p2":
        P = [gen.orthonormal(s, j, case["R"]) for s, j in zip(case["pseeds"], case["Js"])]
    return X, w, A, B, C, P


def _p2_init(case, w, A, B, C, P):
    w = None if w is None else w.copy()
    fac = [A.copy(), B.copy(), C.copy()]
    if case["kind"] == "p2":
        Pc = [p.copy() for p in P]
        return {"tuple": (w, fac, Pc), "list": [w, fac, Pc], "wrapper": Parafac2Tensor((w, fac, Pc))}[case["form"]]
    return {"tuple": (w, fac), "list": [w, fac], "wrapper": CPTensor((w, fac))}[case["form"]]


def _p2_run(case, init, X, n_iter, raw=False):
    Xc = [s.copy() for s in X] if isinstance(X, list) else X.copy()
    if case.get("api") == "class":
        out = Parafac2(case["R"], n_iter_max=n_iter, init=init, tol=0, linesearch=case["linesearch"]).fit_transform(Xc)
    else:
        out = parafac2(Xc, case["R"], n_iter_max=n_iter, init=init, tol=0, linesearch=case["linesearch"])
    try:
        rw, rf, rp = out
        A, B, C = rf
        rp = list(rp)
    except Exception:  # noqa
        raise Fail("result/form", f"result is not (weights, (A, B, C), projections): {type(out).__name__}")
    R = case["R"]
    assert_shape(A, (case["I"], R), "result/A-shape")
    assert_shape(B, (R, R), "result/B-shape")
    assert_shape(C, (case["K"], R), "result/C-shape")
    check(len(rp) == case["I"], "result/form", f"{len(rp)} projections for {case['I']} slices")
    for p, j in zip(rp, case["Js"]):
        assert_shape(p, (j, R), "result/projection-shape")
    if rw is not None:
        assert_shape(rw, (R,), "result/weights-shape")
    if raw:
        return rw, A, B, C, rp
    return ref.parafac2_slices(rw, A, B, C, rp)


def o_p2_budget0(case):
    X, w, A, B, C, P = _p2_decode(case)
    got = _p2_run(case, _p2_init(case, w, A, B, C, P), X, 0)
    if case["kind"] == "p2":
        want = ref.parafac2_slices(w, A, B, C, P)
    else:
        full = ref.cp_dense(w, [A, B, C])
        want = [full[i] for i in range(case["I"])]
    scale = max(1.0, max(float(np.max(np.abs(s))) for s in want))
    for g, s in zip(got, want):
        close(g, s, "a/budget0", rel=1e-10, scale=scale)
    return {"nontrivial": _wsign(w) not in ("none", "ones"),
            "labels": [f"kind={case['kind']}", f"w={_wsign(w)}", f"form={case['form']}", f"ragged={case['ragged']}",
                       f"api={case.get('api', 'function')}"]}


def o_p2_reexpress(case):
    X, w, A, B, C, P = _p2_decode(case)
    n = case["n_iter"]
    m = case["absorb"]
    fac = [A, B, C]
    fac2 = [f.copy() for f in fac]
    fac2[m] = fac2[m] * w.reshape(1, -1)
    # explicit domain rule: the projection step P_i = polar(X_i C diag(w a_i) B^T) is unique only if that
    # R x J matrix has full rank R (needs non-zero a_ir, non-singular B, full-rank C and slices)
    for i, Xi in enumerate(X):
        sv = np.linalg.svd(B @ np.diag(w * A[i]) @ C.T @ Xi.T, compute_uv=False)
        if sv[min(len(sv), case["R"]) - 1] <= 1e-6 * max(sv[0], 1e-300) or len(sv) < case["R"]:
            discard("initial projection step ill-posed (rank-deficient B diag(a_i) C^T X_i^T)")
    got = _p2_run(case, _p2_init(case, w, A, B, C, P), X, n)
    ctup = dict(case, form="tuple", api="function")
    ref_run = _p2_run(ctup, _p2_init(ctup, None, fac2[0], fac2[1], fac2[2], P), X, n)
    if not all(np.all(np.isfinite(s)) for s in ref_run):
        discard("reference run not finite")
    # the same two well-posedness rules at every outer iterate of the reference run (recomputed by the harness):
    # projection step of full rank R, and CP normal equations (Hadamard-Grams of A, B, C) with cond <= 1e8
    for k in range(1, n + 1):
        rwk, Ak, Bk, Ck, Pk = _p2_run(ctup, _p2_init(ctup, None, fac2[0], fac2[1], fac2[2], P), X, k, raw=True)
        Ak, Bk, Ck = (np.asarray(v, dtype=float) for v in (Ak, Bk, Ck))
        if not all(np.all(np.isfinite(v)) for v in (Ak, Bk, Ck)):
            discard("reference run not finite")
        wk = np.ones(case["R"]) if rwk is None else np.asarray(rwk, dtype=float)
        if k < n:
            for i, Xi in enumerate(X):
                sv = np.linalg.svd(Bk @ np.diag(wk * Ak[i]) @ Ck.T @ np.asarray(Xi).T, compute_uv=False)
                if len(sv) < case["R"] or sv[case["R"] - 1] <= 1e-6 * max(sv[0], 1e-300):
                    discard("projection step ill-posed along the iterates (rank-deficient B diag(a_i) C^T X_i^T)")
        grams = [g.T @ g for g in (Ak * wk, Bk, Ck)]
        if max(_cond(grams[1] * grams[2]), _cond(grams[0] * grams[2]), _cond(grams[0] * grams[1])) > COND_MAX:
            discard("rank-deficient / ill-conditioned normal equations along the iterates (cond > 1e8)")
    g0 = [g.T @ g for g in (fac2[0], fac2[1], fac2[2])]
    if max(_cond(g0[1] * g0[2]), _cond(g0[0] * g0[2]), _cond(g0[0] * g0[1])) > COND_MAX:
        discard("rank-deficient / ill-conditioned normal equations along the iterates (cond > 1e8)")
    scale = max(1.0, max(float(np.max(np.abs(s))) for s in ref_run),
                max(float(np.max(np.abs(s))) for s in (X if isinstance(X, list) else list(X))))
    # conditioning rule (see o_cp_reexpress): singular B / rank-deficient slices make the polar factor
    # P_i non-unique, near-singular normal equations amplify rounding
    pf = _perturb(fac2)
    pert = _p2_run(dict(case, form="tuple"), _p2_init(dict(case, form="tuple"), None, pf[0], pf[1], pf[2], P), X, n)
    if not all(np.all(np.isfinite(s)) for s in pert) or \
            max(float(np.max(np.abs(a - b))) for a, b in zip(pert, ref_run)) > 1e-9 * scale:
        discard("ill-conditioned sweep (1e-12 perturbation moves the iterate by > 1e-9)")
    pf = _perturb(fac)
    pert = _p2_run(case, _p2_init(case, w, pf[0], pf[1], pf[2], P), X, n)
    if all(np.all(np.isfinite(s)) for s in pert + got) and \
            max(float(np.max(np.abs(a - b))) for a, b in zip(pert, got)) > 1e-9 * scale:
        discard("ill-conditioned sweep (1e-12 perturbation moves the iterate by > 1e-9)")
    rel = LS_REL if (case["linesearch"] and n >= 7) else P2_REL
    if _DEV_LOG is not None and all(np.all(np.isfinite(s)) for s in got):
        _DEV_LOG.append(("parafac2/ls" if rel == LS_REL else "parafac2", n,
                         max(float(np.max(np.abs(a - b))) for a, b in zip(got, ref_run)) / scale))
    for g, s in zip(got, ref_run):
        close(g, s, "c/reexpress", rel=rel, scale=scale)
    return {"nontrivial": True, "labels": [f"w={_wsign(w)}", f"n={n}", f"absorb={m}", f"ragged={case['ragged']}"]}


# ----------------------------------------------------------------------------
def subchecks(tier):
    subs = []
    for algo, spec in CP_ALGOS.items():
        subs.append(SubCheck(f"cp/{algo}/unit", _cp_case(algo, "unit"), o_cp, quick=400, thorough=2500, discard_exc=LINALG))
        # --- input class of D11 (non-unit weights) kept apart ---
        subs.append(SubCheck(f"cp/{algo}/weighted", _cp_case(algo, "weighted"), o_cp, quick=400, thorough=2500,
                             discard_exc=LINALG))
        if spec["reexpress"]:
            subs.append(SubCheck(f"cp/{algo}/reexpress", _cp_case(algo, "weighted", budgets=(1, 2, 3), fixed="none", reexpress=True),
                                 o_cp_reexpress, quick=250, thorough=1500, discard_exc=LINALG))
    subs.append(SubCheck("cp/parafac/all_fixed_unit", _cp_case("parafac", "unit", fixed="all"), o_cp, quick=250, thorough=1200,
                         discard_exc=LINALG))
    subs.append(SubCheck("cp/parafac/all_fixed_weighted", _cp_case("parafac", "weighted", fixed="all"), o_cp, quick=250,
                         thorough=1200, discard_exc=LINALG))
    # CP(...).fit_transform with every mode fixed (N8): kept apart from the function-level shortcut
    subs.append(SubCheck("cp/parafac/all_fixed_class", _cp_case("parafac", "unit", fixed="all", api="class"), o_cp, quick=60,
                         thorough=400, discard_exc=LINALG))
    subs.append(SubCheck("cp/parafac/fixed_orthogonalise", _cp_case("parafac", "unit", budgets=(1, 2, 3), fixed="nonempty",
                                                               orthogonalise=True), o_cp, quick=250, thorough=1200,
                         discard_exc=LINALG))
    # line search extrapolates *all* factors (seeded change C14-m1): fixed modes must still come back bit for bit
    for wc in ("unit", "weighted"):
        subs.append(SubCheck(f"cp/parafac/fixed_linesearch_{wc}",
                             _cp_case("parafac", wc, budgets=(7, 8, 9, 12), fixed="nonempty", linesearch=True), o_cp,
                             quick=150, thorough=1200, discard_exc=LINALG))
    subs.append(SubCheck("cp/nn_hals/fixed_last_tol0_unit", _cp_case("nn_hals", "unit", fixed="with_last"), o_cp, quick=250,
                         thorough=1200, discard_exc=LINALG))
    subs.append(SubCheck("tucker/budget0", _tucker_case("tucker", fixed="proper", budgets=(0,)), o_tucker, quick=400, thorough=2500,
                         discard_exc=LINALG))
    subs.append(SubCheck("tucker/fixed", _tucker_case("tucker", fixed="nonempty"), o_tucker, quick=400, thorough=2500,
                         discard_exc=LINALG))
    subs.append(SubCheck("tucker/fixed_nonorth", _tucker_case("tucker", fixed="nonempty", orth=False), o_tucker, quick=250,
                         thorough=1500, discard_exc=LINALG))
    subs.append(SubCheck("tucker/all_fixed", _tucker_case("tucker", fixed="all"), o_tucker, quick=200, thorough=1000,
                         discard_exc=LINALG))
    subs.append(SubCheck("ntd_hals/budget0", _tucker_case("ntd_hals", fixed="proper", budgets=(0,)), o_tucker, quick=250,
                         thorough=1500, discard_exc=LINALG))
    subs.append(SubCheck("ntd_hals/fixed", _tucker_case("ntd_hals", fixed="nonempty"), o_tucker, quick=250, thorough=1500,
                         discard_exc=LINALG))
    subs.append(SubCheck("ntd_mu/budget0", _tucker_case("ntd_mu", fixed="none", budgets=(0,)), o_tucker, quick=200, thorough=1000,
                         discard_exc=LINALG))
    subs.append(SubCheck("partial_tucker/budget0", _partial_tucker_case(), o_partial_tucker, quick=100, thorough=1000,
                         discard_exc=LINALG))
    # sampled ALS (seeded change C14-r2m2): weights of a user init must not be dropped
    subs.append(SubCheck("cp/randomised/unit", _rcp_case("unit"), o_rcp, quick=100, thorough=1000, discard_exc=LINALG))
    subs.append(SubCheck("cp/randomised/weighted", _rcp_case("weighted"), o_rcp, quick=150, thorough=1500, discard_exc=LINALG))
    subs.append(SubCheck("parafac2/budget0_p2", _p2_case("p2"), o_p2_budget0, quick=300, thorough=2000, discard_exc=LINALG))
    subs.append(SubCheck("parafac2/budget0_cp", _p2_case("cp"), o_p2_budget0, quick=300, thorough=2000, discard_exc=LINALG))
    subs.append(SubCheck("parafac2/reexpress", _p2_case("p2", budgets=(1, 2, 3), wclass="weighted"), o_p2_reexpress, quick=200,
                         thorough=1000, discard_exc=LINALG))
    # line-search steps of parafac2 happen at iteration indices 6, 8, 10
    subs.append(SubCheck("parafac2/reexpress_linesearch", _p2_case("p2", budgets=(7, 8, 9, 12), wclass="weighted", linesearch=True),
                         o_p2_reexpress, quick=80, thorough=600, discard_exc=LINALG))
    return subs
