"""C07 - exact block-coordinate algorithms never increase their objective."""
import numpy as np
from hypothesis import strategies as st

from vlib import x_iter as xi
from vlib.engine import SubCheck, check, discard
from props import c06 as g          # case strategies shared with C06

PROPERTY = "C07"
RULE = ("Cases as in C06 (order 2-4 incl. 2 and 4, sides 2-5, Gaussian / non-negative / integer / low-rank data, rank 1-3 "
        "mostly <= mode sizes, svd / random / user initialisation, normalisation on/off) restricted to the algorithms whose "
        "sweeps solve each block exactly: parafac (+- normalise, +- linesearch), non_negative_parafac_hals (no sparsity, "
        "nn_modes subsets), tucker / partial_tucker, parafac2 (+- nn_modes, +- linesearch), tensor_ring_als (both solvers), "
        "CMTF, hals_nnls (+- sparsity / ridge, penalised objective), CPRegressor / TuckerRegressor (ridge objective). "
        "Iterates come from deep-copying callbacks or prefix runs n_iter_max = 1..K with the same seed; the objective is "
        "recomputed from every iterate with vlib.ref. Oracle: f_{k+1} <= f_k (1 + 1e-9) + 1e-12 (|X|^2 + magnitude of the "
        "iterates' components) for all consecutive sweeps; the same for the library's reported errors (squared). "
        "A case is discarded (counted) when the library raises LinAlgError or a normal-equation matrix rebuilt from an "
        "iterate has 2-norm condition number > 1e8 (lstsq paths: design matrix, after removing numerically zero singular "
        "values). Non-trivial: at least 3 sweeps and a relative decrease > 1e-6 somewhere; distinct = distinct case hash.")
ASSUMPTIONS = ["NumPy einsum / tensordot / linalg.svd / linalg.cond are correct", "Hypothesis generates what its strategies describe",
               "prefix runs: the algorithms are deterministic given the seed (property C16)",
               "conditioning is judged on the iterates at the sweep boundaries (mid-sweep values are not observable)"]
LinAlg = (np.linalg.LinAlgError,)


# ----------------------------------------------------------------------------
# oracles
# ----------------------------------------------------------------------------
def _labels(case, fs, n_sweeps, extra=()):
    X = case.get("X", {})
    lb = []
    if "s" in X:
        lb.append(f"order={len(X['s'])}")
    if "k" in X:
        lb.append(f"data={X['k']}")
    if "init" in case:
        lb.append(f"init={case['init']['kind']}")
    lb.append(f"sweeps={min(n_sweeps, 12)}")
    return {"nontrivial": xi.mono_nontrivial(fs, n_sweeps), "labels": lb + list(extra)}


def _precondition(A, snaps, case):
    for _, s in snaps:
        xi.require_conditioned(A.cond(s, case))


def _mag(A, snaps):
    m = 0.0
    for _, s in snaps:
        v = A.mag(s)
        if v is not None and np.isfinite(v):
            m = max(m, v)
    return m


def o_objective(A, via):
    """objective recomputed from every captured iterate is non-increasing"""
    def oracle(case):
        data = A.data(case)
        xv = A.xvec(data)
        x2 = float(xv @ xv)
        snaps, _, n_sweeps = xi.trace(A, data, case, via)
        _precondition(A, snaps, case)
        fs = [A.objective(s, data, case, xv) for _, s in snaps]
        xi.check_monotone(fs, x2 + _mag(A, snaps), "objective/monotone", first_index=snaps[0][0])
        return _labels(case, fs, len(fs) - (1 if snaps[0][0] == 0 else 0))
    return oracle


def o_reported(A, via):
    """the library's own error history (squared) is non-increasing"""
    def oracle(case):
        data = A.data(case)
        xv = A.xvec(data)
        x2 = float(xv @ xv)
        snaps, errs, n_sweeps = xi.trace(A, data, case, via)
        _precondition(A, snaps, case)
        errs = xi.all_finite(errs, "reported")
        fs = [A.reported_sq(e, x2) for e in errs]
        xi.check_monotone(fs, x2 + _mag(A, snaps), "reported/monotone", first_index=1)
        return _labels(case, fs, len(fs))
    return oracle


def o_ls_step(A):
    """one line-search sweep in isolation: the iterate after iteration L (a line-search iteration, L in
    {6, 8, 10}) against the iterate before it (runs n_iter_max = L+1 and L).  Five times cheaper than the
    full prefix trace, so that the rare harmful jump (an extrapolation that is worse than the previous
    iterate: 0.6 % of the jumps) is met often enough to notice a line search that accepts everything."""
    def oracle(case):
        data = A.data(case)
        xv = A.xvec(data)
        x2 = float(xv @ xv)
        L = int(case["ls_iter"])
        snaps = []
        for k in (L, L + 1):
            dec, _ = A.run(data, case, k)
            snaps.append((k, A.copy(dec)))
        _precondition(A, snaps, case)
        fs = [A.objective(s, data, case, xv) for _, s in snaps]
        xi.check_monotone(fs, x2 + _mag(A, snaps), "objective/monotone@ls-step", first_index=L)
        return {"nontrivial": bool(fs[0] - fs[1] > 1e-6 * max(fs[0], 1e-300)),
                "labels": [f"ls_iter={L}", f"data={case['X']['k']}", f"nn={case.get('nn_modes')}"]}
    return oracle


@st.composite
def ls_step_case(draw):
    c = draw(g.parafac2_case("linesearch", iters=[11], tols=TOL, nn_choices=([0], [2], [0, 2], "all", [1])))
    c["ls_iter"] = draw(st.sampled_from([6, 8, 10]))
    return c


def o_nnls(case):
    U, M, V0, its, out = xi.run_hals_nnls(case)
    check(len(its) >= 1, "callback/invoked", "hals_nnls never invoked the callback")
    seq = list(its)
    first = 1
    if V0 is not None:          # supplied initial point is feasible (>= epsilon) by construction
        seq = [V0] + seq
        first = 0
    for i, V in enumerate(seq):
        check(V.shape == (case["r"], case["n"]), "structure", lambda: f"iterate {i} has shape {V.shape}")
    fs = [xi.nnls_objective(U, M, V, case) for V in seq]
    m2 = float(np.sum(M ** 2))
    mag = max(float(np.sum(U ** 2)) * float(np.sum(V ** 2)) for V in seq)
    xi.check_monotone(fs, m2 + mag, "objective/monotone", first_index=first)
    # the returned V is the last iterate handed to the callback
    check(np.array_equal(out, its[-1]), "returned/last-iterate", "returned V differs from the last callback iterate")
    return {"nontrivial": xi.mono_nontrivial(fs, len(its)),
            "labels": [f"v0={case['v0']}", f"u={case['ukind']}", f"iters={min(len(its), 30)}", f"eps={case['epsilon']}"]}


def o_regressor(kind):
    def oracle(case):
        X, y = xi.regr_data(case)
        seq = []
        for k in range(1, case["n_iter"] + 1):
            snap, n_it = xi.regr_fit(case, kind, k)
            seq.append((xi.regr_blocks(snap, kind), n_it))
        for blocks, _ in seq:
            xi.require_conditioned(xi.regr_cond(blocks, kind, case, X), "ridge normal equations")
        fs = [xi.regr_objective(b, kind, case, X, y) for b, _ in seq]
        y2 = float(np.sum(y ** 2))
        mag = max(float(np.sum(xi.regr_weight(b, kind, case) ** 2)) for b, _ in seq) * float(np.sum(X ** 2))
        xi.check_monotone(fs, y2 + mag, "objective/monotone", first_index=1)
        return {"nontrivial": xi.mono_nontrivial(fs, len(fs)),
                "labels": [f"reg={case['reg']}", f"xorder={len(case['xs'])}", f"yorder={len(case['ys'])}", f"y={case['ykind']}"]}
    return oracle


# ----------------------------------------------------------------------------
# case strategies (C06's, restricted to the claimed option sets)
# ----------------------------------------------------------------------------
C7_KINDS = ("normal", "nonneg", "int", "lowrank_noise", "lowrank", "tucker")
TOL = (1e-14,)


def parafac_opts(group):
    def f(draw, c):
        order = len(c["X"]["s"])
        o = {"cvg": draw(st.sampled_from(["abs_rec_error", "rec_error"]))}
        if group in ("normalize", "normalize_o2"):
            o["normalize"] = True
        if group == "linesearch":
            o["linesearch"] = True
            o["normalize"] = bool(order >= 3 and draw(st.booleans()))
        if group == "fixed_modes":
            o["fixed_modes"] = g.fixed_modes_of(draw, order)
            o["normalize"] = draw(st.booleans())
        return o
    return f


def hals_opts(group):
    def f(draw, c):
        order = len(c["X"]["s"])
        o = {"normalize": group in ("normalize", "normalize_o2")}
        if group == "fixed_modes":
            o["fixed_modes"] = g.fixed_modes_of(draw, order)
            o["normalize"] = draw(st.booleans())
        nn = draw(st.sampled_from(["all", "all", "subset", "none"]))
        if nn == "subset":
            o["nn_modes"] = sorted(draw(st.sets(st.integers(0, order - 1), min_size=1, max_size=order - 1)))
        elif nn == "none":
            o["nn_modes"] = None
        else:
            o["nn_modes"] = "all"
        return o
    return f


def subchecks(tier):
    S = []

    def add(name, strat, oracle, quick=50, thorough=250, exc=LinAlg, **kw):
        S.append(SubCheck(name, strat, oracle, quick=4 * quick, thorough=4 * thorough, discard_exc=exc,
                          budget_quick=45.0, budget_thorough=100.0, shards_thorough=2, **kw))

    # --- parafac (callback iterates, incl. the initial one) ------------------
    P = xi.Parafac()
    its = [3, 7, 8, 9, 12]
    # fixed_modes: block-coordinate descent over the free modes only; user CP init whose columns are not unit-norm,
    # with / without weights, with / without normalize_factors (which rescales the fixed factors as well)
    for grp, kw in {"plain": dict(orders=(2, 3, 4)), "normalize": dict(orders=(3, 4)), "normalize_o2": dict(orders=(2,)),
                    "linesearch": dict(orders=(2, 3, 4)),
                    "fixed_modes": dict(orders=(2, 3, 4), inits=("user",), iweights=("none", "ones", "pos", "mixed"))}.items():
        if grp == "linesearch":
            # data scale class (||X|| both << 1 and >> 1) and runs long enough for the line-search iterations
            # 6, 8, ..., 22: a jump test that mixes absolute and relative errors only misbehaves for ||X|| < 1
            kw = dict(kw, scales=xi.SCALES)
            strat = g.cp_case(kinds=C7_KINDS, opts=parafac_opts(grp), iters=[7, 9, 12, 17, 24, 24], tols=TOL, **kw)
        else:
            strat = g.cp_case(kinds=C7_KINDS, opts=parafac_opts(grp), iters=its, tols=TOL, **kw)
        add(f"parafac/{grp}/objective", strat, o_objective(P, "callback"), quick=100, thorough=500)
        add(f"parafac/{grp}/reported", strat, o_reported(P, "callback"), quick=100, thorough=500)

    # --- non_negative_parafac_hals (prefix runs) -----------------------------
    H = xi.NNParafacHALS()
    nn_kinds = ("nonneg", "lowrank_nonneg", "normal", "int", "lowrank_noise")
    for grp, kw in {"plain": dict(orders=(2, 3, 4)), "normalize": dict(orders=(3, 4)), "normalize_o2": dict(orders=(2,)),
                    "fixed_modes": dict(orders=(2, 3, 4), inits=("user",), iweights=("none", "ones", "pos"))}.items():
        kw.setdefault("inits", ("random", "svd", "user"))
        strat = g.cp_case(kinds=nn_kinds, opts=hals_opts(grp), iters=[3, 4, 6], tols=TOL, **kw)
        add(f"non_negative_parafac_hals/{grp}/objective", strat, o_objective(H, "prefix"), quick=14, thorough=80)
        add(f"non_negative_parafac_hals/{grp}/reported", strat, o_reported(H, "prefix"), quick=14, thorough=80)

    # --- Tucker / HOOI ---------------------------------------------------------
    T, PT = xi.TuckerHOOI(), xi.PartialTucker()
    add("tucker/objective", g.tucker_case(tols=TOL, iters=[3, 5, 8]), o_objective(T, "prefix"), quick=60, thorough=300)
    add("tucker/reported", g.tucker_case(tols=TOL, iters=[3, 5, 8]), o_reported(T, "prefix"), quick=60, thorough=300)
    add("partial_tucker/objective", g.tucker_case(partial=True, tols=TOL, iters=[3, 5, 8]), o_objective(PT, "prefix"),
        quick=60, thorough=300)
    add("partial_tucker/reported", g.tucker_case(partial=True, tols=TOL, iters=[3, 5, 8]), o_reported(PT, "prefix"),
        quick=60, thorough=300)

    # --- PARAFAC2 ----------------------------------------------------------------
    F2 = xi.Parafac2()
    # nn_modes within {0, 2} when combined with line search (DESIGN); without line search mode 1 may be included.
    # 'linesearch_nn1' = line search + nn_modes containing mode 1: kept apart (defect N2 in notes/c07.md: an accepted
    # jump is not clipped on mode 1, the next HALS sweep starts from an infeasible B and the objective rises)
    for grp in ("plain", "nn", "linesearch", "linesearch_nn1"):
        pits = {"nn": [3, 4], "linesearch": [8, 9, 11], "linesearch_nn1": [8, 9]}.get(grp, [3, 5, 8])
        q = {"nn": 15, "linesearch": 10, "linesearch_nn1": 6}.get(grp, 30)
        nnc = ([0], [2], [0, 2]) if grp == "linesearch" else ([0], [2], [0, 2], "all", [1], [0, 1])
        add(f"parafac2/{grp}/objective", g.parafac2_case(grp, iters=pits, tols=TOL, nn_choices=nnc),
            o_objective(F2, "prefix"), quick=q, thorough=4 * q)
        add(f"parafac2/{grp}/reported", g.parafac2_case(grp, iters=pits, tols=TOL, nn_choices=nnc),
            o_reported(F2, "prefix"), quick=q, thorough=4 * q)

    add("parafac2/linesearch_step/objective", ls_step_case(), o_ls_step(F2), quick=40, thorough=120)

    # --- tensor ring ALS (callback iterates) -----------------------------------------
    TR = xi.TensorRingALS()
    for solver in ("lstsq", "normal_eq"):
        # noisy data only: on exactly low-rank data the sub-chain design matrices become rank deficient
        # (ill-posed block problems, discarded by the conditioning rule) in a third of the cases
        strat = g.tr_case(solver, iters=its, tols=(0.0, 1e-14), kinds=xi.KINDS_NOISY)
        add(f"tensor_ring_als/{solver}/objective", strat, o_objective(TR, "callback"), quick=100, thorough=500)
        add(f"tensor_ring_als/{solver}/reported", strat, o_reported(TR, "callback"), quick=100, thorough=500)

    # --- CMTF (prefix runs) ---------------------------------------------------------------
    CM = xi.CMTF()
    add("cmtf/objective", g.cmtf_case(tols=TOL, iters=[3, 5, 8]), o_objective(CM, "prefix"), quick=60, thorough=300)
    add("cmtf/reported", g.cmtf_case(tols=TOL, iters=[3, 5, 8]), o_reported(CM, "prefix"), quick=60, thorough=300)

    # --- hals_nnls -------------------------------------------------------------------------
    for grp in ("plain", "sparsity", "ridge", "both"):
        add(f"hals_nnls/{grp}/objective", xi.nnls_case(grp), o_nnls, quick=150, thorough=750)

    # --- regressors (prefix runs) ---------------------------------------------------------------
    add("cp_regressor/objective", xi.regr_case("cp"), o_regressor("cp"), quick=40, thorough=200)
    add("cp_regressor_multi_output/objective", xi.regr_case("cp_out"), o_regressor("cp_out"), quick=40, thorough=200)
    add("tucker_regressor/objective", xi.regr_case("tucker"), o_regressor("tucker"), quick=40, thorough=200)
    return S
