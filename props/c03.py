"""C03 — factorised tensors reconstruct to their defining contraction; views agree;
structurally invalid factor sets are rejected at the validating entry points.

Each case is evaluated under both tenalg backends.  The dense reference is computed
without tensorly (vlib/ref.py einsum-sublist forms, cross-checked against the explicit
entry-formula loops of vlib/x_c02.py)."""
import numpy as np
from hypothesis import strategies as st

import tensorly as tl
from tensorly.cp_tensor import CPTensor, _validate_cp_tensor
from tensorly.tucker_tensor import TuckerTensor, _validate_tucker_tensor
from tensorly.tt_tensor import TTTensor, _validate_tt_tensor
from tensorly.tr_tensor import TRTensor, _validate_tr_tensor
from tensorly.tt_matrix import TTMatrix, _validate_tt_matrix
from tensorly import parafac2_tensor as P2
from tensorly.parafac2_tensor import Parafac2Tensor, _validate_parafac2_tensor

from vlib import gen, ref, x_c02 as X
from vlib.engine import SubCheck, check, Fail, discard
from vlib.cmp import close, as_array
from vlib.util import tenalg_backend, TENALG_BACKENDS

PROPERTY = "C03"
RULE = ("Hypothesis: CP (order 2-5, sides 1-4, rank 1-4, weights none/ones/positive/negative/mixed/with zeros, real and "
        "complex factors with real weights, tuple vs CPTensor, full and broadcastable masks), Tucker (order 2-4, core "
        "ranks 1-3 incl. rank > side, skip_factor / transpose_factors / modes), TT (order 1-5) and TR (order 2-5) cores "
        "with ranks 1-3, TT-matrix (1-3 cores, in/out sides 1-3), PARAFAC2 (1-4 slices of uneven length J_i in [R, R+3], "
        "K 1-4, orthonormal projections); both tenalg backends. Oracle: dense reference (einsum sublists, cross-checked "
        "with entry-formula loops), then to_tensor / to_unfolded(every mode) / to_vec / to_matrix / slices / padded tensor "
        "/ masked tensor / wrapper shape+rank / factor-based norm against it (rel 1e-10 x magnitude bound of the "
        "contraction; norm^2 with the cancellation-aware scale sum|Gram terms|). Rejection: one structural corruption per "
        "case; every validating entry point (wrapper constructor, _validate_*, converters that validate) must raise. "
        "Histories: one wrapper object (CPTensor, TuckerTensor, TTTensor, TRTensor, TTMatrix, Parafac2Tensor), 2-5 drawn "
        "operations (views, in-place / copying mode products, normalize, component assignments); after every operation all "
        "views must agree with the dense reference of the object's current components and with a model of the history "
        "(non-trivial: at least one mutation). Reject histories: a valid factor set is validated by 1-2 entry points, one "
        "component is corrupted IN PLACE (values of the same array, in-place reshape of the same array, edit of the same "
        "list) and every validating entry point must then raise; conversely corrupt -> rejected -> repaired in place -> "
        "every entry point accepts and reconstructs the valid tensor. "
        "Non-trivial: order >= 3 or rank >= 2 (reject cases: always); distinct = distinct case hash.")
ASSUMPTIONS = ["NumPy einsum (sublist form), tensordot, trace, matmul, qr are correct",
               "Hypothesis generates what its strategies describe",
               "CP / PARAFAC2 weights are real",
               "rejection is required only at validating entry points, not for raw tt_to_tensor(list) etc."]

KINDS = ("int", "normal")
REL = 1e-10
first = st.sampled_from(["core", "einsum"])


def _order(case):
    bks = list(TENALG_BACKENDS)
    return bks if case.get("first", "core") == "core" else bks[::-1]


def _unfoldings(dense):
    return [ref.unfold_fast(dense, m) for m in range(dense.ndim)]


def _check_unfold_ref(dense):
    # the fast (transpose) unfolding is the reference here; keep it honest against the index loop on small tensors
    if dense.size <= 64:
        for m in range(dense.ndim):
            check(np.array_equal(ref.unfold(dense, m), ref.unfold_fast(dense, m)), "harness/unfold-references-agree")


# ============================================================================
# CP
# ============================================================================
@st.composite
def _cp_case(draw, max_order=5, mask=None):
    shape = draw(X.shapes(2, max_order, 1, 4).filter(lambda s: gen.prod(s) <= 512))
    R = draw(st.integers(1, 4))
    cplx = draw(st.integers(0, 3)) == 0
    c = {"first": draw(first), "shape": shape, "rank": R, "cplx": cplx, "wrap": draw(st.booleans()),
         "cp": draw(gen.cp_factors(shape, R, kinds=KINDS, complex_=cplx))}
    if mask == "full":
        n = gen.prod(shape)
        c["mask"] = {"s": shape, "d": draw(st.lists(st.integers(0, 2), min_size=n, max_size=n))}
        c["mkind"] = "full"
    elif mask == "broadcast":
        kind = draw(st.sampled_from(["ones_dims", "ones_dims", "trailing"]))
        if kind == "ones_dims":
            keep = [draw(st.booleans()) for _ in shape]
            if all(k or s == 1 for k, s in zip(keep, shape)):
                # make sure at least one real broadcast happens when possible
                big = [i for i, s in enumerate(shape) if s > 1]
                if big:
                    keep[big[draw(st.integers(0, len(big) - 1))]] = False
            ms = [s if k else 1 for k, s in zip(keep, shape)]
        else:
            k = draw(st.integers(1, len(shape) - 1))
            ms = shape[len(shape) - k:]
        n = gen.prod(ms)
        c["mask"] = {"s": ms, "d": draw(st.lists(st.integers(0, 2), min_size=n, max_size=n))}
        c["mkind"] = kind
    return c


def _cp_build(case):
    w, fs = gen.dec_cp(case["cp"])
    return CPTensor((w, fs)) if case["wrap"] else (w, fs)


def _cp_ref(case):
    w, fs = gen.dec_cp(case["cp"])
    dense = ref.cp_dense(w, fs)
    scale = case["rank"] * (1.0 if w is None else X.amax(w)) * float(np.prod([X.amax(f) for f in fs]))
    return w, fs, dense, scale


def _cp_info(case, extra=()):
    return {"nontrivial": len(case["shape"]) >= 3 or case["rank"] >= 2,
            "labels": [f"order={len(case['shape'])}", f"rank={case['rank']}", f"weights={case['cp']['wkind']}",
                       f"wrap={case['wrap']}", f"complex={case['cplx']}",
                       f"size1_mode={1 in case['shape']}"] + list(extra)}


def o_cp_tensor(case):
    w, fs, dense, scale = _cp_ref(case)
    close(X.cp_dense_loop(w, fs), dense, "harness/cp-references-agree", rel=1e-12, scale=scale)
    for bk in _order(case):
        with tenalg_backend(bk):
            got = tl.cp_to_tensor(_cp_build(case))
        close(got, dense, f"cp_to_tensor@{bk}", rel=REL, scale=scale)
    return _cp_info(case)


def o_cp_unfolded(case):
    w, fs, dense, scale = _cp_ref(case)
    _check_unfold_ref(dense)
    unf = _unfoldings(dense)
    for bk in _order(case):
        for m in range(dense.ndim):
            with tenalg_backend(bk):
                got = tl.cp_to_unfolded(_cp_build(case), m)
            close(got, unf[m], f"cp_to_unfolded@{bk}", rel=REL, scale=scale)
    return _cp_info(case)


def o_cp_vec(case):
    w, fs, dense, scale = _cp_ref(case)
    for bk in _order(case):
        with tenalg_backend(bk):
            got = tl.cp_to_vec(_cp_build(case))
        close(got, dense.reshape(-1), f"cp_to_vec@{bk}", rel=REL, scale=scale)
    return _cp_info(case)


def o_cp_mask(case):
    w, fs, dense, scale = _cp_ref(case)
    mk = gen.dec(case["mask"])
    want = dense * mk      # NumPy broadcasting = "broadcastable to the shape of the final tensor"
    for bk in _order(case):
        with tenalg_backend(bk):
            got = tl.cp_to_tensor(_cp_build(case), mask=gen.dec(case["mask"]))
        close(got, want, f"cp_to_tensor(mask:{case['mkind']})@{bk}", rel=REL, scale=scale * max(1.0, X.amax(mk)))
    return _cp_info(case, [f"mask={case['mkind']}"])


def o_cp_wrapper(case):
    w, fs, dense, scale = _cp_ref(case)
    shape, R = tuple(case["shape"]), case["rank"]
    for bk in _order(case):
        with tenalg_backend(bk):
            vs, vr = _validate_cp_tensor((w, fs))
            check(tuple(vs) == shape and vr == R, f"_validate_cp_tensor/shape_rank@{bk}",
                  lambda: f"returned {(vs, vr)} for shape {shape} rank {R}")
            obj = CPTensor((w, fs))
            check(tuple(obj.shape) == shape, f"CPTensor.shape@{bk}", lambda: f"{obj.shape} != {shape}")
            check(obj.rank == R, f"CPTensor.rank@{bk}", lambda: f"{obj.rank} != {R}")
            check(len(obj) == 2 and len(obj.factors) == len(shape), f"CPTensor/len@{bk}")
            ww = as_array(obj.weights, f"CPTensor.weights@{bk}")
            close(ww, np.ones(R) if w is None else w, f"CPTensor.weights@{bk}", rel=0.0)
            w2, f2 = obj   # unpacking protocol
            check(w2 is obj.weights and f2 is obj.factors, f"CPTensor/unpack@{bk}")
            vs2, vr2 = _validate_cp_tensor(obj)
            check(tuple(vs2) == shape and vr2 == R, f"_validate_cp_tensor(CPTensor)@{bk}")
            close(obj.to_tensor(), dense, f"CPTensor.to_tensor@{bk}", rel=REL, scale=scale)
            close(obj.to_vec(), dense.reshape(-1), f"CPTensor.to_vec@{bk}", rel=REL, scale=scale)
            m = case["mode"] % len(shape)
            close(obj.to_unfolded(m), ref.unfold_fast(dense, m), f"CPTensor.to_unfolded@{bk}", rel=REL, scale=scale)
    return _cp_info(case)


@st.composite
def _cp_wrapper_case(draw):
    c = draw(_cp_case(max_order=4))
    c["mode"] = draw(st.integers(0, 4))
    return c


def o_cp_norm(case):
    w, fs, dense, scale = _cp_ref(case)
    R = case["rank"]
    want2 = float(np.sum(np.abs(dense) ** 2))
    gram = np.ones((R, R), dtype=complex)
    for f in fs:
        gram = gram * (f.T @ np.conj(f))
    if w is not None:
        gram = gram * np.outer(w, w)
    S = float(np.sum(np.abs(gram)))
    for bk in _order(case):
        with tenalg_backend(bk):
            cp = _cp_build(case)
            got = tl.cp_norm(cp)
            got_m = cp.norm() if case["wrap"] else None
        g = as_array(got, f"cp_norm@{bk}")
        check(g.shape == (), f"cp_norm/scalar@{bk}", lambda: f"shape {g.shape}")
        close(g * g, np.asarray(want2), f"cp_norm^2@{bk}", rel=1e-9, scale=S)
        check(abs(complex(g).imag) <= 1e-9 * max(np.sqrt(S), 1e-300) and complex(g).real >= 0, f"cp_norm/real_nonneg@{bk}",
              lambda: f"norm = {complex(g)!r}")
        if got_m is not None:
            gm = as_array(got_m, f"CPTensor.norm@{bk}")
            close(gm * gm, np.asarray(want2), f"CPTensor.norm^2@{bk}", rel=1e-9, scale=S)
    info = _cp_info(case)
    info["labels"].append(f"cancelling={want2 < 0.5 * S}")
    return info


@st.composite
def _cp_bad_case(draw):
    shape = draw(X.shapes(2, 4, 1, 4))
    R = draw(st.integers(1, 3))
    kind = draw(st.sampled_from(["rank_mismatch", "weights_len", "factor_3d"]))
    c = {"shape": shape, "rank": R, "kind": kind, "wkind_none": draw(st.booleans()), "seed": draw(gen.seeds),
         "pos": draw(st.integers(0, len(shape) - 1)), "delta": draw(st.sampled_from([-1, 1, 2]))}
    return c


def _cp_bad_build(case):
    rs = np.random.RandomState(case["seed"])
    shape, R = case["shape"], case["rank"]
    fs = [rs.standard_normal((s, R)) for s in shape]
    w = None if case["wkind_none"] else rs.standard_normal(R)
    kind, pos = case["kind"], case["pos"]
    d = case["delta"] if R + case["delta"] >= 1 else 1
    if kind == "rank_mismatch":
        fs[pos] = rs.standard_normal((shape[pos], R + d))
    elif kind == "weights_len":
        w = rs.standard_normal(R + d)
    else:
        fs[pos] = fs[pos].reshape(shape[pos], R, 1)
    return w, fs


def _must_raise(entries, clause_prefix, what):
    for name, fn in entries:
        try:
            r = fn()
        except Exception:   # any exception is a rejection
            continue
        raise Fail(f"{clause_prefix}/{name}", f"{what} accepted; returned {type(r).__name__}")


def o_cp_bad(case):
    what = f"CP {case['kind']} (shape {case['shape']}, rank {case['rank']}, pos {case['pos']}, delta {case['delta']})"
    for bk in TENALG_BACKENDS:
        with tenalg_backend(bk):
            _must_raise([
                ("CPTensor", lambda: CPTensor(_cp_bad_build(case))),
                ("_validate_cp_tensor", lambda: _validate_cp_tensor(_cp_bad_build(case))),
                ("cp_to_tensor", lambda: tl.cp_to_tensor(_cp_bad_build(case))),
                ("cp_to_unfolded", lambda: tl.cp_to_unfolded(_cp_bad_build(case), 0)),
                ("cp_to_vec", lambda: tl.cp_to_vec(_cp_bad_build(case))),
                ("cp_norm", lambda: tl.cp_norm(_cp_bad_build(case))),
            ], f"cp/reject:{case['kind']}@{bk}", what)
    return {"nontrivial": True, "labels": [f"kind={case['kind']}", f"pos0={case['pos'] == 0}"]}


# ============================================================================
# Tucker
# ============================================================================
@st.composite
def _tucker_case(draw, options=False):
    shape = draw(X.shapes(2, 4, 1, 4))
    ranks = [draw(st.integers(1, 3)) for _ in shape]
    cplx = draw(st.integers(0, 3)) == 0
    c = {"first": draw(first), "shape": shape, "ranks": ranks, "cplx": cplx, "wrap": draw(st.booleans()),
         "tk": draw(gen.tucker_factors(shape, ranks, kinds=KINDS, complex_=cplx)),
         "skip": None, "transpose": False, "modes": None, "mode": draw(st.integers(0, 3))}
    if options:
        opt = draw(st.sampled_from(["skip", "transpose", "skip+transpose", "modes", "modes+transpose", "modes+skip"]))
        c["opt"] = opt
        nd = len(shape)
        if "modes" in opt:
            k = draw(st.integers(1, nd))
            c["modes"] = sorted(draw(st.permutations(list(range(nd))))[:k])
        nf = nd if c["modes"] is None else len(c["modes"])
        if "skip" in opt:
            c["skip"] = draw(st.integers(0, nf - 1))
        c["transpose"] = "transpose" in opt
        c["wrap"] = False
    return c


def _tucker_parts(case):
    core = gen.dec(case["tk"]["core"])
    fs = [gen.dec(f) for f in case["tk"]["factors"]]
    return core, fs


def _tucker_scale(core, fs, ranks):
    s = X.amax(core)
    for f, r in zip(fs, ranks):
        s *= X.amax(f) * r
    return s


def _tucker_build(case):
    core, fs = _tucker_parts(case)
    return TuckerTensor((core, fs)) if case["wrap"] else (core, fs)


def _tucker_info(case, extra=()):
    return {"nontrivial": len(case["shape"]) >= 3 or max(case["ranks"]) >= 2,
            "labels": [f"order={len(case['shape'])}", f"wrap={case['wrap']}", f"complex={case['cplx']}",
                       f"rank_gt_side={any(r > s for r, s in zip(case['ranks'], case['shape']))}",
                       f"size1_mode={1 in case['shape']}"] + list(extra)}


def o_tucker_tensor(case):
    core, fs = _tucker_parts(case)
    dense = ref.tucker_dense(core, fs)
    scale = _tucker_scale(core, fs, case["ranks"])
    for bk in _order(case):
        with tenalg_backend(bk):
            got = tl.tucker_to_tensor(_tucker_build(case))
        close(got, dense, f"tucker_to_tensor@{bk}", rel=REL, scale=scale)
    return _tucker_info(case)


def o_tucker_views(case):
    core, fs = _tucker_parts(case)
    dense = ref.tucker_dense(core, fs)
    _check_unfold_ref(dense)
    scale = _tucker_scale(core, fs, case["ranks"])
    unf = _unfoldings(dense)
    for bk in _order(case):
        with tenalg_backend(bk):
            for m in range(dense.ndim):
                close(tl.tucker_to_unfolded(_tucker_build(case), m), unf[m], f"tucker_to_unfolded@{bk}", rel=REL, scale=scale)
            close(tl.tucker_to_unfolded(_tucker_build(case)), unf[0], f"tucker_to_unfolded(default mode)@{bk}", rel=REL, scale=scale)
            close(tl.tucker_to_vec(_tucker_build(case)), dense.reshape(-1), f"tucker_to_vec@{bk}", rel=REL, scale=scale)
    return _tucker_info(case)


def o_tucker_wrapper(case):
    core, fs = _tucker_parts(case)
    dense = ref.tucker_dense(core, fs)
    scale = _tucker_scale(core, fs, case["ranks"])
    shape, ranks = tuple(case["shape"]), tuple(case["ranks"])
    for bk in _order(case):
        with tenalg_backend(bk):
            vs, vr = _validate_tucker_tensor((core, fs))
            check(tuple(vs) == shape and tuple(vr) == ranks, f"_validate_tucker_tensor@{bk}", lambda: f"{(vs, vr)}")
            obj = TuckerTensor((core, fs))
            check(tuple(obj.shape) == shape, f"TuckerTensor.shape@{bk}", lambda: f"{obj.shape} != {shape}")
            check(tuple(obj.rank) == ranks, f"TuckerTensor.rank@{bk}", lambda: f"{obj.rank} != {ranks}")
            c2, f2 = obj
            check(c2 is obj.core and f2 is obj.factors and len(obj) == 2, f"TuckerTensor/unpack@{bk}")
            close(obj.to_tensor(), dense, f"TuckerTensor.to_tensor@{bk}", rel=REL, scale=scale)
            close(obj.to_vec(), dense.reshape(-1), f"TuckerTensor.to_vec@{bk}", rel=REL, scale=scale)
            m = case["mode"] % len(shape)
            close(obj.to_unfolded(m), ref.unfold_fast(dense, m), f"TuckerTensor.to_unfolded@{bk}", rel=REL, scale=scale)
            nrm = as_array(obj.norm(), f"TuckerTensor.norm@{bk}")
            close(nrm, np.asarray(np.sqrt(np.sum(np.abs(dense) ** 2))), f"TuckerTensor.norm@{bk}", rel=1e-9,
                  scale=scale * np.sqrt(dense.size))
    return _tucker_info(case)


def o_tucker_options(case):
    core = gen.dec(case["tk"]["core"])
    fs_all = [gen.dec(f) for f in case["tk"]["factors"]]
    nd = core.ndim
    modes = case["modes"] if case["modes"] is not None else list(range(nd))
    tr, skip = case["transpose"], case["skip"]
    fs = [fs_all[m] for m in modes]          # one factor per listed mode
    eff_f, eff_m = [], []
    for i, (f, m) in enumerate(zip(fs, modes)):
        if skip is not None and i == skip:
            continue
        eff_f.append(f)
        eff_m.append(m)
    dense = ref.tucker_dense(core, eff_f, eff_m)
    # only the factors that are applied enter the magnitude bound (a skipped all-zero factor must not zero it)
    scale = _tucker_scale(core, eff_f, [case["ranks"][m] for m in eff_m])

    def passed():
        # with transpose_factors the caller holds F^H (rank x size) and asks for conj(F^H)^T = F
        out = [gen.dec(case["tk"]["factors"][m]) for m in modes]
        return [np.conj(f.T).copy() for f in out] if tr else out
    for bk in _order(case):
        with tenalg_backend(bk):
            kw = {}
            if skip is not None:
                kw["skip_factor"] = skip
            if tr:
                kw["transpose_factors"] = True
            kw2 = dict(kw)
            if case["modes"] is not None:
                kw["modes"] = list(case["modes"])
            got = tl.tucker_to_tensor((gen.dec(case["tk"]["core"]), passed()), **kw)
            close(got, dense, f"tucker_to_tensor({case['opt']})@{bk}", rel=REL, scale=scale)
            if case["modes"] is None:
                m = case["mode"] % nd
                close(tl.tucker_to_unfolded((gen.dec(case["tk"]["core"]), passed()), m, **kw2), ref.unfold_fast(dense, m),
                      f"tucker_to_unfolded({case['opt']})@{bk}", rel=REL, scale=scale)
                close(tl.tucker_to_vec((gen.dec(case["tk"]["core"]), passed()), **kw2), dense.reshape(-1),
                      f"tucker_to_vec({case['opt']})@{bk}", rel=REL, scale=scale)
    return _tucker_info(case, [f"opt={case['opt']}"])


@st.composite
def _tucker_bad_case(draw):
    shape = draw(X.shapes(2, 4, 1, 4))
    ranks = [draw(st.integers(1, 3)) for _ in shape]
    kind = draw(st.sampled_from(["factor_rank", "n_factors", "core_order"]))
    return {"shape": shape, "ranks": ranks, "kind": kind, "seed": draw(gen.seeds), "pos": draw(st.integers(0, len(shape) - 1)),
            "delta": draw(st.sampled_from([-1, 1, 2]))}


def _tucker_bad_build(case):
    rs = np.random.RandomState(case["seed"])
    shape, ranks, pos = case["shape"], list(case["ranks"]), case["pos"]
    core = rs.standard_normal(ranks)
    fs = [rs.standard_normal((s, r)) for s, r in zip(shape, ranks)]
    if case["kind"] == "factor_rank":
        d = case["delta"] if ranks[pos] + case["delta"] >= 1 else 1
        fs[pos] = rs.standard_normal((shape[pos], ranks[pos] + d))
    elif case["kind"] == "n_factors":
        if case["delta"] > 0:
            fs.insert(pos, rs.standard_normal((shape[pos], ranks[pos])))
        else:
            fs.pop(pos)
    else:
        core = core.reshape(core.shape + (1,)) if case["delta"] > 0 else rs.standard_normal(ranks[:-1])
    return core, fs


def o_tucker_bad(case):
    what = f"Tucker {case['kind']} (shape {case['shape']}, ranks {case['ranks']}, pos {case['pos']}, delta {case['delta']})"
    for bk in TENALG_BACKENDS:
        with tenalg_backend(bk):
            _must_raise([
                ("TuckerTensor", lambda: TuckerTensor(_tucker_bad_build(case))),
                ("_validate_tucker_tensor", lambda: _validate_tucker_tensor(_tucker_bad_build(case))),
            ], f"tucker/reject:{case['kind']}@{bk}", what)
    return {"nontrivial": True, "labels": [f"kind={case['kind']}", f"delta={case['delta']}"]}


# ============================================================================
# TT / TR / TT-matrix  (chains of cores)
# ============================================================================
@st.composite
def _chain_case(draw, kind):
    """kind: 'tt' | 'tr' | 'ttm'"""
    if kind == "tt":
        shape = draw(X.shapes(1, 5, 1, 4).filter(lambda s: gen.prod(s) <= 512))
    elif kind == "tr":
        shape = draw(X.shapes(2, 5, 1, 4).filter(lambda s: gen.prod(s) <= 512))
    else:
        shape = draw(X.shapes(1, 3, 1, 3))
    n = len(shape)
    inner = [draw(st.integers(1, 3)) for _ in range(n - 1)]
    if kind == "tr":
        r0 = draw(st.integers(1, 3))
        ranks = [r0] + inner + [r0]
    else:
        ranks = [1] + inner + [1]
    cplx = draw(st.integers(0, 3)) == 0
    c = {"first": draw(first), "kind": kind, "shape": shape, "ranks": ranks, "cplx": cplx, "wrap": draw(st.booleans()),
         "mode": draw(st.integers(0, 5))}
    if kind == "ttm":
        out_shape = [draw(st.integers(1, 3)) for _ in shape]
        c["out_shape"] = out_shape
        c["cores"] = [draw(gen.arr([ranks[i], shape[i], out_shape[i], ranks[i + 1]], kinds=KINDS, complex_=cplx)) for i in range(n)]
    else:
        c["cores"] = [draw(gen.arr([ranks[i], shape[i], ranks[i + 1]], kinds=KINDS, complex_=cplx)) for i in range(n)]
    return c


_WRAP = {"tt": TTTensor, "tr": TRTensor, "ttm": TTMatrix}
_VALID = {"tt": _validate_tt_tensor, "tr": _validate_tr_tensor, "ttm": _validate_tt_matrix}
_TO_TENSOR = {"tt": lambda c: tl.tt_to_tensor(c), "tr": lambda c: tl.tr_to_tensor(c), "ttm": lambda c: tl.tt_matrix_to_tensor(c)}
_TO_UNF = {"tt": lambda c, m: tl.tt_to_unfolded(c, m), "tr": lambda c, m: tl.tr_to_unfolded(c, m),
           "ttm": lambda c, m: tl.tt_matrix_to_unfolded(c, m)}
_TO_VEC = {"tt": lambda c: tl.tt_to_vec(c), "tr": lambda c: tl.tr_to_vec(c), "ttm": lambda c: tl.tt_matrix_to_vec(c)}


def _chain_ref(case):
    cores = [gen.dec(c) for c in case["cores"]]
    kind = case["kind"]
    if kind == "tt":
        dense = ref.tt_dense(cores)
    elif kind == "tr":
        dense = ref.tr_dense(cores)
    else:
        dense = ref.ttm_dense(cores)
    scale = 1.0
    for c in cores:
        scale *= X.amax(c) * c.shape[0]
    return cores, dense, scale


def _chain_build(case):
    cores = [gen.dec(c) for c in case["cores"]]
    return _WRAP[case["kind"]](cores) if case["wrap"] else cores


def _chain_info(case, extra=()):
    return {"nontrivial": len(case["shape"]) >= 3 or max(case["ranks"]) >= 2,
            "labels": [f"n_cores={len(case['shape'])}", f"max_rank={max(case['ranks'])}", f"wrap={case['wrap']}",
                       f"complex={case['cplx']}", f"size1_mode={1 in case['shape']}"] + list(extra)}


def o_chain_tensor(case):
    cores, dense, scale = _chain_ref(case)
    kind = case["kind"]
    if dense.size <= 96:
        loop = X.ttm_dense_loop(cores) if kind == "ttm" else X.chain_dense(cores, ring=(kind == "tr"))
        close(loop, dense, "harness/chain-references-agree", rel=1e-12, scale=scale)
    for bk in _order(case):
        with tenalg_backend(bk):
            got = _TO_TENSOR[kind](_chain_build(case))
        close(got, dense, f"{kind}_to_tensor@{bk}", rel=REL, scale=scale)
    return _chain_info(case)


def o_chain_views(case):
    cores, dense, scale = _chain_ref(case)
    kind = case["kind"]
    _check_unfold_ref(dense)
    unf = _unfoldings(dense)
    for bk in _order(case):
        with tenalg_backend(bk):
            for m in range(dense.ndim):
                close(_TO_UNF[kind](_chain_build(case), m), unf[m], f"{kind}_to_unfolded@{bk}", rel=REL, scale=scale)
            close(_TO_VEC[kind](_chain_build(case)), dense.reshape(-1), f"{kind}_to_vec@{bk}", rel=REL, scale=scale)
            if kind == "ttm":
                rows = gen.prod(case["shape"])
                cols = gen.prod(case["out_shape"])
                close(tl.tt_matrix_to_matrix(_chain_build(case)), dense.reshape(rows, cols), f"tt_matrix_to_matrix@{bk}",
                      rel=REL, scale=scale)
    return _chain_info(case)


def o_chain_wrapper(case):
    cores, dense, scale = _chain_ref(case)
    kind = case["kind"]
    shape = tuple(case["shape"]) + (tuple(case["out_shape"]) if kind == "ttm" else ())
    ranks = tuple(case["ranks"])
    name = _WRAP[kind].__name__
    for bk in _order(case):
        with tenalg_backend(bk):
            vs, vr = _VALID[kind]([gen.dec(c) for c in case["cores"]])
            check(tuple(vs) == shape and tuple(vr) == ranks, f"{_VALID[kind].__name__}@{bk}",
                  lambda: f"returned {(vs, vr)} for shape {shape} ranks {ranks}")
            obj = _WRAP[kind]([gen.dec(c) for c in case["cores"]])
            check(tuple(obj.shape) == shape, f"{name}.shape@{bk}", lambda: f"{obj.shape} != {shape}")
            check(tuple(obj.rank) == ranks, f"{name}.rank@{bk}", lambda: f"{obj.rank} != {ranks}")
            check(len(obj) == len(cores) and all(np.array_equal(a, b) for a, b in zip(obj, cores)), f"{name}/iteration@{bk}")
            vs2, vr2 = _VALID[kind](obj)
            check(tuple(vs2) == shape and tuple(vr2) == ranks, f"{_VALID[kind].__name__}({name})@{bk}")
            close(obj.to_tensor(), dense, f"{name}.to_tensor@{bk}", rel=REL, scale=scale)
            close(obj.to_vec(), dense.reshape(-1), f"{name}.to_vec@{bk}", rel=REL, scale=scale)
            m = case["mode"] % dense.ndim
            close(obj.to_unfolding(m), ref.unfold_fast(dense, m), f"{name}.to_unfolding@{bk}", rel=REL, scale=scale)
            if kind == "ttm":
                check(tuple(obj.left_shape) == tuple(case["shape"]) and tuple(obj.right_shape) == tuple(case["out_shape"])
                      and obj.order == len(case["shape"]), f"TTMatrix.left/right_shape@{bk}",
                      lambda: f"{obj.left_shape} {obj.right_shape} {obj.order}")
                close(obj.to_matrix(), dense.reshape(gen.prod(case["shape"]), gen.prod(case["out_shape"])),
                      f"TTMatrix.to_matrix@{bk}", rel=REL, scale=scale)
            nrm = as_array(obj.norm(), f"{name}.norm@{bk}")
            close(nrm, np.asarray(np.sqrt(np.sum(np.abs(dense) ** 2))), f"{name}.norm@{bk}", rel=1e-9,
                  scale=scale * np.sqrt(dense.size))
    return _chain_info(case)


@st.composite
def _chain_bad_case(draw, kind):
    lo = {"tt": 1, "tr": 2, "ttm": 1}[kind]
    n = draw(st.integers(lo, 4))
    kinds = {"tt": ["boundary_left", "boundary_right", "neighbour", "core_ndim"],
             "tr": ["ring", "neighbour", "core_ndim", "single_core"],
             "ttm": ["boundary_left", "boundary_right", "neighbour", "core_ndim"]}[kind]
    k = draw(st.sampled_from(kinds))
    if k == "neighbour" and n < 2:
        n = 2
    return {"kind": kind, "n": n, "corrupt": k, "seed": draw(gen.seeds), "pos": draw(st.integers(0, 3)),
            "delta": draw(st.sampled_from([-1, 1, 2]))}


def _chain_bad_build(case):
    rs = np.random.RandomState(case["seed"])
    kind, n, k = case["kind"], case["n"], case["corrupt"]
    shape = [int(v) for v in rs.randint(1, 4, n)]
    oshape = [int(v) for v in rs.randint(1, 4, n)]
    inner = [int(v) for v in rs.randint(1, 4, n - 1)]
    r0 = int(rs.randint(1, 4)) if kind == "tr" else 1
    ranks = [r0] + inner + [r0]
    left = list(ranks[:-1])
    right = list(ranks[1:])

    def bump(r):
        d = case["delta"]
        return r + d if r + d >= 1 else r + 1
    if k == "boundary_left":
        left[0] = bump(1) if bump(1) != 1 else 2
    elif k == "boundary_right":
        right[-1] = bump(1) if bump(1) != 1 else 2
    elif k == "ring":
        right[-1] = bump(right[-1])
    elif k == "neighbour":
        p = 1 + case["pos"] % (n - 1)
        left[p] = bump(left[p])
    cores = []
    for i in range(n):
        if kind == "ttm":
            cores.append(rs.standard_normal((left[i], shape[i], oshape[i], right[i])))
        else:
            cores.append(rs.standard_normal((left[i], shape[i], right[i])))
    if k == "core_ndim":
        p = case["pos"] % n
        c = cores[p]
        if case["delta"] > 0:
            cores[p] = c.reshape(c.shape + (1,))
        elif kind == "ttm":
            cores[p] = c.reshape(c.shape[0], c.shape[1] * c.shape[2], c.shape[3])
        else:
            cores[p] = c.reshape(c.shape[0], c.shape[1] * c.shape[2])
    if k == "single_core":
        r = ranks[0]
        cores = [rs.standard_normal((r, shape[0], r))]
    return cores


def o_chain_bad(case):
    kind = case["kind"]
    what = f"{kind} {case['corrupt']} (n={case['n']}, seed {case['seed']}, pos {case['pos']}, delta {case['delta']}; " \
           f"core shapes {[c.shape for c in _chain_bad_build(case)]})"
    for bk in TENALG_BACKENDS:
        with tenalg_backend(bk):
            _must_raise([
                (_WRAP[kind].__name__, lambda: _WRAP[kind](_chain_bad_build(case))),
                (_VALID[kind].__name__, lambda: _VALID[kind](_chain_bad_build(case))),
            ], f"{kind}/reject:{case['corrupt']}@{bk}", what)
    return {"nontrivial": True, "labels": [f"corrupt={case['corrupt']}", f"n={case['n']}"]}


# ============================================================================
# PARAFAC2
# ============================================================================
@st.composite
def _p2_case(draw):
    I = draw(st.integers(1, 4))
    R = draw(st.integers(1, 3))
    K = draw(st.integers(1, 4))
    Js = [R + draw(st.integers(0, 3)) for _ in range(I)]
    wk = draw(st.sampled_from(["none", "ones", "pos", "mixed", "zero"]))
    cp = draw(gen.cp_factors([I, R, K], R, kinds=KINDS, weights=(wk,)))
    return {"first": draw(first), "I": I, "R": R, "K": K, "Js": Js, "cp": cp, "pseeds": [draw(gen.seeds) for _ in range(I)],
            "wrap": draw(st.booleans()), "mode": draw(st.integers(0, 2)), "aslist": draw(st.booleans())}


def _p2_parts(case):
    w, (A, B, C) = gen.dec_cp(case["cp"])
    projs = [gen.orthonormal(s, J, case["R"]) for s, J in zip(case["pseeds"], case["Js"])]
    return w, A, B, C, projs


def _p2_build(case):
    w, A, B, C, projs = _p2_parts(case)
    t = (w, [A, B, C] if case["aslist"] else (A, B, C), projs)
    return Parafac2Tensor(t) if case["wrap"] else t


def _p2_ref(case):
    w, A, B, C, projs = _p2_parts(case)
    slices = ref.parafac2_slices(w, A, B, C, projs)
    R = case["R"]
    scale = R * R * (1.0 if w is None else X.amax(w)) * X.amax(A) * X.amax(B) * X.amax(C)
    return slices, scale


def _p2_info(case, extra=()):
    return {"nontrivial": True if case["R"] >= 2 or case["I"] >= 2 else False,
            "labels": [f"I={case['I']}", f"rank={case['R']}", f"weights={case['cp']['wkind']}", f"wrap={case['wrap']}",
                       f"uneven={len(set(case['Js'])) > 1}"] + list(extra)}


def o_p2_slices(case):
    slices, scale = _p2_ref(case)
    w, A, B, C, projs = _p2_parts(case)
    for a, b in zip(X.parafac2_slices(w, A, B, C, projs), slices):
        close(a, b, "harness/parafac2-references-agree", rel=1e-12, scale=scale)
    for bk in _order(case):
        with tenalg_backend(bk):
            got = P2.parafac2_to_slices(_p2_build(case))
            check(isinstance(got, (list, tuple)) and len(got) == case["I"], f"parafac2_to_slices/len@{bk}",
                  lambda: f"{type(got).__name__} of length {len(got) if hasattr(got, '__len__') else '?'}")
            for i in range(case["I"]):
                close(got[i], slices[i], f"parafac2_to_slices@{bk}", rel=REL, scale=scale)
                close(P2.parafac2_to_slice(_p2_build(case), i), slices[i], f"parafac2_to_slice@{bk}", rel=REL, scale=scale)
                close(P2.parafac2_to_slice(_p2_build(case), i, validate=False), slices[i], f"parafac2_to_slice(validate=False)@{bk}",
                      rel=REL, scale=scale)
    return _p2_info(case)


def o_p2_tensor(case):
    slices, scale = _p2_ref(case)
    dense = X.parafac2_padded(slices, case["K"])
    for bk in _order(case):
        with tenalg_backend(bk):
            close(P2.parafac2_to_tensor(_p2_build(case)), dense, f"parafac2_to_tensor@{bk}", rel=REL, scale=scale)
            for m in range(3):
                close(P2.parafac2_to_unfolded(_p2_build(case), m), ref.unfold_fast(dense, m), f"parafac2_to_unfolded@{bk}",
                      rel=REL, scale=scale)
            close(P2.parafac2_to_vec(_p2_build(case)), dense.reshape(-1), f"parafac2_to_vec@{bk}", rel=REL, scale=scale)
    return _p2_info(case, [f"padded={len(set(case['Js'])) > 1}"])


def o_p2_wrapper(case):
    slices, scale = _p2_ref(case)
    dense = X.parafac2_padded(slices, case["K"])
    w, A, B, C, projs = _p2_parts(case)
    shape = tuple((J, case["K"]) for J in case["Js"])
    R = case["R"]
    for bk in _order(case):
        with tenalg_backend(bk):
            vs, vr = _validate_parafac2_tensor((w, (A, B, C), projs))
            check(tuple(tuple(s) for s in vs) == shape and vr == R, f"_validate_parafac2_tensor@{bk}", lambda: f"{(vs, vr)} vs {shape}, {R}")
            obj = Parafac2Tensor((w, (A, B, C), projs))
            check(tuple(tuple(s) for s in obj.shape) == shape, f"Parafac2Tensor.shape@{bk}", lambda: f"{obj.shape} != {shape}")
            check(obj.rank == R, f"Parafac2Tensor.rank@{bk}", lambda: f"{obj.rank} != {R}")
            close(as_array(obj.weights, "Parafac2Tensor.weights"), np.ones(R) if w is None else w, f"Parafac2Tensor.weights@{bk}", rel=0.0)
            w2, f2, p2 = obj
            check(w2 is obj.weights and f2 is obj.factors and p2 is obj.projections and len(obj) == 3, f"Parafac2Tensor/unpack@{bk}")
            close(obj.to_tensor(), dense, f"Parafac2Tensor.to_tensor@{bk}", rel=REL, scale=scale)
            close(obj.to_vec(), dense.reshape(-1), f"Parafac2Tensor.to_vec@{bk}", rel=REL, scale=scale)
            close(obj.to_unfolded(case["mode"]), ref.unfold_fast(dense, case["mode"]), f"Parafac2Tensor.to_unfolded@{bk}", rel=REL, scale=scale)
            nrm = as_array(obj.norm(), f"Parafac2Tensor.norm@{bk}")
            close(nrm, np.asarray(np.sqrt(np.sum(dense ** 2))), f"Parafac2Tensor.norm@{bk}", rel=1e-9, scale=scale * np.sqrt(dense.size))
    return _p2_info(case)


@st.composite
def _p2_bad_case(draw):
    I = draw(st.integers(1, 4))
    R = draw(st.integers(1, 3))
    kind = draw(st.sampled_from(["n_projections", "scaled", "dup_column", "factor_rank", "weights_len", "projection_rank",
                                 "n_factors", "scaled", "zero_column", "neg_inner"]))
    if kind in ("dup_column", "neg_inner") and R < 2:
        R = 2
    return {"I": I, "R": R, "K": draw(st.integers(1, 4)), "kind": kind, "seed": draw(gen.seeds), "pos": draw(st.integers(0, 3)),
            "delta": draw(st.sampled_from([-1, 1])), "factor": draw(st.sampled_from([0.9, 1.1, 0.5, -1.1, 1.001, 0.999, -0.9])),
            "which": draw(st.sampled_from([1, 2]))}


def _p2_bad_build(case):
    rs = np.random.RandomState(case["seed"])
    I, R, K, kind = case["I"], case["R"], case["K"], case["kind"]
    Js = [R + int(v) for v in rs.randint(0, 4, I)]
    A, B, C = rs.standard_normal((I, R)), rs.standard_normal((R, R)), rs.standard_normal((K, R))
    projs = [gen.orthonormal(int(rs.randint(0, 2 ** 31 - 1)), J, R) for J in Js]
    w = rs.standard_normal(R)
    p = case["pos"] % I
    facs = [A, B, C]
    if kind == "n_projections":
        if case["delta"] > 0:
            projs.append(gen.orthonormal(5, R + 1, R))
        else:
            projs.pop(p)
    elif kind == "scaled":
        projs[p] = projs[p] * case["factor"]
    elif kind == "dup_column":
        q = projs[p].copy()
        q[:, 1] = q[:, 0]
        projs[p] = q
    elif kind == "zero_column":          # P^T P - I has only non-positive entries
        q = projs[p].copy()
        q[:, case["pos"] % R] = 0.0
        projs[p] = q
    elif kind == "neg_inner":            # unit columns with a negative inner product
        q = projs[p].copy()
        c = q[:, 1] - 0.6 * q[:, 0]
        q[:, 1] = c / np.linalg.norm(c)
        projs[p] = q
    elif kind == "factor_rank":
        i = case["which"]
        facs[i] = rs.standard_normal((facs[i].shape[0], R + 1))
    elif kind == "weights_len":
        w = rs.standard_normal(R + 1 if (case["delta"] > 0 or R == 1) else R - 1)
    elif kind == "projection_rank":
        projs[p] = gen.orthonormal(7, Js[p] + 1, R + 1)
    elif kind == "n_factors":
        facs = facs[:2] if case["delta"] < 0 else facs + [rs.standard_normal((2, R))]
    return w, facs, projs


def o_p2_bad(case):
    what = f"PARAFAC2 {case['kind']} (I={case['I']}, R={case['R']}, pos {case['pos']}, delta {case['delta']}, factor {case['factor']})"
    scaled_neg = case["kind"] == "scaled" and case["factor"] == -1.1
    for bk in TENALG_BACKENDS:
        with tenalg_backend(bk):
            entries = [
                ("Parafac2Tensor", lambda: Parafac2Tensor(_p2_bad_build(case))),
                ("_validate_parafac2_tensor", lambda: _validate_parafac2_tensor(_p2_bad_build(case))),
            ]
            if case["kind"] != "n_factors":
                entries += [
                    ("parafac2_to_slices", lambda: P2.parafac2_to_slices(_p2_bad_build(case))),
                    ("parafac2_to_slice", lambda: P2.parafac2_to_slice(_p2_bad_build(case), 0)),
                    ("parafac2_to_tensor", lambda: P2.parafac2_to_tensor(_p2_bad_build(case))),
                    ("apply_parafac2_projections", lambda: P2.apply_parafac2_projections(_p2_bad_build(case))),
                ]
            _must_raise(entries, f"parafac2/reject:{case['kind']}@{bk}", what)
    return {"nontrivial": True, "labels": [f"kind={case['kind']}", f"neg_scale={scaled_neg}"] +
            ([f"factor={case['factor']}"] if case["kind"] == "scaled" else [])}



# ============================================================================
# Histories on wrapper objects: one object, a generated sequence of 2-5 operations (views and
# mutations); after EVERY operation all views must agree with the dense reference built from the
# object's CURRENT attributes, and that dense tensor must equal the harness-side model of the history.
# ============================================================================
VIEW_OPS = ["norm", "to_tensor", "to_vec", "to_unfolded"]


def _harr(draw, shape):
    return draw(gen.arr(list(shape), kinds=KINDS))


def _draw_mode_dot(draw, cur, allow_method=True):
    """mode-product op on the current shape `cur` (edited in place)"""
    k = draw(st.integers(0, len(cur) - 1))
    kinds = ["matrix", "matrix", "vector_keep"] + (["vector_contract"] if len(cur) >= 3 else [])
    operand = draw(st.sampled_from(kinds))
    op = {"op": "mode_dot", "mode": k, "operand": operand,
          "how": draw(st.sampled_from(["function", "method"] if allow_method else ["function"])),
          "copy": draw(st.sampled_from([False, False, None, True]))}
    if operand == "matrix":
        J = draw(st.integers(1, 3))
        op["m"] = _harr(draw, [J, cur[k]])
        cur[k] = J
    else:
        op["m"] = _harr(draw, [cur[k]])
        if operand == "vector_keep":
            cur[k] = 1
        else:
            cur.pop(k)
    return op


def _apply_operand_to_factor(op, f):
    m = gen.dec(op["m"])
    if op["operand"] == "matrix":
        return m @ f
    return (m @ f).reshape(1, -1)


def _mode_dot_kwargs(op):
    kw = {}
    if op["operand"] == "vector_keep":
        kw["keep_dim"] = True
    if op["copy"] is not None:
        kw["copy"] = op["copy"]
    return kw


def _hist_labels(case):
    ops = [o["op"] for o in case["ops"]]
    muts = [o for o in ops if o not in VIEW_OPS]
    labs = [f"n_ops={len(ops)}", f"mutations={min(len(muts), 3)}"] + sorted({f"op={o}" for o in muts})
    for o in case["ops"]:
        if o["op"] == "mode_dot":
            labs.append(f"mode_dot={o['operand']}/{o['how']}/copy={o['copy']}")
    return {"nontrivial": bool(muts), "labels": sorted(set(labs))}


def _norm_close(got, dense, S, clause):
    g = as_array(got, clause)
    check(g.shape == (), clause + "/scalar", lambda: f"shape {g.shape}")
    close(g * g, np.asarray(float(np.sum(np.abs(dense) ** 2))), clause, rel=1e-9, scale=S)


# ------------------------------------------------------------------ CP
@st.composite
def _cp_hist_case(draw):
    shape = draw(X.shapes(2, 4, 1, 3))
    R = draw(st.integers(1, 3))
    c = {"first": draw(first), "shape": shape, "rank": R, "cp": draw(gen.cp_factors(shape, R, kinds=KINDS)),
         "norm_first": draw(st.booleans())}
    cur = list(shape)
    ops = []
    for _ in range(draw(st.integers(2, 5))):
        kind = draw(st.sampled_from(VIEW_OPS + ["norm", "mode_dot", "mode_dot", "mode_dot", "normalize", "set_factor",
                                                "set_factor", "set_weights", "set_factors_list"]))
        if kind == "mode_dot":
            ops.append(_draw_mode_dot(draw, cur))
        elif kind == "to_unfolded":
            ops.append({"op": kind, "mode": draw(st.integers(0, len(cur) - 1))})
        elif kind == "normalize":
            ops.append({"op": kind, "inplace": draw(st.sampled_from([True, True, None, False]))})
        elif kind in ("set_factor", "set_factors_list"):
            k = draw(st.integers(0, len(cur) - 1))
            ops.append({"op": kind, "k": k, "a": _harr(draw, [cur[k], R]), "via": draw(st.sampled_from(["list", "setitem"]))})
        elif kind == "set_weights":
            ops.append({"op": kind, "a": {"s": [R], "d": [v / 4 for v in draw(st.lists(st.integers(-8, 8), min_size=R, max_size=R))]},
                        "via": draw(st.sampled_from(["attr", "setitem"]))})
        else:
            ops.append({"op": kind})
    c["ops"] = ops
    return c


def _cp_check_views(obj, model, tag, bk, norm_first, floor=0.0):
    w_m, fs_m = model
    R = fs_m[0].shape[1]
    shape = tuple(f.shape[0] for f in fs_m)
    dense_m = ref.cp_dense(w_m, fs_m)
    scale_m = max(R * X.amax(w_m) * float(np.prod([X.amax(f) for f in fs_m])), floor)   # floor: see _tucker_check_views
    pre = f"cp_history/{{}}/{tag}@{bk}"
    # ---- dense tensor of the object's CURRENT attributes
    w_a = as_array(obj.weights, pre.format("state"))
    fs_a = [as_array(f, pre.format("state")) for f in obj.factors]
    check(w_a.shape == (R,) and len(fs_a) == len(shape) and all(f.ndim == 2 and f.shape[1] == R for f in fs_a),
          pre.format("state"), lambda: f"weights {w_a.shape}, factors {[f.shape for f in fs_a]} for model shape {shape} rank {R}")
    dense = ref.cp_dense(w_a, fs_a)
    close(dense, dense_m, pre.format("state"), rel=1e-9, scale=scale_m)
    scale = max(R * X.amax(w_a) * float(np.prod([X.amax(f) for f in fs_a])), scale_m)
    gram = np.ones((R, R))
    for f in fs_a:
        gram = gram * (f.T @ f)
    S = max(float(np.sum(np.abs(gram * np.outer(w_a, w_a)))), float(np.sum(dense ** 2)))

    def norms():
        _norm_close(obj.norm(), dense, S, pre.format("norm()"))
        _norm_close(tl.cp_norm(obj), dense, S, pre.format("cp_norm"))
    if norm_first:
        norms()
    check(tuple(obj.shape) == shape, pre.format("shape"), lambda: f"{obj.shape} != {shape}")
    check(obj.rank == R, pre.format("rank"), lambda: f"{obj.rank} != {R}")
    close(obj.to_tensor(), dense, pre.format("to_tensor"), rel=REL, scale=scale)
    close(tl.cp_to_tensor(obj), dense, pre.format("cp_to_tensor"), rel=REL, scale=scale)
    close(obj.to_vec(), dense.reshape(-1), pre.format("to_vec"), rel=REL, scale=scale)
    for m in range(dense.ndim):
        close(obj.to_unfolded(m), ref.unfold_fast(dense, m), pre.format("to_unfolded"), rel=REL, scale=scale)
    if not norm_first:
        norms()


def _cp_run_history(case, bk):
    w, fs = gen.dec_cp(case["cp"])
    R = case["rank"]
    model = [np.ones(R) if w is None else w.copy(), [f.copy() for f in fs]]
    obj = CPTensor((w, fs))
    nf = case["norm_first"]
    _cp_check_views(obj, model, "init", bk, nf)
    for op in case["ops"]:
        kind = op["op"]
        if kind == "norm":
            obj.norm()
        elif kind == "to_tensor":
            obj.to_tensor()
        elif kind == "to_vec":
            obj.to_vec()
        elif kind == "to_unfolded":
            obj.to_unfolded(op["mode"])
        elif kind == "mode_dot":
            k = op["mode"]
            kw = _mode_dot_kwargs(op)
            copy_eff = op["copy"] if op["copy"] is not None else (op["how"] == "method")   # method default True, function False
            old_model = [model[0].copy(), [f.copy() for f in model[1]]]
            if op["how"] == "method":
                res = obj.mode_dot(gen.dec(op["m"]), k, **kw)
            else:
                res = tl.cp_mode_dot(obj, gen.dec(op["m"]), k, **kw)
            floor = (model[1][0].shape[1] * X.amax(model[0]) * float(np.prod([X.amax(f) for f in model[1]]))
                     * X.amax(gen.dec(op["m"])) * model[1][k].shape[0])
            if op["operand"] == "vector_contract":
                col = gen.dec(op["m"]) @ model[1][k]
                model[1].pop(k)
                model[0] = model[0] * col
            else:
                model[1][k] = _apply_operand_to_factor(op, model[1][k])
            check(isinstance(res, CPTensor), f"cp_history/mode_dot/returns_CPTensor@{bk}", lambda: type(res).__name__)
            if copy_eff:
                check(res is not obj, f"cp_history/mode_dot(copy=True)/new_object@{bk}")
                _cp_check_views(obj, old_model, "original_after:mode_dot(copy=True)", bk, nf)
            obj = res     # with copy=False the *returned* object represents the product
        elif kind == "normalize":
            if op["inplace"] is None:
                res = obj.normalize()
            else:
                res = obj.normalize(inplace=op["inplace"])
            if op["inplace"] is False:
                check(isinstance(res, CPTensor) and res is not obj, f"cp_history/normalize(inplace=False)/returns_copy@{bk}",
                      lambda: type(res).__name__)
                _cp_check_views(obj, model, "original_after:normalize(inplace=False)", bk, nf)
                obj = res
        elif kind == "set_factor":
            a = gen.dec(op["a"])
            if op["via"] == "list":
                obj.factors[op["k"]] = a
            else:
                lst = list(obj.factors)
                lst[op["k"]] = a
                obj[1] = lst
            model[1][op["k"]] = a.copy()
        elif kind == "set_factors_list":
            a = gen.dec(op["a"])
            lst = [np.array(f) for f in obj.factors]
            lst[op["k"]] = a
            obj.factors = lst
            model[1][op["k"]] = a.copy()
        elif kind == "set_weights":
            a = gen.dec(op["a"])
            if op["via"] == "attr":
                obj.weights = a
            else:
                obj[0] = a
            model[0] = a.copy()
        tag = "after:" + kind      # the variant (operand / method vs function / copy flag) is in the labels and the replay
        _cp_check_views(obj, model, tag, bk, nf, floor=floor if kind == "mode_dot" else 0.0)
        if kind in ("normalize", "mode_dot"):
            # same tensor (just checked) but the library may distribute it differently over the components
            # (normalisation; a contracted vector is absorbed into a neighbouring factor): later component
            # assignments act on the object's components, so the model takes them over
            model = [np.array(obj.weights), [np.array(f) for f in obj.factors]]


def o_cp_hist(case):
    for bk in _order(case):
        with tenalg_backend(bk):
            _cp_run_history(case, bk)
    return _hist_labels(case)


# ------------------------------------------------------------------ Tucker
@st.composite
def _tucker_hist_case(draw):
    shape = draw(X.shapes(2, 4, 1, 3))
    ranks = [draw(st.integers(1, 3)) for _ in shape]
    c = {"first": draw(first), "shape": shape, "ranks": ranks, "tk": draw(gen.tucker_factors(shape, ranks, kinds=KINDS))}
    cur, rk = list(shape), list(ranks)
    ops = []
    for _ in range(draw(st.integers(2, 5))):
        kind = draw(st.sampled_from(VIEW_OPS + ["mode_dot", "mode_dot", "mode_dot", "normalize", "set_factor", "set_factor", "set_core"]))
        if kind == "mode_dot":
            op = _draw_mode_dot(draw, cur)
            if op["operand"] == "vector_contract":
                rk.pop(op["mode"])
            ops.append(op)
        elif kind == "to_unfolded":
            ops.append({"op": kind, "mode": draw(st.integers(0, len(cur) - 1))})
        elif kind == "set_factor":
            k = draw(st.integers(0, len(cur) - 1))
            ops.append({"op": kind, "k": k, "a": _harr(draw, [cur[k], rk[k]]), "via": draw(st.sampled_from(["list", "setitem"]))})
        elif kind == "set_core":
            ops.append({"op": kind, "a": _harr(draw, rk), "via": draw(st.sampled_from(["attr", "setitem"]))})
        else:
            ops.append({"op": kind})
    c["ops"] = ops
    return c


def _tucker_check_views(obj, model, tag, bk, floor=0.0):
    core_m, fs_m = model
    shape = tuple(f.shape[0] for f in fs_m)
    ranks = tuple(core_m.shape)
    dense_m = ref.tucker_dense(core_m, fs_m)
    # `floor`: magnitude of the terms that were summed by the operation just applied (cancellation-aware: when the
    # products cancel exactly in the model, the library's differently ordered / fused sum may leave a rounding residue)
    scale_m = max(_tucker_scale(core_m, fs_m, ranks), floor)
    pre = f"tucker_history/{{}}/{tag}@{bk}"
    core_a = as_array(obj.core, pre.format("state"))
    fs_a = [as_array(f, pre.format("state")) for f in obj.factors]
    check(core_a.shape == ranks and len(fs_a) == len(ranks) and all(f.ndim == 2 and f.shape[1] == r for f, r in zip(fs_a, ranks)),
          pre.format("state"), lambda: f"core {core_a.shape}, factors {[f.shape for f in fs_a]} for model ranks {ranks} shape {shape}")
    dense = ref.tucker_dense(core_a, fs_a)
    close(dense, dense_m, pre.format("state"), rel=1e-9, scale=scale_m)
    scale = max(_tucker_scale(core_a, fs_a, ranks), scale_m)
    check(tuple(obj.shape) == shape, pre.format("shape"), lambda: f"{obj.shape} != {shape}")
    check(tuple(obj.rank) == ranks, pre.format("rank"), lambda: f"{obj.rank} != {ranks}")
    close(obj.to_tensor(), dense, pre.format("to_tensor"), rel=REL, scale=scale)
    close(obj.to_vec(), dense.reshape(-1), pre.format("to_vec"), rel=REL, scale=scale)
    for m in range(dense.ndim):
        close(obj.to_unfolded(m), ref.unfold_fast(dense, m), pre.format("to_unfolded"), rel=REL, scale=scale)
    close(as_array(obj.norm(), pre.format("norm()")), np.asarray(np.sqrt(np.sum(dense ** 2))), pre.format("norm()"), rel=1e-9,
          scale=scale * np.sqrt(dense.size))


def _tucker_run_history(case, bk):
    core, fs = _tucker_parts(case)
    model = [core.copy(), [f.copy() for f in fs]]
    obj = TuckerTensor((core, fs))
    _tucker_check_views(obj, model, "init", bk)
    for op in case["ops"]:
        kind = op["op"]
        if kind == "norm":
            obj.norm()
        elif kind == "to_tensor":
            obj.to_tensor()
        elif kind == "to_vec":
            obj.to_vec()
        elif kind == "to_unfolded":
            obj.to_unfolded(op["mode"])
        elif kind == "mode_dot":
            k = op["mode"]
            kw = _mode_dot_kwargs(op)
            copy_eff = bool(op["copy"])           # both the method and the function default to copy=False
            old_model = [model[0].copy(), [f.copy() for f in model[1]]]
            if op["how"] == "method":
                res = obj.mode_dot(gen.dec(op["m"]), k, **kw)
            else:
                res = tl.tucker_mode_dot(obj, gen.dec(op["m"]), k, **kw)
            floor = _tucker_scale(model[0], model[1], model[0].shape) * X.amax(gen.dec(op["m"])) * model[1][k].shape[0]
            if op["operand"] == "vector_contract":
                col = gen.dec(op["m"]) @ model[1][k]
                model[0] = ref.mode_dot_vector(model[0], col, k)
                model[1].pop(k)
            else:
                model[1][k] = _apply_operand_to_factor(op, model[1][k])
            check(isinstance(res, TuckerTensor), f"tucker_history/mode_dot/returns_TuckerTensor@{bk}", lambda: type(res).__name__)
            if copy_eff:
                check(res is not obj, f"tucker_history/mode_dot(copy=True)/new_object@{bk}")
                _tucker_check_views(obj, old_model, "original_after:mode_dot(copy=True)", bk)
            # copy=False: only the *returned* object is documented to represent the product
            obj = res
        elif kind == "normalize":
            obj.normalize()
        elif kind == "set_factor":
            a = gen.dec(op["a"])
            if op["via"] == "list":
                obj.factors[op["k"]] = a
            else:
                lst = list(obj.factors)
                lst[op["k"]] = a
                obj[1] = lst
            model[1][op["k"]] = a.copy()
        elif kind == "set_core":
            a = gen.dec(op["a"])
            if op["via"] == "attr":
                obj.core = a
            else:
                obj[0] = a
            model[0] = a.copy()
        tag = "after:" + kind      # the variant (operand / method vs function / copy flag) is in the labels and the replay
        _tucker_check_views(obj, model, tag, bk, floor=floor if kind == "mode_dot" else 0.0)
        if kind in ("normalize", "mode_dot"):
            model = [np.array(obj.core), [np.array(f) for f in obj.factors]]


def o_tucker_hist(case):
    for bk in _order(case):
        with tenalg_backend(bk):
            _tucker_run_history(case, bk)
    return _hist_labels(case)


# ------------------------------------------------------------------ TT / TR / TT-matrix
@st.composite
def _chain_hist_case(draw, kind):
    c = draw(_chain_case(kind))
    n = len(c["shape"])
    ops = []
    for _ in range(draw(st.integers(2, 5))):
        k = draw(st.sampled_from(VIEW_OPS + ["set_core", "set_core", "set_core", "set_cores_list"]))
        if k in ("set_core", "set_cores_list"):
            i = draw(st.integers(0, n - 1))
            ops.append({"op": k, "i": i, "a": draw(gen.arr(list(c["cores"][i]["s"]), kinds=KINDS)),
                        "via": draw(st.sampled_from(["setitem", "list"]))})
        elif k == "to_unfolded":
            ops.append({"op": k, "mode": draw(st.integers(0, (2 * n if kind == "ttm" else n) - 1))})
        else:
            ops.append({"op": k})
    c["ops"] = ops
    c["cplx"] = False
    c["cores"] = [dict(e) for e in c["cores"]]
    for e in c["cores"]:         # histories are real-valued
        e.pop("di", None)
        if e.get("k") == "cnormal":
            e["k"] = "normal"
    return c


def _chain_dense(kind, cores):
    return {"tt": ref.tt_dense, "tr": ref.tr_dense, "ttm": ref.ttm_dense}[kind](cores)


def _chain_check_views(kind, obj, model, case, tag, bk):
    name = _WRAP[kind].__name__
    pre = f"{kind}_history/{{}}/{tag}@{bk}"
    shape = tuple(case["shape"]) + (tuple(case["out_shape"]) if kind == "ttm" else ())
    ranks = tuple(case["ranks"])
    dense_m = _chain_dense(kind, model)
    scale_m = float(np.prod([X.amax(c) * c.shape[0] for c in model]))
    cores_a = [as_array(c, pre.format("state")) for c in obj.factors]
    check(len(cores_a) == len(model) and all(a.shape == m.shape for a, m in zip(cores_a, model)), pre.format("state"),
          lambda: f"core shapes {[a.shape for a in cores_a]} vs model {[m.shape for m in model]}")
    dense = _chain_dense(kind, cores_a)
    close(dense, dense_m, pre.format("state"), rel=1e-9, scale=scale_m)
    scale = scale_m
    check(tuple(obj.shape) == shape, pre.format("shape"), lambda: f"{obj.shape} != {shape}")
    check(tuple(obj.rank) == ranks, pre.format("rank"), lambda: f"{obj.rank} != {ranks}")
    check(len(obj) == len(model) and all(np.array_equal(np.asarray(a), m) for a, m in zip(obj, model)), pre.format("iteration"))
    close(obj.to_tensor(), dense, pre.format("to_tensor"), rel=REL, scale=scale)
    close(_TO_TENSOR[kind](obj), dense, pre.format(f"{kind}_to_tensor"), rel=REL, scale=scale)
    close(obj.to_vec(), dense.reshape(-1), pre.format("to_vec"), rel=REL, scale=scale)
    for m in range(dense.ndim):
        close(obj.to_unfolding(m), ref.unfold_fast(dense, m), pre.format("to_unfolding"), rel=REL, scale=scale)
    if kind == "ttm":
        close(obj.to_matrix(), dense.reshape(gen.prod(case["shape"]), gen.prod(case["out_shape"])), pre.format("to_matrix"),
              rel=REL, scale=scale)
    close(as_array(obj.norm(), pre.format("norm()")), np.asarray(np.sqrt(np.sum(dense ** 2))), pre.format("norm()"), rel=1e-9,
          scale=scale * np.sqrt(dense.size))


def o_chain_hist(case):
    kind = case["kind"]
    for bk in _order(case):
        with tenalg_backend(bk):
            cores = [gen.dec(c) for c in case["cores"]]
            model = [c.copy() for c in cores]
            obj = _WRAP[kind](cores)
            _chain_check_views(kind, obj, model, case, "init", bk)
            for op in case["ops"]:
                k = op["op"]
                if k == "norm":
                    obj.norm()
                elif k == "to_tensor":
                    obj.to_tensor()
                elif k == "to_vec":
                    obj.to_vec()
                elif k == "to_unfolded":
                    obj.to_unfolding(op["mode"])
                elif k == "set_core":
                    a = gen.dec(op["a"])
                    if op["via"] == "setitem":
                        obj[op["i"]] = a
                    else:
                        obj.factors[op["i"]] = a
                    model[op["i"]] = a.copy()
                elif k == "set_cores_list":
                    a = gen.dec(op["a"])
                    lst = [np.array(c) for c in obj.factors]
                    lst[op["i"]] = a
                    obj.factors = lst
                    model[op["i"]] = a.copy()
                _chain_check_views(kind, obj, model, case, "after:" + k, bk)
    return _hist_labels(case)


# ------------------------------------------------------------------ PARAFAC2
@st.composite
def _p2_hist_case(draw):
    c = draw(_p2_case())
    I, R, K = c["I"], c["R"], c["K"]
    ops = []
    for _ in range(draw(st.integers(2, 5))):
        k = draw(st.sampled_from(VIEW_OPS + ["set_weights", "set_factor", "set_factor", "set_projection", "set_projection"]))
        if k == "set_weights":
            ops.append({"op": k, "a": {"s": [R], "d": [v / 4 for v in draw(st.lists(st.integers(-8, 8), min_size=R, max_size=R))]}})
        elif k == "set_factor":
            which = draw(st.integers(0, 2))
            ops.append({"op": k, "k": which, "a": _harr(draw, [[I, R], [R, R], [K, R]][which])})
        elif k == "set_projection":
            ops.append({"op": k, "i": draw(st.integers(0, I - 1)), "seed": draw(gen.seeds)})
        elif k == "to_unfolded":
            ops.append({"op": k, "mode": draw(st.integers(0, 2))})
        else:
            ops.append({"op": k})
    c["ops"] = ops
    return c


def _p2_check_views(obj, model, case, tag, bk):
    pre = f"parafac2_history/{{}}/{tag}@{bk}"
    w_m, (A, B, C), projs = model
    R, K = case["R"], case["K"]
    dense_m = X.parafac2_padded(ref.parafac2_slices(w_m, A, B, C, projs), K)
    scale = max(R * R * X.amax(w_m) * X.amax(A) * X.amax(B) * X.amax(C), 1e-300)
    w_a = as_array(obj.weights, pre.format("state"))
    f_a = [as_array(f, pre.format("state")) for f in obj.factors]
    p_a = [as_array(p, pre.format("state")) for p in obj.projections]
    check(w_a.shape == (R,) and [f.shape for f in f_a] == [A.shape, B.shape, C.shape]
          and [p.shape for p in p_a] == [p.shape for p in projs], pre.format("state"),
          lambda: f"weights {w_a.shape} factors {[f.shape for f in f_a]} projections {[p.shape for p in p_a]}")
    slices = ref.parafac2_slices(w_a, f_a[0], f_a[1], f_a[2], p_a)
    dense = X.parafac2_padded(slices, K)
    close(dense, dense_m, pre.format("state"), rel=1e-9, scale=scale)
    shape = tuple((J, K) for J in case["Js"])
    check(tuple(tuple(s) for s in obj.shape) == shape, pre.format("shape"), lambda: f"{obj.shape} != {shape}")
    check(obj.rank == R, pre.format("rank"), lambda: f"{obj.rank} != {R}")
    close(obj.to_tensor(), dense, pre.format("to_tensor"), rel=REL, scale=scale)
    close(obj.to_vec(), dense.reshape(-1), pre.format("to_vec"), rel=REL, scale=scale)
    for m in range(3):
        close(obj.to_unfolded(m), ref.unfold_fast(dense, m), pre.format("to_unfolded"), rel=REL, scale=scale)
    got = P2.parafac2_to_slices(obj)
    check(len(got) == len(slices), pre.format("slices"))
    for g, sl in zip(got, slices):
        close(g, sl, pre.format("slices"), rel=REL, scale=scale)
    close(as_array(obj.norm(), pre.format("norm()")), np.asarray(np.sqrt(np.sum(dense ** 2))), pre.format("norm()"), rel=1e-9,
          scale=scale * np.sqrt(dense.size))


def o_p2_hist(case):
    for bk in _order(case):
        with tenalg_backend(bk):
            w, A, B, C, projs = _p2_parts(case)
            R = case["R"]
            model = [np.ones(R) if w is None else w.copy(), [A.copy(), B.copy(), C.copy()], [p.copy() for p in projs]]
            obj = Parafac2Tensor((w, [A, B, C], projs))
            _p2_check_views(obj, model, case, "init", bk)
            for op in case["ops"]:
                k = op["op"]
                if k == "norm":
                    obj.norm()
                elif k == "to_tensor":
                    obj.to_tensor()
                elif k == "to_vec":
                    obj.to_vec()
                elif k == "to_unfolded":
                    obj.to_unfolded(op["mode"])
                elif k == "set_weights":
                    a = gen.dec(op["a"])
                    obj.weights = a
                    model[0] = a.copy()
                elif k == "set_factor":
                    a = gen.dec(op["a"])
                    obj.factors[op["k"]] = a
                    model[1][op["k"]] = a.copy()
                elif k == "set_projection":
                    i = op["i"]
                    a = gen.orthonormal(op["seed"], case["Js"][i], R)
                    obj.projections[i] = a
                    model[2][i] = a.copy()
                _p2_check_views(obj, model, case, "after:" + k, bk)
    return _hist_labels(case)



# ============================================================================
# Reject histories: the same factor-set objects are validated more than once.
#   valid_then_corrupt : build a VALID set, run 1-2 validating entry points (must succeed and be right),
#                        corrupt one component IN PLACE (values of the same array object, in-place reshape of
#                        the same array object, or an edit of the same list object) -> every validating entry
#                        point must raise.
#   corrupt_then_repair: corrupt in place, 1-2 entry points must raise, undo the corruption in place on the
#                        same objects -> every entry point must accept and reconstruct the valid tensor.
# ============================================================================
RH_VALUE_KINDS = ["scale", "zero_column", "dup_column", "row_overwrite", "neg_inner"]


@st.composite
def _rh_case(draw, fam):
    kinds = {"cp": ["add_axis", "replace_entry", "weights_axis"],
             "tucker": ["add_axis", "replace_entry", "list_edit", "core_axis"],
             "tt": ["add_axis", "replace_entry", "drop_axis"], "tr": ["add_axis", "replace_entry", "drop_axis"],
             "ttm": ["add_axis", "replace_entry", "drop_axis"],
             "parafac2": RH_VALUE_KINDS + RH_VALUE_KINDS + ["add_axis", "replace_entry", "list_edit"]}[fam]
    return {"first": draw(first), "fam": fam, "hist": draw(st.sampled_from(["valid_then_corrupt", "corrupt_then_repair"])),
            "n": draw(st.integers({"tr": 2, "cp": 2, "tucker": 2}.get(fam, 1), 4)), "R": draw(st.integers(1, 3)),
            "seed": draw(gen.seeds), "corrupt": draw(st.sampled_from(kinds)), "pos": draw(st.integers(0, 3)),
            "col": draw(st.integers(0, 2)), "delta": draw(st.sampled_from([-1, 1])),
            "factor": draw(st.sampled_from([0.9, 1.1, 0.5, 2.0, -1.1, 1.001, 0.999])),
            "pre": draw(st.lists(st.integers(0, 5), min_size=1, max_size=2))}


def _ok_close(want, scale):
    def ok(res, clause):
        close(res, want, clause, rel=REL, scale=scale)
    return ok


def _rh_setup(case):
    """-> (entries [(name, fn, ok)], corrupt() -> undo, description)   all closures share the same objects"""
    rs = np.random.RandomState(case["seed"])
    fam, n, R, kind, pos = case["fam"], case["n"], case["R"], case["corrupt"], case["pos"]
    d = case["delta"]

    def obj_ok(shape, rank, dense, scale):
        def ok(res, clause):
            check(tuple(tuple(x) if isinstance(x, tuple) else x for x in res.shape) == shape, clause + "/shape", lambda: f"{res.shape} != {shape}")
            check((tuple(res.rank) if isinstance(rank, tuple) else res.rank) == rank, clause + "/rank", lambda: f"{res.rank} != {rank}")
            close(res.to_tensor(), dense, clause + "/to_tensor", rel=REL, scale=scale)
        return ok

    def val_ok(shape, rank):
        def ok(res, clause):
            s_, r_ = res
            check(tuple(tuple(x) if isinstance(x, tuple) else x for x in s_) == shape
                  and (tuple(r_) if isinstance(rank, tuple) else r_) == rank, clause, lambda: f"{res} != {(shape, rank)}")
        return ok

    def add_axis(lst, k):
        a = lst[k]
        old = a.shape
        a.shape = old + (1,)        # in place, same array object

        def undo():
            a.shape = old
        return undo

    def replace(lst, k, new):
        old = lst[k]
        lst[k] = new                # same list object

        def undo():
            lst[k] = old
        return undo

    if fam == "cp":
        shape = [int(v) for v in rs.randint(1, 4, n)]
        fs = [rs.standard_normal((s_, R)) for s_ in shape]
        w = rs.standard_normal(R)
        t = (w, fs)
        dense = ref.cp_dense(w, fs)
        scale = R * X.amax(w) * float(np.prod([X.amax(f) for f in fs]))
        shp = tuple(shape)
        entries = [("CPTensor", lambda: CPTensor(t), obj_ok(shp, R, dense, scale)),
                   ("_validate_cp_tensor", lambda: _validate_cp_tensor(t), val_ok(shp, R)),
                   ("cp_to_tensor", lambda: tl.cp_to_tensor(t), _ok_close(dense, scale)),
                   ("cp_to_unfolded", lambda: tl.cp_to_unfolded(t, 0), _ok_close(ref.unfold_fast(dense, 0), scale)),
                   ("cp_to_vec", lambda: tl.cp_to_vec(t), _ok_close(dense.reshape(-1), scale)),
                   ("cp_norm", lambda: tl.cp_norm(t), _ok_close(np.asarray(np.sqrt(np.sum(dense ** 2))), scale * np.sqrt(dense.size) * 10))]
        k = pos % n

        def corrupt():
            if kind == "add_axis":
                return add_axis(fs, k)
            if kind == "weights_axis":
                old = w.shape
                w.shape = (R, 1) if d > 0 else (1, R)

                def undo():
                    w.shape = old
                return undo
            return replace(fs, k, rs.standard_normal((shape[k], R + (d if R + d >= 1 else 1))))
        return entries, corrupt, f"CP shape {shape} rank {R}: {kind} at {k}"

    if fam == "tucker":
        shape = [int(v) for v in rs.randint(1, 4, n)]
        ranks = [int(v) for v in rs.randint(1, 4, n)]
        core = rs.standard_normal(ranks)
        fs = [rs.standard_normal((s_, r_)) for s_, r_ in zip(shape, ranks)]
        t = (core, fs)
        dense = ref.tucker_dense(core, fs)
        scale = _tucker_scale(core, fs, ranks)
        shp, rk = tuple(shape), tuple(ranks)
        entries = [("TuckerTensor", lambda: TuckerTensor(t), obj_ok(shp, rk, dense, scale)),
                   ("_validate_tucker_tensor", lambda: _validate_tucker_tensor(t), val_ok(shp, rk))]
        k = pos % n

        def corrupt():
            if kind == "add_axis":
                return add_axis(fs, k)
            if kind == "core_axis":
                old = core.shape
                core.shape = old + (1,)

                def undo():
                    core.shape = old
                return undo
            if kind == "list_edit":
                if d > 0:
                    fs.append(rs.standard_normal((2, 1)))
                    return lambda: fs.pop()
                f = fs.pop(k)
                return lambda: fs.insert(k, f)
            return replace(fs, k, rs.standard_normal((shape[k], ranks[k] + (d if ranks[k] + d >= 1 else 1))))
        return entries, corrupt, f"Tucker shape {shape} ranks {ranks}: {kind} at {k} (delta {d})"

    if fam in ("tt", "tr", "ttm"):
        shape = [int(v) for v in rs.randint(1, 4, n)]
        oshape = [int(v) for v in rs.randint(1, 4, n)]
        r0 = int(rs.randint(1, 4)) if fam == "tr" else 1
        ranks = [r0] + [int(v) for v in rs.randint(1, 4, n - 1)] + [r0]
        if fam == "ttm":
            cores = [rs.standard_normal((ranks[i], shape[i], oshape[i], ranks[i + 1])) for i in range(n)]
        else:
            cores = [rs.standard_normal((ranks[i], shape[i], ranks[i + 1])) for i in range(n)]
        dense = _chain_dense(fam, cores)
        scale = float(np.prod([X.amax(c) * c.shape[0] for c in cores]))
        shp = tuple(shape) + (tuple(oshape) if fam == "ttm" else ())
        rk = tuple(ranks)
        entries = [(_WRAP[fam].__name__, lambda: _WRAP[fam](cores), obj_ok(shp, rk, dense, scale)),
                   (_VALID[fam].__name__, lambda: _VALID[fam](cores), val_ok(shp, rk))]
        k = pos % n

        def corrupt():
            if kind == "add_axis":
                return add_axis(cores, k)
            if kind == "drop_axis":
                a = cores[k]
                old = a.shape
                a.shape = (old[0], int(np.prod(old[1:-1])) * old[-1]) if fam != "ttm" else (old[0], old[1] * old[2], old[3])

                def undo():
                    a.shape = old
                return undo
            # a core whose left rank does not fit its neighbour / the boundary / the ring closure
            bad = list(cores[k].shape)
            bad[0] = bad[0] + 1
            return replace(cores, k, rs.standard_normal(bad))
        return entries, corrupt, f"{fam} core shapes {[c.shape for c in cores]}: {kind} at {k}"

    # ---- PARAFAC2
    I = n
    K = int(rs.randint(1, 5))
    if kind in ("dup_column", "neg_inner") and R < 2:
        R = 2
    Js = [R + int(v) for v in rs.randint(0, 4, I)]
    A, B, C = rs.standard_normal((I, R)), rs.standard_normal((R, R)), rs.standard_normal((K, R))
    projs = [gen.orthonormal(int(rs.randint(0, 2 ** 31 - 1)), J, R) for J in Js]
    w = rs.standard_normal(R)
    facs = [A, B, C]
    t = (w, facs, projs)
    slices = ref.parafac2_slices(w, A, B, C, projs)
    dense = X.parafac2_padded(slices, K)
    scale = max(R * R * X.amax(w) * X.amax(A) * X.amax(B) * X.amax(C), 1e-300)
    shp = tuple((J, K) for J in Js)

    def slices_ok(res, clause):
        check(len(res) == I, clause + "/len")
        for g, sl in zip(res, slices):
            close(g, sl, clause, rel=REL, scale=scale)

    def apply_ok(res, clause):
        w2, (A2, Bs, C2) = res
        check(len(Bs) == I, clause + "/len")
        for b_, P_ in zip(Bs, projs):
            close(b_, P_ @ B, clause, rel=REL, scale=max(X.amax(B) * R, 1e-300))
    entries = [("Parafac2Tensor", lambda: Parafac2Tensor(t), obj_ok(shp, R, dense, scale)),
               ("_validate_parafac2_tensor", lambda: _validate_parafac2_tensor(t), val_ok(shp, R)),
               ("parafac2_to_tensor", lambda: P2.parafac2_to_tensor(t), _ok_close(dense, scale)),
               ("parafac2_to_slices", lambda: P2.parafac2_to_slices(t), slices_ok),
               ("parafac2_to_slice", lambda: P2.parafac2_to_slice(t, 0), _ok_close(slices[0], scale)),
               ("apply_parafac2_projections", lambda: P2.apply_parafac2_projections(t), apply_ok)]
    p = pos % I
    P = projs[p]

    def corrupt():
        if kind in RH_VALUE_KINDS:
            backup = P.copy()
            c = case["col"] % R
            if kind == "scale":
                np.multiply(P, case["factor"], out=P)      # P *= factor, on the same array object
            elif kind == "zero_column":
                P[:, c] = 0.0
            elif kind == "dup_column":
                P[:, 1] = P[:, 0]
            elif kind == "row_overwrite":
                P[case["col"] % P.shape[0], :] = 2.0
            else:
                v = P[:, 1] - 0.6 * P[:, 0]
                P[:, 1] = v / np.linalg.norm(v)
            dev = float(np.max(np.abs(P.T @ P - np.eye(R))))
            if dev <= 1e-3:
                P[...] = backup
                discard("in-place edit left the projection orthonormal")

            def undo():
                P[...] = backup      # same array object again
            return undo
        if kind == "add_axis":
            return add_axis(projs, p)
        if kind == "list_edit":
            if d > 0:
                projs.append(gen.orthonormal(5, R + 1, R))
                return lambda: projs.pop()
            q = projs.pop(p)
            return lambda: projs.insert(p, q)
        return replace(projs, p, gen.orthonormal(7, Js[p] + 1, R + 1))
    return entries, corrupt, f"PARAFAC2 I={I} R={R} Js={Js}: {kind} at projection {p} (factor {case['factor']}, col {case['col']})"


def o_reject_history(case):
    fam = case["fam"]
    for bk in _order(case):
        with tenalg_backend(bk):
            entries, corrupt, what = _rh_setup(case)
            pre = []
            for i in case["pre"]:
                e = entries[i % len(entries)]
                if e not in pre:
                    pre.append(e)
            if case["hist"] == "valid_then_corrupt":
                for name, fn, ok in pre:
                    ok(fn(), f"{fam}/reject_history/accept_valid/{name}@{bk}")
                corrupt()
                _must_raise([(nm, fn) for nm, fn, _ in entries],
                            f"{fam}/reject_history/reject_after_inplace:{case['corrupt']}@{bk}", what + " after it had been validated")
            else:
                undo = corrupt()
                _must_raise([(nm, fn) for nm, fn, _ in pre], f"{fam}/reject_history/reject:{case['corrupt']}@{bk}", what)
                undo()
                for name, fn, ok in entries:
                    ok(fn(), f"{fam}/reject_history/accept_after_repair/{name}@{bk}")
    return {"nontrivial": True, "labels": [f"hist={case['hist']}", f"corrupt={case['corrupt']}", f"n_pre={len(pre)}"] +
            [f"pre={e[0]}" for e in pre]}


# ----------------------------------------------------------------------------
def subchecks(tier):
    S = SubCheck
    subs = [
        S("cp/to_tensor", _cp_case(), o_cp_tensor, quick=500, thorough=3500),
        S("cp/to_unfolded", _cp_case(), o_cp_unfolded, quick=350, thorough=2500),
        S("cp/to_vec", _cp_case(), o_cp_vec, quick=350, thorough=2500),
        S("cp/mask_full", _cp_case(max_order=4, mask="full"), o_cp_mask, quick=350, thorough=2500),
        S("cp/mask_broadcast", _cp_case(max_order=4, mask="broadcast"), o_cp_mask, quick=300, thorough=2000),
        S("cp/wrapper", _cp_wrapper_case(), o_cp_wrapper, quick=350, thorough=2500),
        S("cp/norm", _cp_case(), o_cp_norm, quick=500, thorough=3500),
        S("cp/reject", _cp_bad_case(), o_cp_bad, quick=350, thorough=2500),
        S("tucker/to_tensor", _tucker_case(), o_tucker_tensor, quick=500, thorough=3500),
        S("tucker/views", _tucker_case(), o_tucker_views, quick=350, thorough=2500),
        S("tucker/wrapper", _tucker_case(), o_tucker_wrapper, quick=350, thorough=2500),
        S("tucker/options", _tucker_case(options=True), o_tucker_options, quick=500, thorough=3500),
        S("tucker/reject", _tucker_bad_case(), o_tucker_bad, quick=350, thorough=2500),
    ]
    for kind in ("tt", "tr", "ttm"):
        subs += [
            S(f"{kind}/to_tensor", _chain_case(kind), o_chain_tensor, quick=500, thorough=3500),
            S(f"{kind}/views", _chain_case(kind), o_chain_views, quick=350, thorough=2500),
            S(f"{kind}/wrapper", _chain_case(kind), o_chain_wrapper, quick=350, thorough=2500),
            S(f"{kind}/reject", _chain_bad_case(kind), o_chain_bad, quick=350, thorough=2500),
        ]
    subs += [
        S("parafac2/slices", _p2_case(), o_p2_slices, quick=250, thorough=2500),
        S("parafac2/tensor_views", _p2_case(), o_p2_tensor, quick=250, thorough=2500),
        S("parafac2/wrapper", _p2_case(), o_p2_wrapper, quick=350, thorough=2500),
        S("parafac2/reject", _p2_bad_case(), o_p2_bad, quick=350, thorough=2500),
    ]
    # validate / corrupt in place / validate again (and corrupt / reject / repair in place / accept)
    subs += [S(f"{fam}/reject_history", _rh_case(fam), o_reject_history, quick=(250 if fam == "parafac2" else 120),
               thorough=(2500 if fam == "parafac2" else 1200)) for fam in ("cp", "tucker", "tt", "tr", "ttm", "parafac2")]
    # histories on wrapper objects (views must stay consistent after every operation of a sequence)
    subs += [
        S("cp/history", _cp_hist_case(), o_cp_hist, quick=250, thorough=2500),
        S("tucker/history", _tucker_hist_case(), o_tucker_hist, quick=250, thorough=2500),
        S("tt/history", _chain_hist_case("tt"), o_chain_hist, quick=150, thorough=1500),
        S("tr/history", _chain_hist_case("tr"), o_chain_hist, quick=150, thorough=1500),
        S("ttm/history", _chain_hist_case("ttm"), o_chain_hist, quick=150, thorough=1500),
        S("parafac2/history", _p2_hist_case(), o_p2_hist, quick=150, thorough=1500),
    ]
    return subs
