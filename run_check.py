#!/venv/bin/python
"""Entry point:  run_check.py Cxx [--tier quick|thorough] [--replay PATH] [--only SUBSTR ...]

exit 0  property held on everything explored (KNOWN-FINDING lines possible)
exit 1  + "VIOLATION property=Cxx replay=<path>" per root-cause bucket
exit 2  harness error (never reported as a violation)
"""
import os
import sys

HERE = os.path.dirname(os.path.abspath(__file__))


def _bootstrap():
    # single-threaded BLAS, no bytecode in /repo, stable hashing: re-exec once
    want = {"PYTHONDONTWRITEBYTECODE": "1", "OMP_NUM_THREADS": "1", "OPENBLAS_NUM_THREADS": "1",
            "MKL_NUM_THREADS": "1", "PYTHONHASHSEED": "0", "TENSORLY_BACKEND": "numpy"}
    if any(os.environ.get(k) != v for k, v in want.items()):
        os.environ.update(want)
        os.execv(sys.executable, [sys.executable] + sys.argv)
    try:
        import hypothesis  # noqa
    except ImportError:
        import subprocess
        subprocess.call([sys.executable, "-m", "pip", "install", "-q", "--no-index",
                         "--find-links", "/opt/veriftools/wheels", "hypothesis"])
    repo = os.environ.get("VERIF_REPO", "/repo")
    sys.path.insert(0, repo)
    sys.path.insert(0, HERE)
    import warnings
    warnings.filterwarnings("ignore")
    import tensorly
    if not os.path.abspath(tensorly.__file__).startswith(os.path.abspath(repo) + os.sep):
        print(f"HARNESS-ERROR: tensorly imported from {tensorly.__file__}, not {repo}", file=sys.stderr)
        sys.exit(2)


def main():
    import argparse
    ap = argparse.ArgumentParser()
    ap.add_argument("prop")
    ap.add_argument("--tier", default=os.environ.get("VERIF_TIER", "quick"), choices=["quick", "thorough"])
    ap.add_argument("--replay")
    ap.add_argument("--only", nargs="*")
    ap.add_argument("--nproc", type=int, default=None)
    args = ap.parse_args()
    _bootstrap()
    import numpy as np
    np.seterr(all="ignore")
    from vlib import engine
    prop = args.prop.upper()
    mod_name = f"props.{prop.lower()}"
    try:
        seed = int(os.environ.get("VERIF_SEED", "1") or "1")
    except ValueError:
        seed = 1
    if args.replay:
        import importlib
        mod = importlib.import_module(mod_name)
        path = args.replay if os.path.isabs(args.replay) else os.path.join(os.getcwd(), args.replay)
        if not os.path.exists(path):
            path = os.path.join(HERE, args.replay)
        verdict, info = engine.replay_file(mod, path)
        print(f"replay {args.replay}: {verdict} {info.get('msg', info.get('reason', ''))}")
        if verdict == "FAIL":
            print(f"VIOLATION property={prop} replay={args.replay}")
            sys.exit(1)
        if verdict == "HARNESS":
            print(info["traceback"], file=sys.stderr)
            sys.exit(2)
        sys.exit(0)
    try:
        rc = engine.run_property(mod_name, args.tier, seed, only=args.only, nproc=args.nproc)
    except Exception:
        import traceback
        print("HARNESS-ERROR:\n" + traceback.format_exc(), file=sys.stderr)
        rc = 2
    sys.stdout.flush()
    sys.exit(rc)


if __name__ == "__main__":
    main()
