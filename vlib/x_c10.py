"""Helpers shared by props/c10.py, c11.py and c08.py (decomposition-level checks):
data tensors of several sign/sparsity classes, non-negative user inits, feasibility
predicates written with plain NumPy."""
import numpy as np
from hypothesis import strategies as st

from . import gen
from .engine import check, discard, Fail

DATA_KINDS = ("normal", "nonneg", "sparse", "sparse_nonneg", "int", "allneg", "lowrank", "lowrank_nonneg")


@st.composite
def data(draw, min_order=2, max_order=4, min_side=2, max_side=4, kinds=DATA_KINDS, rank_max=3,
         shape=None):
    """encoded data tensor (decode with dec_data); optional global scale"""
    if shape is None:
        shape = draw(gen.shapes(min_order, max_order, min_side, max_side))
    kind = draw(st.sampled_from(list(kinds)))
    if kind in ("lowrank", "lowrank_nonneg"):
        enc = {"s": list(shape), "lowrank": draw(st.integers(1, rank_max)), "seed": draw(gen.seeds),
               "nonneg": kind == "lowrank_nonneg"}
    elif kind == "int":
        enc = draw(gen.arr(list(shape), kinds=("int",)))
    elif kind == "posint":
        enc = draw(gen.arr(list(shape), kinds=("posint",)))
    else:
        enc = {"s": list(shape), "seed": draw(gen.seeds), "k": kind}
    enc["kind"] = kind
    return enc


def dec_data(enc):
    e = {k: v for k, v in enc.items() if k != "kind"}
    x = gen.dec_data(e)
    return np.ascontiguousarray(x, dtype=float)


def data_class(x):
    """labels describing the sign / sparsity class of a data tensor"""
    neg = bool((x < 0).any())
    zf = float((x == 0).mean())
    return neg, zf


def nonneg_matrix(enc):
    """decode an encoded matrix and make it entrywise non-negative"""
    return np.abs(gen.dec(enc))


@st.composite
def nn_cp_init(draw, shape, rank, weights=("none", "ones", "pos")):
    """entrywise non-negative user CP init: {"weights": enc|None, "factors": [enc]} (abs taken at decode)"""
    facs = [draw(gen.arr([s, rank], kinds=("normal", "posint", "sparse_nonneg", "uniform"))) for s in shape]
    wk = draw(st.sampled_from(list(weights)))
    if wk == "none":
        w = None
    elif wk == "ones":
        w = {"s": [rank], "d": [1.0] * rank}
    else:
        w = {"s": [rank], "d": [k / 4 for k in draw(st.lists(st.integers(1, 12), min_size=rank, max_size=rank))]}
    return {"weights": w, "factors": facs, "wkind": wk}


def dec_nn_cp_init(c):
    w = None if c["weights"] is None else gen.dec(c["weights"])
    return w, [np.abs(gen.dec(f)) for f in c["factors"]]


# ----------------------------------------------------------------------------
# feasibility predicates
# ----------------------------------------------------------------------------
def assert_nonneg(a, clause, what, shape=None):
    """finite and >= 0 entrywise (NaN is a failure)"""
    try:
        a = np.asarray(a)
    except Exception:  # noqa
        raise Fail(clause, f"{what}: not array-like ({type(a).__name__})")
    check(a.dtype != object, clause, f"{what}: object dtype")
    if shape is not None:
        check(tuple(a.shape) == tuple(shape), clause + "/shape", lambda: f"{what}: shape {a.shape} != {tuple(shape)}")
    if a.size == 0:
        return
    check(bool(np.all(np.isfinite(a))), clause + "/finite", lambda: f"{what}: non-finite entries (nan={int(np.isnan(a).sum())})")
    m = float(a.min())
    check(m >= 0, clause, lambda: f"{what}: min entry {m:.6g} < 0")


def is_monotone(col, tol):
    d = np.diff(col)
    return bool(np.all(d >= -tol)), bool(np.all(d <= tol))


def is_unimodal(col, tol):
    """exists j: col[:j+1] non-decreasing and col[j:] non-increasing (up to tol)"""
    n = len(col)
    d = np.diff(col)
    for j in range(n):
        if np.all(d[:j] >= -tol) and np.all(d[j:] <= tol):
            return True
    return False
