"""Helpers shared by props/c10.py, c11.py and c08.py (decomposition-level checks):
data tensors of several sign/sparsity classes, non-negative user inits, feasibility
predicates written with plain NumPy."""
import numpy as np
from hypothesis import strategies as st

from . import gen
from .engine import check, discard, Fail

DATA_KINDS = ("normal", "nonneg", "sparse", "sparse_nonneg", "int", "allneg", "lowrank", "lowrank_nonneg")


@st.composite
def data(draw, min_order=2, max_order=4, min_side=2, max_side=4, kinds=DATA_KINDS, rank_max=3,
         shape=None):
    """encoded data tensor (decode with dec_data); optional global scale"""
    if shape is None:
        shape = draw(gen.shapes(min_order, max_order, min_side, max_side))
    kind = draw(st.sampled_from(list(kinds)))
    if kind in ("lowrank", "lowrank_nonneg"):
        enc = {"s": list(shape), "lowrank": draw(st.integers(1, rank_max)), "seed": draw(gen.seeds),
               "nonneg": kind == "lowrank_nonneg"}
    elif kind == "lowtucker":
        # exactly low multilinear rank: every unfolding is rank deficient when a rank is below the side
        enc = {"s": list(shape), "seed": draw(gen.seeds), "tucker_ranks": [draw(st.integers(1, max(1, min(2, s)))) for s in shape]}
    elif kind == "dupslice":
        # generic tensor whose slices along one mode are duplicated or zeroed (rank-deficient unfolding of that mode)
        m = draw(st.integers(0, len(shape) - 1))
        enc = {"s": list(shape), "seed": draw(gen.seeds), "k": "normal", "dup_mode": m,
               "dup_src": [draw(st.integers(-1, i)) for i in range(shape[m])]}
    elif kind == "int":
        enc = draw(gen.arr(list(shape), kinds=("int",)))
    elif kind == "posint":
        enc = draw(gen.arr(list(shape), kinds=("posint",)))
    else:
        enc = {"s": list(shape), "seed": draw(gen.seeds), "k": kind}
    enc["kind"] = kind
    return enc


def dec_data(enc):
    """decode; optional keys: "tucker_ranks" (low multilinear rank), "dup_mode"/"dup_src" (slice i along dup_mode is a copy
    of slice dup_src[i] <= i, or zero when dup_src[i] == -1), "xscale" (global factor applied last)"""
    e = {k: v for k, v in enc.items() if k not in ("kind", "tucker_ranks", "dup_mode", "dup_src", "xscale")}
    if "tucker_ranks" in enc:
        x = gen.lowrank_tucker_tensor(enc["seed"], enc["s"], enc["tucker_ranks"])
    else:
        x = gen.dec_data(e)
    x = np.array(x, dtype=float)
    if "dup_mode" in enc:
        m = enc["dup_mode"]
        xm = np.moveaxis(x, m, 0)
        for i, src in enumerate(enc["dup_src"]):
            if src < 0:
                xm[i] = 0.0
            elif src != i:
                xm[i] = xm[src]
    if "xscale" in enc:
        x = x * enc["xscale"]
    return np.ascontiguousarray(x, dtype=float)


def data_class(x):
    """labels describing the sign / sparsity class of a data tensor"""
    neg = bool((x < 0).any())
    zf = float((x == 0).mean())
    return neg, zf


def nonneg_matrix(enc):
    """decode an encoded matrix and make it entrywise non-negative"""
    return np.abs(gen.dec(enc))


@st.composite
def nn_cp_init(draw, shape, rank, weights=("none", "ones", "pos")):
    """entrywise non-negative user CP init: {"weights": enc|None, "factors": [enc]} (abs taken at decode)"""
    facs = [draw(gen.arr([s, rank], kinds=("normal", "posint", "sparse_nonneg", "uniform"))) for s in shape]
    wk = draw(st.sampled_from(list(weights)))
    if wk == "none":
        w = None
    elif wk == "ones":
        w = {"s": [rank], "d": [1.0] * rank}
    else:
        w = {"s": [rank], "d": [k / 4 for k in draw(st.lists(st.integers(1, 12), min_size=rank, max_size=rank))]}
    return {"weights": w, "factors": facs, "wkind": wk}


def dec_nn_cp_init(c):
    w = None if c["weights"] is None else gen.dec(c["weights"])
    return w, [np.abs(gen.dec(f)) for f in c["factors"]]


# ----------------------------------------------------------------------------
# feasibility predicates
# ----------------------------------------------------------------------------
def assert_nonneg(a, clause, what, shape=None):
    """finite and >= 0 entrywise (NaN is a failure)"""
    try:
        a = np.asarray(a)
    except Exception:  # noqa
        raise Fail(clause, f"{what}: not array-like ({type(a).__name__})")
    check(a.dtype != object, clause, f"{what}: object dtype")
    if shape is not None:
        check(tuple(a.shape) == tuple(shape), clause + "/shape", lambda: f"{what}: shape {a.shape} != {tuple(shape)}")
    if a.size == 0:
        return
    check(bool(np.all(np.isfinite(a))), clause + "/finite", lambda: f"{what}: non-finite entries (nan={int(np.isnan(a).sum())})")
    m = float(a.min())
    check(m >= 0, clause, lambda: f"{what}: min entry {m:.6g} < 0")


def is_monotone(col, tol):
    d = np.diff(col)
    return bool(np.all(d >= -tol)), bool(np.all(d <= tol))


def is_unimodal(col, tol):
    """exists j: col[:j+1] non-decreasing and col[j:] non-increasing (up to tol)"""
    n = len(col)
    d = np.diff(col)
    for j in range(n):
        if np.all(d[:j] >= -tol) and np.all(d[j:] <= tol):
            return True
    return False
