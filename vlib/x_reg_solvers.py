"""Registry entries: NNLS / ADMM solvers and proximal operators."""
import numpy as np
from hypothesis import strategies as st

from tensorly.solvers import nnls as NN
from tensorly.solvers.admm import admm
from tensorly.tenalg import proximal as P

from . import gen
from .x_registry import register, Call, REAL, enc, small_shape

seeds = gen.seeds


# ---- NNLS family -----------------------------------------------------------------
@st.composite
def s_hals(draw):
    m, r, n = draw(st.integers(2, 5)), draw(st.integers(1, 3)), draw(st.integers(1, 4))
    return {"U": draw(enc([m, r], "uniform")), "M": draw(enc([m, n], "nonneg")),
            "V": draw(st.one_of(st.none(), enc([r, n], "uniform"))),
            "n_iter_max": draw(st.integers(1, 12)), "tol": draw(st.sampled_from([1e-8, 1e-2, 0.0])),
            "sparsity": draw(st.sampled_from([None, None, 0.1, 1.0])), "ridge": draw(st.sampled_from([None, None, 0.5])),
            "nonzero_rows": draw(st.booleans()), "epsilon": draw(st.sampled_from([0.0, 1e-8]))}


def b_hals(e, ctx):
    U = gen.dec(e["U"])
    M = gen.dec(e["M"])
    kw = dict(UtM=ctx.W(U.T @ M), UtU=ctx.W(U.T @ U), V=ctx.A(e["V"]), n_iter_max=e["n_iter_max"], tol=e["tol"],
              sparsity_coefficient=e["sparsity"], ridge_coefficient=e["ridge"], nonzero_rows=e["nonzero_rows"],
              exact=False, epsilon=e["epsilon"])
    return Call(NN.hals_nnls, kw, exempt=("V",))       # V: "r-by-n initialization matrix (mutable)"


register("hals_nnls", s_hals(), b_hals, quick=150)


@st.composite
def s_fista(draw):
    form = draw(st.sampled_from(["matrix", "matrix", "tensor"]))
    c = {"form": form, "n_iter_max": draw(st.integers(1, 10)), "non_negative": draw(st.booleans()),
         "sparsity_coef": draw(st.sampled_from([0, None, 0.1])), "ridge_coef": draw(st.sampled_from([0, 0.5])),
         "tol": draw(st.sampled_from([1e-8, 1e-2])), "xinit": draw(st.booleans())}
    if form == "matrix":
        m, r, n = draw(st.integers(2, 5)), draw(st.integers(1, 3)), draw(st.integers(1, 4))
        c.update(U=draw(enc([m, r], "uniform")), M=draw(enc([m, n], "nonneg")), x=draw(enc([r, n], "uniform")),
                 lr=draw(st.sampled_from([None, 0.05])))
    else:
        shape = draw(small_shape(2, 3, 1, 3, 18))
        c.update(UtM=draw(enc(shape, "nonneg")), grams=[draw(enc([s + 1, s], "uniform")) for s in shape], x=draw(enc(shape, "uniform")), lr=0.05)
    return c


def b_fista(e, ctx):
    kw = dict(n_iter_max=e["n_iter_max"], non_negative=e["non_negative"], sparsity_coef=e["sparsity_coef"],
              ridge_coef=e["ridge_coef"], lr=e["lr"], tol=e["tol"])
    if e["form"] == "matrix":
        U, M = gen.dec(e["U"]), gen.dec(e["M"])
        kw.update(UtM=ctx.W(U.T @ M), UtU=ctx.W(U.T @ U))
    else:
        gr = [gen.dec(g) for g in e["grams"]]
        kw.update(UtM=ctx.A(e["UtM"]), UtU=[ctx.W(g.T @ g) for g in gr])
    kw["x"] = ctx.A(e["x"]) if e["xinit"] else None
    return Call(NN.fista, kw)


register("fista", s_fista(), b_fista, quick=150)


@st.composite
def s_active_set(draw):
    m, r = draw(st.integers(2, 6)), draw(st.integers(1, 4))
    return {"U": draw(enc([m, r], draw(st.sampled_from(["uniform", "normal"])))), "m": draw(enc([m], "normal")),
            "x": draw(st.one_of(st.none(), enc([r], "sparse_nonneg"), enc([r], "uniform"), enc([r], "uniform"))), "n_iter_max": draw(st.integers(1, 10)),
            "dup": r >= 2 and draw(st.booleans())}


def b_active_set(e, ctx):
    U, m = gen.dec(e["U"]), gen.dec(e["m"])
    if e.get("dup"):
        U = U.copy()
        U[:, 1] = U[:, 0]        # collinear columns: a warm start with both passive makes the first solve singular (fallback path)
    return Call(NN.active_set_nnls, dict(Utm=ctx.W(U.T @ m), UtU=ctx.W(U.T @ U), x=ctx.A(e["x"]), n_iter_max=e["n_iter_max"]))


register("active_set_nnls", s_active_set(), b_active_set, quick=200)


# constraint name -> strategy for its parameter
CONSTRAINTS = {
    "non_negative": st.just(True), "l1_reg": st.sampled_from([0.1, 1.0]), "l2_reg": st.sampled_from([0.1, 1.0]),
    "l2_square_reg": st.sampled_from([0.1, 1.0]), "unimodality": st.just(True), "normalize": st.just(True),
    "simplex": st.sampled_from([1.0, 2.5]), "normalized_sparsity": st.integers(1, 3), "soft_sparsity": st.sampled_from([0.5, 2.0]),
    "smoothness": st.sampled_from([0.1, 1.0]), "monotonicity": st.just(True), "hard_sparsity": st.integers(1, 4),
}


FORMS = ["scalar", "list", "short_list", "gap_list", "dict", "dict_all"]


@st.composite
def constraint_spec(draw, n, with_second=True):
    """one (or two, on disjoint modes) constraint keywords for an n-mode problem, in every container form the API
    accepts: scalar, full-length list, list *shorter* than the number of modes, list with None / False entries,
    dict on a subset of the modes, dict on all modes.  The containers are built fresh by constraint_kwargs()."""
    name = draw(st.sampled_from(sorted(CONSTRAINTS)))
    form = draw(st.sampled_from(FORMS))
    spec = {"constraint": name, "param": draw(CONSTRAINTS[name]), "form": form}
    used = set(range(n))
    if form == "short_list":
        spec["len"] = draw(st.integers(1, max(1, n - 1)))
        used = set(range(spec["len"]))
    elif form == "gap_list":
        spec["len"] = draw(st.integers(1, n))
        spec["gaps"] = [draw(st.sampled_from(["p", "p", "none", "false"])) for _ in range(spec["len"])]
        used = {i for i, g in enumerate(spec["gaps"]) if g == "p"}
    elif form == "dict":
        spec["cmodes"] = sorted(draw(st.lists(st.integers(0, n - 1), unique=True, min_size=1, max_size=n)))
        used = set(spec["cmodes"])
    free = sorted(set(range(n)) - used)
    if with_second and free and form != "scalar" and draw(st.booleans()):
        name2 = draw(st.sampled_from([c for c in sorted(CONSTRAINTS) if c != name]))
        form2 = draw(st.sampled_from(["dict", "gap_list"]))
        sec = {"constraint": name2, "param": draw(CONSTRAINTS[name2]), "form": form2}
        modes2 = sorted(draw(st.lists(st.sampled_from(free), unique=True, min_size=1, max_size=len(free))))
        if form2 == "dict":
            sec["cmodes"] = modes2
        else:
            sec["len"] = draw(st.integers(max(modes2) + 1, n))
            sec["gaps"] = ["p" if i in modes2 else draw(st.sampled_from(["none", "false"])) for i in range(sec["len"])]
        spec["second"] = sec
    return spec


def _one_constraint(spec, n):
    form, p = spec.get("form", "scalar"), spec["param"]
    if form == "list":
        return [p] * n
    if form == "short_list":
        return [p] * spec["len"]
    if form == "gap_list":
        return [p if g == "p" else (None if g == "none" else False) for g in spec["gaps"]]
    if form == "partial_list":
        return [p if m in spec["cmodes"] else None for m in range(n)]
    if form == "dict":
        return {m: p for m in spec["cmodes"]}
    if form == "dict_all":
        return {m: p for m in range(n)}
    return p


def constraint_kwargs(spec, n):
    """fresh caller-owned containers for the constraint keyword(s) of a spec"""
    if not spec.get("constraint"):
        return {}
    kw = {spec["constraint"]: _one_constraint(spec, n)}
    if spec.get("second"):
        kw[spec["second"]["constraint"]] = _one_constraint(spec["second"], n)
    return kw


@st.composite
def s_admm(draw):
    n, r = draw(st.integers(2, 5)), draw(st.integers(1, 3))
    c = {"U": draw(enc([n + 1, r], "uniform")), "UtM": draw(enc([n, r], "nonneg")), "x": draw(enc([n, r], "uniform")),
         "dual": draw(enc([n, r], "normal", scale=0.1)), "constraint": None, "param": None, "n_iter_max": draw(st.integers(1, 5))}
    if draw(st.integers(0, 9)) > 0:
        c["n_const"] = draw(st.integers(1, 3))
        c["order"] = draw(st.integers(0, c["n_const"] - 1))
        c.update(draw(constraint_spec(c["n_const"])))
    return c


def b_admm(e, ctx):
    U = gen.dec(e["U"])
    kw = dict(UtM=ctx.A(e["UtM"]), UtU=ctx.W(U.T @ U), x=ctx.A(e["x"]), dual_var=ctx.A(e["dual"]), n_iter_max=e["n_iter_max"],
              n_const=e.get("n_const", 1) if e["constraint"] else None, order=e.get("order", 0) if e["constraint"] else None)
    kw.update(constraint_kwargs(e, e.get("n_const", 1)))
    return Call(admm, kw)


register("admm", s_admm(), b_admm, quick=150)


# ---- proximal operators ----------------------------------------------------------
def _prox(name, fn, pstrat=None, pname=None, kinds=("normal", "sparse", "allneg", "nonneg"), vec=True, argname="tensor", flags=()):
    @st.composite
    def s(draw):
        if vec and draw(st.integers(0, 3)) == 0:
            shape = [draw(st.integers(1, 5))]
        else:
            shape = [draw(st.integers(1, 5)), draw(st.integers(1, 4))]
        c = {"T": draw(enc(shape, draw(st.sampled_from(list(kinds)))))}
        if pstrat is not None:
            c["p"] = draw(pstrat)
        for f in flags:
            c[f] = draw(st.booleans())
        return c

    def b(e, ctx):
        kw = {argname: ctx.A(e["T"])}
        if pstrat is not None:
            kw[pname] = e["p"]
        for f in flags:
            kw[f] = e[f]
        return Call(fn, kw)
    register(name, s(), b, quick=150)


_prox("soft_thresholding", P.soft_thresholding, st.sampled_from([0.0, 0.5, 2.0]), "threshold")
_prox("svd_thresholding", P.svd_thresholding, st.sampled_from([0.0, 0.5, 2.0]), "threshold", vec=False, argname="matrix")
_prox("procrustes", P.procrustes, vec=False, argname="matrix")
_prox("hard_thresholding", P.hard_thresholding, st.integers(0, 6), "number_of_non_zero")
_prox("simplex_prox", P.simplex_prox, st.sampled_from([1.0, 0.5, 3.0]), "parameter")
_prox("soft_sparsity_prox", P.soft_sparsity_prox, st.sampled_from([1.0, 0.5, 30.0]), "threshold")
_prox("normalized_sparsity_prox", P.normalized_sparsity_prox, st.integers(1, 5), "threshold")
_prox("l2_prox", P.l2_prox, st.sampled_from([0.1, 1.0, 50.0]), "regularizer")
_prox("l2_square_prox", P.l2_square_prox, st.sampled_from([0.1, 1.0]), "regularizer")
_prox("smoothness_prox", P.smoothness_prox, st.sampled_from([0.1, 1.0]), "regularizer")
_prox("monotonicity_prox", P.monotonicity_prox, flags=("decreasing",))
_prox("unimodality_prox", P.unimodality_prox)


@st.composite
def s_soft_thr_arr(draw):
    shape = [draw(st.integers(1, 4)), draw(st.integers(1, 4))]
    return {"T": draw(enc(shape)), "thr": draw(enc(shape, "sparse_nonneg"))}


register("soft_thresholding.array_threshold", s_soft_thr_arr(),
         lambda e, ctx: Call(P.soft_thresholding, dict(tensor=ctx.A(e["T"]), threshold=ctx.A(e["thr"]))), quick=100)


@st.composite
def s_proxop(draw):
    n_const = draw(st.integers(1, 3))
    order = draw(st.integers(0, n_const - 1))
    c = {"T": draw(enc([draw(st.integers(2, 5)), draw(st.integers(1, 3))], draw(st.sampled_from(["normal", "sparse", "allneg"])))),
         "n_const": n_const, "order": order}
    c.update(draw(constraint_spec(n_const)))
    return c


def constraint_arg(form, p, n_const, modes=None):
    """scalar / per-mode list / dict form of one constraint parameter (caller-owned containers)"""
    if form == "list":
        return [p] * n_const
    if form == "dict":
        return {m: p for m in (modes if modes is not None else range(n_const))}
    return p


def b_proxop(e, ctx):
    kw = dict(tensor=ctx.A(e["T"]), n_const=e["n_const"], order=e["order"])
    if e.get("form") == "dict" and "cmodes" not in e:          # first-generation cases / replays: dict on every mode
        e = dict(e, form="dict_all")
    kw.update(constraint_kwargs(e, e["n_const"]))
    return Call(P.proximal_operator, kw)


register("proximal_operator", s_proxop(), b_proxop, quick=200)
