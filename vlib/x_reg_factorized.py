"""Registry entries: factorised-tensor conversions and transforms (CP / Tucker / TT / TR / TT-matrix / PARAFAC2),
preprocessing."""
import numpy as np
from hypothesis import strategies as st

import tensorly as tl
from tensorly import cp_tensor as CP, tucker_tensor as TK, tt_tensor as TT, tr_tensor as TR, tt_matrix as TTM
from tensorly import parafac2_tensor as P2, preprocessing as PRE
from tensorly.cp_tensor import CPTensor
from tensorly.tt_tensor import TTTensor
from tensorly.tr_tensor import TRTensor
from tensorly.tt_matrix import TTMatrix
from tensorly.parafac2_tensor import Parafac2Tensor

from . import gen
from .x_registry import register, Call, CPLX, REAL, enc, mask_spec, small_shape, container
from .x_reg_tenalg import cp_arg
from .x_reg_decomp import tucker_arg, p2_parts, SVDS

seeds = gen.seeds
CPK = st.sampled_from(["tuple", "list", "cpt"])


# ============================================================================
# CP
# ============================================================================
@st.composite
def s_cp(draw, min_order=2, max_order=4, weights=("none", "ones", "pos", "mixed"), kinds=("normal",), extra=None):
    shape = draw(small_shape(min_order, max_order, 1, 4, 64))
    r = draw(st.integers(1, 3))
    c = {"cp": draw(gen.cp_factors(shape, r, kinds=kinds, weights=weights)), "argkind": draw(CPK), "shape": shape, "rank": r}
    return c


def _cp(e, ctx, key="cp", kind=None):
    w = ctx.R(e[key]["weights"])
    return cp_arg(kind or e["argkind"], w, [ctx.A(f) for f in e[key]["factors"]])


@st.composite
def s_cp_to_tensor(draw):
    c = draw(s_cp(min_order=1))
    c["mask"] = draw(mask_spec()) if len(c["shape"]) >= 2 else None
    if c["mask"] is not None:
        c["mask"]["kind"] = "float"
    if len(c["shape"]) == 1 and c["cp"]["weights"] is None:      # order-1 path multiplies by the weights unconditionally
        c["cp"]["weights"] = {"s": [c["rank"]], "d": [1.0] * c["rank"]}
    return c


register("cp_to_tensor", s_cp_to_tensor(),
         lambda e, ctx: Call(CP.cp_to_tensor, dict(cp_tensor=_cp(e, ctx), mask=ctx.mask(e["mask"], e["shape"]))), dtypes=CPLX, quick=150, backends=True)


@st.composite
def s_cp_mode(draw):
    c = draw(s_cp())
    c["mode"] = draw(st.integers(0, len(c["shape"]) - 1))
    return c


register("cp_to_unfolded", s_cp_mode(), lambda e, ctx: Call(CP.cp_to_unfolded, dict(cp_tensor=_cp(e, ctx), mode=e["mode"])), dtypes=CPLX, quick=120)
register("cp_to_vec", s_cp(), lambda e, ctx: Call(CP.cp_to_vec, dict(cp_tensor=_cp(e, ctx))), dtypes=CPLX, quick=120)
register("cp_norm", s_cp(), lambda e, ctx: Call(CP.cp_norm, dict(cp_tensor=_cp(e, ctx))), dtypes=CPLX, quick=120, returns=False)
register("cp_normalize", s_cp(), lambda e, ctx: Call(CP.cp_normalize, dict(cp_tensor=_cp(e, ctx))), dtypes=CPLX, quick=150,
         real_ok=lambda p: False)


@st.composite
def s_cp_flip(draw):
    c = draw(s_cp(weights=("none", "ones", "pos", "neg", "mixed")))
    c["mode"] = draw(st.integers(0, len(c["shape"]) - 1))
    return c


register("cp_flip_sign", s_cp_flip(), lambda e, ctx: Call(CP.cp_flip_sign, dict(cp_tensor=_cp(e, ctx), mode=e["mode"])), quick=150)


@st.composite
def s_cp_permute(draw):
    shape = draw(small_shape(2, 3, 2, 4, 48))
    r = draw(st.integers(1, 3))
    n = draw(st.integers(1, 2))
    return {"ref": draw(gen.cp_factors(shape, r, kinds=("normal",), weights=("ones", "pos"))),
            "others": [draw(gen.cp_factors(shape, r, kinds=("normal",), weights=("ones", "pos", "mixed"))) for _ in range(n)],
            "form": draw(st.sampled_from(["single", "list"])), "refkind": draw(CPK)}


def b_cp_permute(e, ctx):
    ref = _cp(e, ctx, "ref", e["refkind"])
    others = [_cp({"x": o}, ctx, "x", "cpt") for o in e["others"]]
    return Call(CP.cp_permute_factors, dict(ref_cp_tensor=ref, tensors_to_permute=others if e["form"] == "list" else others[0]))


register("cp_permute_factors", s_cp_permute(), b_cp_permute, quick=120)


@st.composite
def s_cp_mode_dot(draw):
    c = draw(s_cp(weights=("ones", "pos", "mixed", "none")))
    m = draw(st.integers(0, len(c["shape"]) - 1))
    vec = draw(st.booleans())
    c.update(mode=m, kind="vector" if vec else "matrix", keep_dim=draw(st.booleans()), copy=draw(st.sampled_from([True, True, False])),
             M=draw(enc([c["shape"][m]] if vec else [draw(st.integers(1, 3)), c["shape"][m]])))
    return c


def b_cp_mode_dot(e, ctx):
    # copy=False is documented as in place on the factorised argument (exempt); the matrix never is
    return Call(CP.cp_mode_dot, dict(cp_tensor=_cp(e, ctx), matrix_or_vector=ctx.A(e["M"]), mode=e["mode"], keep_dim=e["keep_dim"], copy=e["copy"]),
                exempt=() if e["copy"] else ("cp_tensor",))


register("cp_mode_dot", s_cp_mode_dot(), b_cp_mode_dot, dtypes=CPLX, quick=150,
         real_ok=lambda p: p.endswith("weights"))      # the (real) weights argument is passed through unchanged


@st.composite
def s_cp_grad(draw):
    c = draw(s_cp(max_order=3))
    c["X"] = draw(enc(c["shape"]))
    c["mask"] = draw(mask_spec())
    if c["mask"] is not None:
        c["mask"]["kind"] = "float"
    c["return_loss"] = draw(st.booleans())
    return c


register("cp_lstsq_grad", s_cp_grad(),
         lambda e, ctx: Call(CP.cp_lstsq_grad, dict(cp_tensor=_cp(e, ctx), tensor=ctx.A(e["X"]), return_loss=e["return_loss"], mask=ctx.mask(e["mask"], e["shape"]))),
         quick=100)


# ============================================================================
# Tucker
# ============================================================================
@st.composite
def s_tk(draw):
    shape = draw(small_shape(2, 4, 1, 3, 54))
    ranks = [draw(st.integers(1, 3)) for _ in shape]
    return {"tk": draw(gen.tucker_factors(shape, ranks, kinds=("normal",))), "argkind": draw(st.sampled_from(["tuple", "list", "tkt"])),
            "shape": shape, "ranks": ranks}


def _tk(e, ctx):
    return tucker_arg(e["argkind"], ctx.A(e["tk"]["core"]), [ctx.A(f) for f in e["tk"]["factors"]])


@st.composite
def s_tk_to_tensor(draw):
    c = draw(s_tk())
    c["skip_factor"] = draw(st.one_of(st.none(), st.integers(0, len(c["shape"]) - 1)))
    c["mode"] = draw(st.integers(0, len(c["shape"]) - 1))
    return c


register("tucker_to_tensor", s_tk_to_tensor(),
         lambda e, ctx: Call(TK.tucker_to_tensor, dict(tucker_tensor=_tk(e, ctx), skip_factor=e["skip_factor"])), dtypes=CPLX, quick=120)
register("tucker_to_unfolded", s_tk_to_tensor(),
         lambda e, ctx: Call(TK.tucker_to_unfolded, dict(tucker_tensor=_tk(e, ctx), mode=e["mode"], skip_factor=e["skip_factor"])), dtypes=CPLX, quick=100)
register("tucker_to_vec", s_tk_to_tensor(),
         lambda e, ctx: Call(TK.tucker_to_vec, dict(tucker_tensor=_tk(e, ctx), skip_factor=e["skip_factor"])), dtypes=CPLX, quick=100)
register("tucker_normalize", s_tk(), lambda e, ctx: Call(TK.tucker_normalize, dict(tucker_tensor=_tk(e, ctx))), dtypes=CPLX, quick=120)


@st.composite
def s_tk_mode_dot(draw):
    c = draw(s_tk())
    m = draw(st.integers(0, len(c["shape"]) - 1))
    vec = draw(st.booleans())
    c.update(mode=m, kind="vector" if vec else "matrix", keep_dim=draw(st.booleans()), copy=draw(st.sampled_from([True, True, False])),
             M=draw(enc([c["shape"][m]] if vec else [draw(st.integers(1, 3)), c["shape"][m]])))
    return c


def b_tk_mode_dot(e, ctx):
    return Call(TK.tucker_mode_dot, dict(tucker_tensor=_tk(e, ctx), matrix_or_vector=ctx.A(e["M"]), mode=e["mode"], keep_dim=e["keep_dim"], copy=e["copy"]),
                exempt=() if e["copy"] else ("tucker_tensor",))


register("tucker_mode_dot", s_tk_mode_dot(), b_tk_mode_dot, dtypes=CPLX, quick=150)


# ============================================================================
# TT / TR / TT-matrix
# ============================================================================
@st.composite
def s_tt(draw, ring=False):
    shape = draw(small_shape(2 if ring else 1, 4, 1, 3, 54))
    n = len(shape)
    if ring:
        r = [draw(st.integers(1, 3)) for _ in range(n)]
        ranks = r + [r[0]]
    else:
        ranks = [1] + [draw(st.integers(1, 3)) for _ in range(n - 1)] + [1]
    return {"cores": draw(gen.tt_cores(shape, ranks, kinds=("normal",))), "argkind": draw(st.sampled_from(["list", "tuple", "obj"])),
            "mode": draw(st.integers(0, n - 1)), "shape": shape}


def _tt(e, ctx, cls):
    cores = [ctx.A(c) for c in e["cores"]]
    if e["argkind"] == "obj":
        return cls(cores)
    return container(e["argkind"], cores)


register("tt_to_tensor", s_tt(), lambda e, ctx: Call(TT.tt_to_tensor, dict(factors=_tt(e, ctx, TTTensor))), dtypes=CPLX, quick=120)
register("tt_to_unfolded", s_tt(), lambda e, ctx: Call(TT.tt_to_unfolded, dict(factors=_tt(e, ctx, TTTensor), mode=e["mode"])), dtypes=CPLX, quick=100)
register("tt_to_vec", s_tt(), lambda e, ctx: Call(TT.tt_to_vec, dict(factors=_tt(e, ctx, TTTensor))), dtypes=CPLX, quick=100)
register("tr_to_tensor", s_tt(ring=True), lambda e, ctx: Call(TR.tr_to_tensor, dict(factors=_tt(e, ctx, TRTensor))), dtypes=CPLX, quick=120)
register("tr_to_unfolded", s_tt(ring=True), lambda e, ctx: Call(TR.tr_to_unfolded, dict(factors=_tt(e, ctx, TRTensor), mode=e["mode"])), dtypes=CPLX, quick=100)
register("tr_to_vec", s_tt(ring=True), lambda e, ctx: Call(TR.tr_to_vec, dict(factors=_tt(e, ctx, TRTensor))), dtypes=CPLX, quick=100)


@st.composite
def s_pad_tt(draw):
    c = draw(s_tt())
    c["n_padding"] = draw(st.integers(1, 2))
    c["pad_boundaries"] = draw(st.booleans())
    return c


register("pad_tt_rank", s_pad_tt(),
         lambda e, ctx: Call(TT.pad_tt_rank, dict(factor_list=_tt(e, ctx, TTTensor), n_padding=e["n_padding"], pad_boundaries=e["pad_boundaries"])),
         dtypes=CPLX, quick=120)


@st.composite
def s_ttm(draw):
    n = draw(st.integers(1, 3))
    ins = [draw(st.integers(1, 3)) for _ in range(n)]
    outs = [draw(st.integers(1, 3)) for _ in range(n)]
    ranks = [1] + [draw(st.integers(1, 2)) for _ in range(n - 1)] + [1]
    return {"cores": draw(gen.ttm_cores(ins, outs, ranks, kinds=("normal",))), "argkind": draw(st.sampled_from(["list", "tuple", "obj"])),
            "mode": draw(st.integers(0, 2 * n - 1))}


def _b_ttm(fn, mode=False):
    def b(e, ctx):
        kw = dict(tt_matrix=_tt(e, ctx, TTMatrix))
        if mode:
            kw["mode"] = e["mode"]
        return Call(fn, kw)
    return b


def _ttm_to_tensor(tt_matrix):
    return TTM.tt_matrix_to_tensor(tt_matrix)         # dispatched through the selected tenalg backend


register("tt_matrix_to_tensor", s_ttm(), _b_ttm(_ttm_to_tensor), dtypes=CPLX, backends=True, quick=120)
register("tt_matrix_to_matrix", s_ttm(), _b_ttm(TTM.tt_matrix_to_matrix), dtypes=CPLX, backends=True, quick=100)
register("tt_matrix_to_unfolded", s_ttm(), _b_ttm(TTM.tt_matrix_to_unfolded, mode=True), dtypes=CPLX, backends=True, quick=100)
register("tt_matrix_to_vec", s_ttm(), _b_ttm(TTM.tt_matrix_to_vec), dtypes=CPLX, backends=True, quick=100)


# ============================================================================
# PARAFAC2 + preprocessing
# ============================================================================
@st.composite
def s_p2(draw):
    K = draw(st.integers(1, 4))
    rank = draw(st.integers(1, 3))
    I = draw(st.integers(1, 3))
    rows = [draw(st.integers(rank, 4)) for _ in range(I)]
    return {"rows": rows, "K": K, "rank": rank, "seed": draw(seeds), "w": draw(st.sampled_from(["none", "ones", "pos"])),
            "argkind": draw(st.sampled_from(["tuple", "list", "obj"])), "idx": draw(st.integers(0, I - 1)), "mode": draw(st.integers(0, 2))}


def _p2(e, ctx):
    w, facs, projs = p2_parts(e["seed"], len(e["rows"]), e["rows"], e["K"], e["rank"], ctx, e["w"])
    if e["argkind"] == "obj":
        return Parafac2Tensor((w, facs, projs))
    return container(e["argkind"], [w, facs, projs])


register("parafac2_to_tensor", s_p2(), lambda e, ctx: Call(P2.parafac2_to_tensor, dict(parafac2_tensor=_p2(e, ctx))), quick=120)
register("parafac2_to_slices", s_p2(), lambda e, ctx: Call(P2.parafac2_to_slices, dict(parafac2_tensor=_p2(e, ctx))), quick=100)
register("parafac2_to_slice", s_p2(), lambda e, ctx: Call(P2.parafac2_to_slice, dict(parafac2_tensor=_p2(e, ctx), slice_idx=e["idx"])), quick=100)
register("parafac2_to_unfolded", s_p2(), lambda e, ctx: Call(P2.parafac2_to_unfolded, dict(parafac2_tensor=_p2(e, ctx), mode=e["mode"])), quick=80)
register("parafac2_to_vec", s_p2(), lambda e, ctx: Call(P2.parafac2_to_vec, dict(parafac2_tensor=_p2(e, ctx))), quick=80)
register("parafac2_normalise", s_p2(), lambda e, ctx: Call(P2.parafac2_normalise, dict(parafac2_tensor=_p2(e, ctx))), quick=120)
register("apply_parafac2_projections", s_p2(), lambda e, ctx: Call(P2.apply_parafac2_projections, dict(parafac2_tensor=_p2(e, ctx))), quick=100)


@st.composite
def s_compress(draw):
    K = draw(st.integers(1, 4))
    I = draw(st.integers(1, 3))
    rows = [draw(st.integers(1, 6)) for _ in range(I)]
    return {"rows": rows, "K": K, "seed": draw(seeds), "form": draw(st.sampled_from(["list", "tuple", "array"])),
            "thr": draw(st.sampled_from([0.0, 0.0, 0.3])), "max_rank": draw(st.one_of(st.none(), st.integers(1, 4))), "svd": draw(SVDS)}


def b_compress(e, ctx):
    rs = np.random.RandomState(int(e["seed"]) % (2 ** 32))
    rows = e["rows"] if e["form"] != "array" else [e["rows"][0]] * len(e["rows"])
    sl = [rs.standard_normal((r, e["K"])) for r in rows]
    X = ctx.W(np.stack(sl)) if e["form"] == "array" else container(e["form"], [ctx.W(s) for s in sl])
    return Call(PRE.svd_compress_tensor_slices, dict(tensor_slices=X, compression_threshold=e["thr"], max_rank=e["max_rank"], svd=e["svd"]))


register("svd_compress_tensor_slices", s_compress(), b_compress, quick=120)


@st.composite
def s_decompress(draw):
    c = draw(s_p2())
    c["full_rows"] = [draw(st.one_of(st.none(), st.integers(r, r + 2))) for r in c["rows"]]
    c["lkind"] = draw(st.sampled_from(["list", "tuple"]))
    return c


def b_decompress(e, ctx):
    rs = np.random.RandomState((int(e["seed"]) + 7) % (2 ** 32))
    load = [None if fr is None else ctx.W(gen.orthonormal(rs.randint(0, 2 ** 31 - 1), fr, r)) for fr, r in zip(e["full_rows"], e["rows"])]
    return Call(PRE.svd_decompress_parafac2_tensor, dict(parafac2_tensor=_p2(e, ctx), loading_matrices=container(e["lkind"], load)))


register("svd_decompress_parafac2_tensor", s_decompress(), b_decompress, quick=120)
