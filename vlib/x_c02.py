"""References and small helpers for C02 / C03 that are not in vlib/ref.py.
Nothing here imports tensorly.  Everything is either an explicit loop or an
np.einsum *sublist* call (no equation strings)."""
import numpy as np
from hypothesis import strategies as st

from . import ref


@st.composite
def shapes(draw, min_order=1, max_order=4, min_side=1, max_side=4):
    """like gen.shapes, but the order is drawn uniformly first (st.lists favours short lists)"""
    n = draw(st.integers(min_order, max_order))
    return [draw(st.integers(min_side, max_side)) for _ in range(n)]


def prod(xs):
    p = 1
    for x in xs:
        p *= int(x)
    return p


def amax(a):
    a = np.asarray(a)
    return float(np.max(np.abs(a))) if a.size else 0.0


def scale_of(operands, contraction=1):
    """product of operand max-norms x contraction size (natural magnitude of a
    multilinear expression in the operands)"""
    s = float(max(1, contraction))
    for o in operands:
        s *= amax(o)
    return s


def enc_exact(enc):
    """True when an encoded array (gen.arr) holds small integers only, so that
    sums/products of a handful of them are exact in binary floating point"""
    if enc is None:
        return True
    if "seed" in enc:
        return enc.get("k") == "int" and "scale" not in enc and "shift" not in enc
    vals = list(enc.get("d", [])) + list(enc.get("di", []))
    return "scale" not in enc and all(float(v) == int(v) for v in vals)


# ------------------------------------------------------------------ products
def kron_list(mats):
    """Kronecker product of a list, entry formula:
    out[(i1..ik),(j1..jk)] = prod_t M_t[i_t, j_t]  (row-major mixed radix)"""
    mats = [np.asarray(m) for m in mats]
    rows = [m.shape[0] for m in mats]
    cols = [m.shape[1] for m in mats]
    out = np.empty((prod(rows), prod(cols)), dtype=np.result_type(*mats))
    for ri in np.ndindex(*rows):
        r = 0
        for t, i in enumerate(ri):
            r = r * rows[t] + i
        for ci in np.ndindex(*cols):
            c = 0
            for t, j in enumerate(ci):
                c = c * cols[t] + j
            v = 1
            for t in range(len(mats)):
                v = v * mats[t][ri[t], ci[t]]
            out[r, c] = v
    return out


def khatri_rao_entry(mats, weights=None, mask=None):
    """out[(i1..ik), r] = w_r * mask[i1..ik] * prod_t M_t[i_t, r]"""
    mats = [np.asarray(m) for m in mats]
    rows = [m.shape[0] for m in mats]
    R = mats[0].shape[1]
    dt = np.result_type(*mats, *( [np.asarray(weights)] if weights is not None else []))
    out = np.empty((prod(rows), R), dtype=dt)
    mk = None if mask is None else np.asarray(mask).reshape(rows)
    for ri in np.ndindex(*rows):
        p = 0
        for t, i in enumerate(ri):
            p = p * rows[t] + i
        for r in range(R):
            v = 1
            for t in range(len(mats)):
                v = v * mats[t][ri[t], r]
            if weights is not None:
                v = v * weights[r]
            if mk is not None:
                v = v * mk[ri]
            out[p, r] = v
    return out


def inner_n(a, b, n_modes):
    """contract the last n_modes of a with the first n_modes of b (no conjugation)"""
    a, b = np.asarray(a), np.asarray(b)
    if n_modes is None:
        tot = 0
        for idx in np.ndindex(*a.shape):
            tot = tot + a[idx] * b[idx]
        return np.asarray(tot)
    na, nb = a.ndim, b.ndim
    la = list(range(na))
    lb = list(range(na - n_modes, na - n_modes + nb))
    out = la[:na - n_modes] + lb[n_modes:]
    return np.einsum(a, la, b, lb, out)


def batched_outer(tensors):
    """out[s, j..., k..., ...] = prod_t T_t[s, ...]"""
    tensors = [np.asarray(t) for t in tensors]
    args = []
    out = [0]
    nxt = 1
    for t in tensors:
        labs = [0] + list(range(nxt, nxt + t.ndim - 1))
        nxt += t.ndim - 1
        args += [t, labs]
        out += labs[1:]
    args.append(out)
    return np.einsum(*args)


def norm_axes(modes, ndim):
    return [int(m) % ndim if m < 0 else int(m) for m in modes]


def tensordot(a, b, modes1, modes2, batch1=(), batch2=()):
    """Contract a's modes1 with b's modes2 (pairwise, in the given order); batch1/batch2 are
    paired batch modes.  Output modes: a's non-contracted modes in a's order (batch modes stay
    where they are in a), then b's modes that are neither contracted nor batched, in b's order."""
    a, b = np.asarray(a), np.asarray(b)
    m1, m2 = norm_axes(modes1, a.ndim), norm_axes(modes2, b.ndim)
    b1, b2 = norm_axes(batch1, a.ndim), norm_axes(batch2, b.ndim)
    shape_out = [d for i, d in enumerate(a.shape) if i not in m1] + \
                [d for i, d in enumerate(b.shape) if i not in m2 + b2]
    out = np.zeros(shape_out, dtype=np.result_type(a, b))
    free1 = [i for i in range(a.ndim) if i not in m1]
    free2 = [i for i in range(b.ndim) if i not in m2 + b2]
    cshape = [a.shape[i] for i in m1]
    for oi in np.ndindex(*shape_out):
        ia = [None] * a.ndim
        ib = [None] * b.ndim
        for p, ax in enumerate(free1):
            ia[ax] = oi[p]
        for p, ax in enumerate(free2):
            ib[ax] = oi[len(free1) + p]
        for x, y in zip(b1, b2):
            ib[y] = ia[x]
        tot = 0
        for ci in np.ndindex(*cshape):
            for p, (x, y) in enumerate(zip(m1, m2)):
                ia[x] = ci[p]
                ib[y] = ci[p]
            tot = tot + a[tuple(ia)] * b[tuple(ib)]
        out[oi] = tot
    return out


def mttkrp(x, weights, factors, mode):
    """out[i_mode, r] = sum_{i} X[i] * w_r * prod_{k != mode} conj(F_k[i_k, r])"""
    x = np.asarray(x)
    nd = x.ndim
    R = np.asarray(factors[0]).shape[1]
    args = [x, list(range(nd))]
    if weights is not None:
        args += [np.asarray(weights), [nd]]
    for k, f in enumerate(factors):
        if k != mode:
            args += [np.conj(np.asarray(f)), [k, nd]]
    if nd == 1 and weights is None:
        # only X itself: out[i, r] = X[i] for every r
        return np.repeat(x.reshape(-1, 1), R, axis=1)
    args.append([mode, nd])
    return np.einsum(*args)


def moment(x, order):
    """mean over samples s of the `order`-fold outer product of x[s] with itself"""
    x = np.asarray(x)
    n = x.shape[0]
    acc = None
    for s in range(n):
        o = x[s]
        for _ in range(order - 1):
            o = np.multiply.outer(o, x[s])
        acc = o if acc is None else acc + o
    return acc / n


def mixed_radix(indices_list, sizes):
    idx = np.zeros(len(indices_list[0]), dtype=int) if indices_list else np.zeros(0, dtype=int)
    for ind, s in zip(indices_list, sizes):
        idx = idx * int(s) + np.asarray(ind, dtype=int)
    return idx


# ------------------------------------------------------------------ factorised tensors (loop forms)
def cp_dense_loop(weights, factors):
    """sum_r w_r a_r o b_r o ... (explicit outer products)"""
    factors = [np.asarray(f) for f in factors]
    R = factors[0].shape[1]
    shape = [f.shape[0] for f in factors]
    dt = np.result_type(*factors, *([np.asarray(weights)] if weights is not None else []))
    out = np.zeros(shape, dtype=dt)
    for r in range(R):
        term = factors[0][:, r]
        for f in factors[1:]:
            term = np.multiply.outer(term, f[:, r])
        out = out + (term if weights is None else weights[r] * term)
    return out


def chain_dense(cores, ring):
    """TT (ring=False) or TR (ring=True) entry formula:
    X[i1..in] = (trace of) G1[:, i1, :] @ ... @ Gn[:, in, :]"""
    cores = [np.asarray(c) for c in cores]
    shape = [c.shape[1] for c in cores]
    out = np.zeros(shape, dtype=np.result_type(*cores))
    for idx in np.ndindex(*shape):
        m = cores[0][:, idx[0], :]
        for k in range(1, len(cores)):
            m = m @ cores[k][:, idx[k], :]
        out[idx] = np.trace(m) if ring else m[0, 0]
    return out


def ttm_dense_loop(cores):
    """TT-matrix entry formula: T[i1..ik, j1..jk] = G1[:, i1, j1, :] @ ... @ Gk[:, ik, jk, :]"""
    cores = [np.asarray(c) for c in cores]
    ins = [c.shape[1] for c in cores]
    outs = [c.shape[2] for c in cores]
    out = np.zeros(ins + outs, dtype=np.result_type(*cores))
    for ii in np.ndindex(*ins):
        for jj in np.ndindex(*outs):
            m = cores[0][:, ii[0], jj[0], :]
            for k in range(1, len(cores)):
                m = m @ cores[k][:, ii[k], jj[k], :]
            out[ii + jj] = m[0, 0]
    return out


def parafac2_slices(weights, A, B, C, projections):
    """slice_i[j, k] = sum_r (P_i B)[j, r] * w_r * A[i, r] * C[k, r]"""
    A, B, C = np.asarray(A), np.asarray(B), np.asarray(C)
    R = A.shape[1]
    w = np.ones(R) if weights is None else np.asarray(weights)
    out = []
    for i, P in enumerate(projections):
        Bi = np.asarray(P) @ B
        out.append(np.einsum(Bi, [0, 2], w * A[i], [2], C, [1, 2], [0, 1]))
    return out


def parafac2_padded(slices, K):
    I = len(slices)
    J = max(s.shape[0] for s in slices)
    out = np.zeros((I, J, K), dtype=np.result_type(*slices))
    for i, s in enumerate(slices):
        out[i, :s.shape[0], :] = s
    return out


unfold = ref.unfold
