"""Small helpers shared by property modules."""
from contextlib import contextmanager

TENALG_BACKENDS = ["core", "einsum"]


@contextmanager
def tenalg_backend(name):
    """select a tenalg backend and restore the previous one (not through the library's
    own context manager, which is itself under test in C17)"""
    import tensorly.tenalg as T
    old = T.get_backend()
    T.set_backend(name)
    try:
        yield
    finally:
        T.set_backend(old)
