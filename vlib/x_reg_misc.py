"""Registry entries: metrics, regressors, random generators."""
import numpy as np
from hypothesis import strategies as st

import tensorly as tl
from tensorly import metrics as M
from tensorly.metrics import regression as MR
from tensorly import regression as RG
from tensorly import random as RD

from . import gen
from .x_registry import register, Call, CPLX, REAL, enc, small_shape, container

seeds = gen.seeds


# ============================================================================
# metrics
# ============================================================================
@st.composite
def s_pair(draw):
    shape = draw(small_shape(1, 3, 1, 4, 48))
    return {"A": draw(enc(shape)), "B": draw(enc(shape)), "axis": draw(st.one_of(st.none(), st.integers(0, len(shape) - 1)))}


def _b_pair(fn):
    return lambda e, ctx: Call(fn, dict(y_true=ctx.A(e["A"]), y_pred=ctx.A(e["B"]), axis=e["axis"]))


for _n, _f in (("MSE", MR.MSE), ("RMSE", MR.RMSE), ("reflective_correlation_coefficient", MR.reflective_correlation_coefficient),
               ("covariance", MR.covariance), ("correlation", MR.correlation)):
    register(f"metrics.{_n}", s_pair(), _b_pair(_f), quick=100)

register("metrics.R2_score", s_pair(), lambda e, ctx: Call(MR.R2_score, dict(X_original=ctx.A(e["A"]), X_predicted=ctx.A(e["B"]))), quick=80, returns=False)


@st.composite
def s_var(draw):
    shape = draw(small_shape(1, 3, 1, 4, 48))
    return {"A": draw(enc(shape)), "axis": draw(st.one_of(st.none(), st.integers(0, len(shape) - 1)))}


register("metrics.variance", s_var(), lambda e, ctx: Call(MR.variance, dict(y=ctx.A(e["A"]), axis=e["axis"])), quick=80)
register("metrics.standard_deviation", s_var(), lambda e, ctx: Call(MR.standard_deviation, dict(y=ctx.A(e["A"]), axis=e["axis"])), quick=80)


@st.composite
def s_congruence(draw):
    n = draw(st.integers(1, 3))
    r = draw(st.integers(1, 4))
    rows = [draw(st.integers(1, 5)) for _ in range(n)]
    single = n == 1 and draw(st.booleans())
    return {"A": [draw(enc([x, r])) for x in rows], "B": [draw(enc([x, r])) for x in rows], "single": single,
            "absolute_value": draw(st.booleans()), "argkind": draw(st.sampled_from(["list", "tuple"]))}


def b_congruence(e, ctx):
    A = [ctx.A(a) for a in e["A"]]
    B = [ctx.A(b) for b in e["B"]]
    if e["single"]:
        return Call(M.congruence_coefficient, dict(matrix1=A[0], matrix2=B[0], absolute_value=e["absolute_value"]))
    return Call(M.congruence_coefficient, dict(matrix1=container(e["argkind"], A), matrix2=container(e["argkind"], B), absolute_value=e["absolute_value"]))


register("congruence_coefficient", s_congruence(), b_congruence, quick=120, returns=False)


@st.composite
def s_corridx(draw):
    n = draw(st.integers(1, 3))
    r = draw(st.integers(1, 3))
    rows = [draw(st.integers(1, 4)) for _ in range(n)]
    return {"A": [draw(enc([x, r])) for x in rows], "B": [draw(enc([x, r])) for x in rows],
            "method": draw(st.sampled_from(["stacked", "max_score", "min_score", "avg_score"]))}


register("correlation_index", s_corridx(),
         lambda e, ctx: Call(M.correlation_index, dict(factors_1=[ctx.A(a) for a in e["A"]], factors_2=[ctx.A(b) for b in e["B"]], method=e["method"])),
         quick=120, returns=False, dtypes=CPLX)


@st.composite
def s_lev(draw):
    return {"A": draw(enc([draw(st.integers(1, 6)), draw(st.integers(1, 4))], "normal"))}


# documented: the leverage-score distribution is always double precision -> C15 only
register("leverage_score_dist", s_lev(), lambda e, ctx: Call(M.leverage_score_dist, dict(matrix=ctx.A(e["A"]))), quick=100, c18=False)


@st.composite
def s_entropy(draw):
    k = draw(st.integers(1, 4))
    return {"seed": draw(seeds), "k": k, "form": draw(st.sampled_from(["matrix", "tensor"]))}


def b_entropy(e, ctx):
    rs = np.random.RandomState(e["seed"])
    k = e["k"]
    n = k * k if e["form"] == "tensor" else k
    a = rs.standard_normal((n, n))
    rho = a @ a.T
    rho = rho / np.trace(rho)
    if e["form"] == "tensor":
        rho = rho.reshape(k, k, k, k)
    return Call(M.vonneumann_entropy, dict(tensor=ctx.W(rho)))


register("vonneumann_entropy", s_entropy(), b_entropy, quick=80, returns=False)


# ============================================================================
# regressors: fit / predict (/ transform)
# ============================================================================
@st.composite
def s_cpreg(draw):
    n = draw(st.integers(4, 8))
    xs = draw(small_shape(2, 3, 2, 3, 18))      # a single feature mode with scalar y leaves khatri_rao nothing to multiply
    ys = draw(st.sampled_from([[], [], [2]]))
    return {"X": draw(enc([n] + xs)), "y": draw(enc([n] + ys)), "Xnew": draw(enc([draw(st.integers(1, 3))] + xs)),
            "rank": draw(st.integers(1, 3)), "reg_W": draw(st.sampled_from([1, 0.1, 10.0])), "n_iter_max": draw(st.integers(1, 4)), "rs": draw(seeds)}


def _fit_predict(Cls):
    def run(ctor, X, y, Xnew):
        est = Cls(**ctor)
        est.fit(X, y)
        return est.predict(Xnew), est.predict(X), {k: v for k, v in vars(est).items() if k not in ctor}
    return run


def b_cpreg(e, ctx):
    ctor = dict(weight_rank=e["rank"], reg_W=e["reg_W"], n_iter_max=e["n_iter_max"], random_state=e["rs"], verbose=0, tol=1e-7)
    return Call(_fit_predict(RG.CPRegressor), dict(ctor=ctor, X=ctx.A(e["X"]), y=ctx.A(e["y"]), Xnew=ctx.A(e["Xnew"])))


register("CPRegressor.fit_predict", s_cpreg(), b_cpreg, quick=80)


@st.composite
def s_tkreg(draw):
    n = draw(st.integers(4, 8))
    xs = draw(small_shape(2, 3, 2, 3, 18))
    return {"X": draw(enc([n] + xs)), "y": draw(enc([n])), "Xnew": draw(enc([draw(st.integers(1, 3))] + xs)),
            "ranks": [draw(st.integers(1, s)) for s in xs], "rankform": draw(st.sampled_from(["list", "tuple"])),
            "reg_W": draw(st.sampled_from([1, 0.1])), "n_iter_max": draw(st.integers(1, 4)), "rs": draw(seeds)}


def b_tkreg(e, ctx):
    ctor = dict(weight_ranks=container(e["rankform"], e["ranks"]), reg_W=e["reg_W"], n_iter_max=e["n_iter_max"], random_state=e["rs"], verbose=0)
    return Call(_fit_predict(RG.TuckerRegressor), dict(ctor=ctor, X=ctx.A(e["X"]), y=ctx.A(e["y"]), Xnew=ctx.A(e["Xnew"])))


register("TuckerRegressor.fit_predict", s_tkreg(), b_tkreg, quick=80)


@st.composite
def s_plsr(draw):
    n = draw(st.integers(4, 8))
    xs = draw(small_shape(1, 3, 2, 3, 18))
    ys = draw(st.sampled_from([[], [1], [2], [3]]))
    m = draw(st.integers(1, 3))
    return {"X": draw(enc([n] + xs)), "Y": draw(enc([n] + ys)), "Xnew": draw(enc([m] + xs)), "Ynew": draw(enc([m] + ys)),
            "n_components": draw(st.integers(1, 2)), "n_iter_max": draw(st.integers(1, 5)), "with_y": draw(st.booleans()),
            "bad": draw(st.integers(0, 7)) == 0}


def _plsr_run(ctor, X, Y, Xnew, Ynew):
    est = RG.CP_PLSR(**ctor)
    est.fit(X, Y)
    pred = est.predict(Xnew)
    tr = est.transform(Xnew, Ynew)
    ft = RG.CP_PLSR(**ctor).fit_transform(X, Y)
    return pred, tr, ft, {k: v for k, v in vars(est).items() if k not in ctor and not k.endswith("shape_")}


def b_plsr(e, ctx):
    ctor = dict(n_components=e["n_components"], n_iter_max=e["n_iter_max"], tol=1e-9)
    Xnew = ctx.A(e["Xnew"])
    if e["bad"]:
        Xnew = ctx.W(np.zeros((2,) + tuple(s + 1 for s in Xnew.shape[1:])))      # mismatched trailing shape: predict must raise
    return Call(_plsr_run, dict(ctor=ctor, X=ctx.A(e["X"]), Y=ctx.A(e["Y"]), Xnew=Xnew, Ynew=ctx.A(e["Ynew"]) if e["with_y"] else None),
                expect_exc=e["bad"])


register("CP_PLSR.fit_predict_transform", s_plsr(), b_plsr, quick=80, flags=("cvg",))


# ============================================================================
# random generators given a RandomState (+ dtype context)
# ============================================================================
@st.composite
def s_random(draw, kind):
    c = {"rs": draw(seeds), "rskind": draw(st.sampled_from(["RandomState", "RandomState", "int"])), "full": draw(st.booleans()),
         "shapeform": draw(st.sampled_from(["list", "tuple"]))}
    if kind == "tensor":
        c["shape"] = draw(small_shape(1, 3, 1, 4, 48))
    elif kind == "cp":
        c["shape"] = draw(small_shape(2, 3, 1, 4, 48))
        c["rank"] = draw(st.integers(1, 3))
        c["orthogonal"] = draw(st.booleans()) and c["rank"] <= min(c["shape"])
        c["normalise_factors"] = draw(st.booleans())
    elif kind == "tucker":
        c["shape"] = draw(small_shape(2, 3, 1, 4, 48))
        c["rank"] = [draw(st.integers(1, 3)) for _ in c["shape"]]
        c["orthogonal"] = draw(st.booleans()) and all(r <= s for r, s in zip(c["rank"], c["shape"]))
        c["non_negative"] = draw(st.booleans())
    elif kind == "tt":
        c["shape"] = draw(small_shape(2, 4, 1, 3, 54))
        c["rank"] = [1] + [draw(st.integers(1, 3)) for _ in range(len(c["shape"]) - 1)] + [1]
    elif kind == "tr":
        c["shape"] = draw(small_shape(2, 4, 1, 3, 54))
        r = [draw(st.integers(1, 3)) for _ in c["shape"]]
        c["rank"] = r + [r[0]]
    elif kind == "tt_matrix":
        n = draw(st.integers(1, 2))
        c["shape"] = [draw(st.integers(1, 3)) for _ in range(2 * n)]
        c["rank"] = [1] + [draw(st.integers(1, 2)) for _ in range(n - 1)] + [1]
    elif kind == "parafac2":
        K = draw(st.integers(1, 3))
        rank = draw(st.integers(1, 3))
        c["shapes"] = [[draw(st.integers(rank, 4)), K] for _ in range(draw(st.integers(1, 3)))]
        c["rank"] = rank
        c["normalise_factors"] = draw(st.booleans())
    return c


def _b_random(kind):
    fn = getattr(RD, "random_" + kind)

    def b(e, ctx):
        rs = np.random.RandomState(e["rs"]) if e["rskind"] == "RandomState" else e["rs"]
        kw = dict(random_state=rs, dtype=ctx.dtype)
        if kind == "parafac2":
            kw["shapes"] = container(e["shapeform"], [container(e["shapeform"], s) for s in e["shapes"]])
        else:
            kw["shape"] = container(e["shapeform"], e["shape"])
        if kind != "tensor":
            kw["full"] = e["full"]
            kw["rank"] = list(e["rank"]) if isinstance(e["rank"], list) else e["rank"]
        for k in ("orthogonal", "normalise_factors", "non_negative"):
            if k in e:
                kw[k] = e[k]
        return Call(fn, kw)
    return b


for _k in ("tensor", "cp", "tucker", "tt", "tr", "tt_matrix", "parafac2"):
    register(f"random_{_k}", s_random(_k), _b_random(_k), quick=100)


# ============================================================================
# backend index_update: the target is documented as updated in place (exempt), the values are not
# ============================================================================
@st.composite
def s_index_update(draw):
    shape = [draw(st.integers(1, 4)), draw(st.integers(1, 4))]
    row = draw(st.integers(0, shape[0] - 1))
    return {"T": draw(enc(shape)), "row": row, "V": draw(enc([shape[1]]))}


register("index_update", s_index_update(),
         lambda e, ctx: Call(lambda tensor, indices, values: tl.index_update(tensor, indices, values),
                             dict(tensor=ctx.A(e["T"]), indices=tl.index[e["row"], :], values=ctx.A(e["V"])), exempt=("tensor", "indices")),
         quick=100, dtypes=CPLX)


# ============================================================================
# base re-arrangements: the shape / mode arguments are given as caller-owned lists
# ============================================================================
from tensorly import base as B  # noqa: E402


@st.composite
def s_base(draw):
    shape = draw(small_shape(1, 4, 1, 4, 64))
    nd = len(shape)
    sb = draw(st.integers(0, nd - 1))
    se = draw(st.integers(0, nd - 1 - sb))
    perm = draw(st.permutations(list(range(nd))))
    k = draw(st.integers(0, nd))
    return {"X": draw(enc(shape)), "mode": draw(st.integers(0, nd - 1)), "sb": sb, "se": se, "pmode": draw(st.integers(0, nd - sb - se - 1)),
            "shapeform": draw(st.sampled_from(["list", "list", "tuple"])), "rows": list(perm[:k]), "cols": list(perm[k:]),
            "colsgiven": draw(st.booleans()), "ravel": draw(st.booleans())}


def _unfold_fold(tensor, mode, shape):
    u = B.unfold(tensor, mode)
    return u, B.fold(u, mode, shape), B.fold(u, mode, shape)          # twice: the shape argument must survive the first call


def _partial(tensor, mode, skip_begin, skip_end, ravel_tensors, shape):
    u = B.partial_unfold(tensor, mode=mode, skip_begin=skip_begin, skip_end=skip_end, ravel_tensors=ravel_tensors)
    f = B.partial_fold(u, mode, shape, skip_begin=skip_begin, skip_end=skip_end)
    return u, f, B.partial_fold(u, mode, shape, skip_begin=skip_begin, skip_end=skip_end)


def _vec(tensor, shape, skip_begin, skip_end):
    v = B.tensor_to_vec(tensor)
    pv = B.partial_tensor_to_vec(tensor, skip_begin=skip_begin, skip_end=skip_end)
    return v, B.vec_to_tensor(v, shape), pv, B.partial_vec_to_tensor(pv, shape, skip_begin=skip_begin, skip_end=skip_end)


register("base.unfold_fold", s_base(),
         lambda e, ctx: Call(_unfold_fold, dict(tensor=ctx.A(e["X"]), mode=e["mode"], shape=container(e["shapeform"], e["X"]["s"]))),
         dtypes=CPLX, quick=120)
register("base.partial_unfold_fold", s_base(),
         lambda e, ctx: Call(_partial, dict(tensor=ctx.A(e["X"]), mode=e["pmode"], skip_begin=e["sb"], skip_end=e["se"], ravel_tensors=e["ravel"],
                                            shape=container(e["shapeform"], e["X"]["s"]))), dtypes=CPLX, quick=120)
register("base.vec_roundtrips", s_base(),
         lambda e, ctx: Call(_vec, dict(tensor=ctx.A(e["X"]), shape=container(e["shapeform"], e["X"]["s"]), skip_begin=e["sb"], skip_end=e["se"])),
         dtypes=CPLX, quick=120)
register("base.matricize", s_base(),
         lambda e, ctx: Call(B.matricize, dict(tensor=ctx.A(e["X"]), row_modes=container(e["shapeform"], e["rows"]),
                                               column_modes=container(e["shapeform"], e["cols"]) if e["colsgiven"] else None)),
         dtypes=CPLX, quick=120)
