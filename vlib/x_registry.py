"""Registry of public tensorly entry points shared by C15 (inputs are never modified)
and C18 (results keep the dtype of the input).

Entry(name, strategy, build, ...):
  strategy  Hypothesis strategy -> JSON case `e` (shapes, ranks, options, argument kinds)
  build     (e, ctx) -> Call(fn, kwargs, exempt): ctx decodes arrays in the requested dtype /
            memory layouts; kwargs are *fresh* caller-owned objects (arrays, lists, wrappers).
  flags     returns (arrays returned? -> used by C18), dtypes (supported input dtypes),
            backends (run under both tenalg backends), c18_exempt(path), real_ok(path),
            gseed (entry draws from the global NumPy RNG: it is seeded from the case).

The two generic oracles live here as well (c15_oracle / c18_oracle); props/c15.py and
props/c18.py only turn the registry into SubCheck lists.
"""
import contextlib
import io
import os
import re
import traceback
import warnings

import numpy as np
from hypothesis import strategies as st

from . import gen, snap
from .engine import check, discard, Fail, REPO_DIR
from .util import tenalg_backend

REAL = ("float32", "float64")
CPLX = ("float32", "float64", "complex128")

ENTRIES = []          # filled by the x_reg_* modules through register()
_BY_NAME = {}


# ----------------------------------------------------------------------------
# decoding context
# ----------------------------------------------------------------------------
class Ctx:
    """decodes encoded arrays into the requested dtype, cycling through memory layouts"""

    def __init__(self, dtype="float64", lays=("C",)):
        self.dtype = np.dtype(dtype)
        self.lays = list(lays) or ["C"]
        self.k = 0

    @property
    def rdtype(self):
        return np.dtype({"complex128": "float64", "complex64": "float32"}.get(self.dtype.name, self.dtype.name))

    def _lay(self, a):
        lay = self.lays[self.k % len(self.lays)]
        self.k += 1
        if a.ndim == 0:
            return a
        return gen.layout(a, lay)

    def W(self, a, real=False):
        """cast an already-built float array into the context dtype (+ layout)"""
        a = np.asarray(a)
        dt = self.rdtype if real else self.dtype
        if dt.kind == "c" and not np.iscomplexobj(a):
            a = a + 0.5j * np.roll(a.reshape(-1), 1).reshape(a.shape)
        return self._lay(a.astype(dt))

    def A(self, enc, real=False):
        if enc is None:
            return None
        a = gen.dec_data(enc, "float64") if "lowrank" in enc else gen.dec(enc, "float64")
        return self.W(a, real=real)

    def R(self, enc):
        return self.A(enc, real=True)

    def mask(self, spec, shape):
        """spec: None | {"seed": n, "kind": "float"|"bool"} -> 0/1 array with ~70 % ones"""
        if spec is None:
            return None
        rs = np.random.RandomState(int(spec["seed"]) % (2 ** 32))
        m = rs.uniform(size=tuple(shape)) < 0.7
        if spec.get("kind") == "bool":
            return self._lay(m)
        return self._lay(m.astype(self.rdtype))


class Call:
    def __init__(self, fn, kwargs, exempt=(), expect_exc=False):
        self.fn = fn
        self.kwargs = kwargs
        self.exempt = tuple(exempt)      # kwarg names documented as updated in place / consumed
        self.expect_exc = expect_exc     # the case was built to exit by exception

    def run(self):
        with warnings.catch_warnings():
            warnings.simplefilter("ignore")
            with contextlib.redirect_stdout(io.StringIO()):
                return self.fn(**self.kwargs)


class Entry:
    def __init__(self, name, strategy, build, returns=True, dtypes=REAL, backends=False,
                 c18_exempt=None, real_ok=None, gseed=False, quick=80, thorough=None, c18=True,
                 c15=True, flags=()):
        self.name = name
        self.strategy = strategy
        self.build = build
        self.returns = returns
        self.dtypes = tuple(dtypes)
        self.backends = backends
        self.c18_exempt = c18_exempt
        self.real_ok = real_ok
        self.gseed = gseed
        self.quick = quick
        self.thorough = thorough if thorough is not None else 4 * quick      # per shard; 4 shards -> 16 x quick
        self.c18 = c18 and returns
        self.c15 = c15
        self.flags = tuple(flags)     # "cvg": e["bad"] selects an invalid cvg_criterion (exit by exception)


def register(*a, **k):
    e = Entry(*a, **k)
    if e.name in _BY_NAME:
        raise ValueError(f"duplicate registry entry {e.name}")
    ENTRIES.append(e)
    _BY_NAME[e.name] = e
    return e


def get(name):
    load()
    return _BY_NAME[name]


_loaded = False


def load():
    global _loaded
    if _loaded:
        return ENTRIES
    _loaded = True
    from . import x_reg_tenalg, x_reg_solvers, x_reg_decomp, x_reg_factorized, x_reg_misc  # noqa: F401
    return ENTRIES


# ----------------------------------------------------------------------------
# case wrappers: entry case + dtype + layouts (+ tenalg backend, global seed)
# ----------------------------------------------------------------------------
@st.composite
def c15_case(draw, entry):
    c = {"e": draw(entry.strategy)}
    c["dtype"] = draw(st.sampled_from(["float64", "float64", "float32"] + (["complex128"] if "complex128" in entry.dtypes else [])))
    c["lays"] = draw(st.lists(st.sampled_from(gen.LAYOUTS), min_size=1, max_size=4))
    if entry.backends:
        c["backend"] = draw(st.sampled_from(["core", "einsum"]))
    if entry.gseed:
        c["gseed"] = draw(gen.seeds)
    return c


@st.composite
def c18_case(draw, entry):
    c = {"e": draw(entry.strategy)}
    dts = ["float32", "float32", "float64"] + (["complex128"] if "complex128" in entry.dtypes else [])
    c["dtype"] = draw(st.sampled_from(dts))
    c["lays"] = draw(st.lists(st.sampled_from(["C", "C", "T", "strided"]), min_size=1, max_size=2))
    if entry.backends:
        c["backend"] = draw(st.sampled_from(["core", "einsum"]))
    if entry.gseed:
        c["gseed"] = draw(gen.seeds)
    if c["e"].get("bad") is True and "cvg" in entry.flags:
        c["e"]["bad"] = False        # C18 needs a result: no exit-by-exception cases
    return c


@contextlib.contextmanager
def _env(case):
    with contextlib.ExitStack() as es:
        if case.get("backend"):
            es.enter_context(tenalg_backend(case["backend"]))
        if "gseed" in case:
            state = np.random.get_state()
            np.random.seed(int(case["gseed"]) % (2 ** 32))
            es.callback(np.random.set_state, state)
        yield


# ----------------------------------------------------------------------------
# snapshots
# ----------------------------------------------------------------------------
def _ident(obj, depth=0):
    """identity structure of containers: which object sits in which slot"""
    if isinstance(obj, np.ndarray):
        return id(obj)
    if depth > 8 or obj is None or isinstance(obj, (bool, int, float, complex, str, bytes, np.generic, np.random.RandomState)):
        return None
    if isinstance(obj, (list, tuple)):
        return (id(obj) if isinstance(obj, list) else 0, tuple(_ident(o, depth + 1) for o in obj))
    if isinstance(obj, dict):
        return (id(obj), tuple((repr(k), _ident(v, depth + 1)) for k, v in sorted(obj.items(), key=lambda kv: repr(kv[0]))))
    d = getattr(obj, "__dict__", None)
    if d is not None and not callable(obj):
        return ("obj", tuple((k, _ident(v, depth + 1)) for k, v in sorted(d.items())))
    return None


def _snapshot(call):
    out = {}
    for k, v in call.kwargs.items():
        if k in call.exempt or isinstance(v, np.random.RandomState):
            continue
        if k == "ctor" and isinstance(v, dict):      # estimator constructor arguments: one slot per parameter
            for k2, v2 in v.items():
                if not isinstance(v2, np.random.RandomState):
                    out[f"ctor.{k2}"] = (snap.freeze(v2), _ident(v2))
            out["ctor"] = (snap.freeze(sorted(v)), None)
            continue
        out[k] = (snap.freeze(v), _ident(v))
    return out


def _arrays(obj, depth=0, seen=None):
    """every ndarray reachable from an argument (containers, wrapper objects)"""
    if seen is None:
        seen = set()
    if depth > 8 or id(obj) in seen:
        return
    if isinstance(obj, np.ndarray):
        yield obj
        return
    if obj is None or isinstance(obj, (bool, int, float, complex, str, bytes, np.generic, np.random.RandomState)):
        return
    seen.add(id(obj))
    if isinstance(obj, (list, tuple)):
        for o in obj:
            yield from _arrays(o, depth + 1, seen)
    elif isinstance(obj, dict):
        for o in obj.values():
            yield from _arrays(o, depth + 1, seen)
    else:
        d = getattr(obj, "__dict__", None)
        if d is not None and not callable(obj):
            for o in d.values():
                yield from _arrays(o, depth + 1, seen)


def _repo_frames(tb):
    out = []
    for fs in traceback.extract_tb(tb):
        fn = os.path.abspath(fs.filename)
        out.append((fn.startswith(REPO_DIR + os.sep), os.path.relpath(fn, REPO_DIR) if fn.startswith(REPO_DIR + os.sep) else fn, fs.name, fs.lineno, fs.line))
    return out


def _innermost_repo(tb):
    fr = [f for f in _repo_frames(tb) if f[0]]
    return fr[-1] if fr else None


def _handle_exc(exc, call, what):
    """an exception left the library call (after the property's own clauses were checked)"""
    if isinstance(exc, Fail):
        raise exc
    if isinstance(exc, np.linalg.LinAlgError):
        discard("lib:LinAlgError")
    fr = _innermost_repo(exc.__traceback__)
    if fr is None:
        raise exc          # not from the library: harness problem
    if call.expect_exc:
        return f"exit=exception:{type(exc).__name__}"
    discard(f"lib-raised:{type(exc).__name__}@{fr[2]}")


CONSTRAINT_KEYS = {"non_negative", "l1_reg", "l2_reg", "l2_square_reg", "unimodality", "normalize", "simplex",
                   "normalized_sparsity", "soft_sparsity", "smoothness", "monotonicity", "hard_sparsity"}
_RO_MSG = ("assignment destination is read-only", "output array is read-only")


# ----------------------------------------------------------------------------
# C15 oracle
# ----------------------------------------------------------------------------
def c15_oracle(entry, case):
    labels = [f"dtype={case['dtype']}"] + [f"lay={l}" for l in sorted(set(case["lays"]))]
    if case.get("backend"):
        labels.append(f"backend={case['backend']}")
    with _env(case):
        call = entry.build(case["e"], Ctx(case["dtype"], case["lays"]))
        before = _snapshot(call)
        exc = None
        try:
            call.run()
        except Exception as e:  # noqa
            exc = e
        how = "returned" if exc is None else f"raised {type(exc).__name__}"
        after = _snapshot(call)
        for k in before:
            fb, ib = before[k]
            fa, ia = after[k]
            if fb != fa:
                d = snap.diff(fb, fa, k) or f"{k}: changed"
                if "length" in d or "size" in d:
                    kind = "length"
                elif ib != ia:
                    kind = "rebind"
                elif "array content" in d:
                    kind = "write"
                else:
                    kind = "other"
                base = k.split(".")[-1]
                ck = k[: len(k) - len(base)] + "<constraint-kw>" if base in CONSTRAINT_KEYS else k   # one bucket for the 12 keywords
                raise Fail(f"modified:{ck}:{kind}", f"{entry.name} {how}; {d}")
        lab = None
        if exc is not None:
            lab = _handle_exc(exc, call, "first")
        labels.append(lab or "exit=return")
    # ---- second detector: same call on read-only arrays ------------------------------
    with _env(case):
        call2 = entry.build(case["e"], Ctx(case["dtype"], case["lays"]))
        n_ro = 0
        for k, v in call2.kwargs.items():
            if k in call2.exempt:
                continue
            for a in _arrays(v):
                if a.flags.writeable:
                    a.flags.writeable = False
                    n_ro += 1
        try:
            call2.run()
        except ValueError as e:
            msg = str(e)
            if any(m in msg for m in _RO_MSG):
                frames = _repo_frames(e.__traceback__)
                fr = _innermost_repo(e.__traceback__)
                # the write must be issued by library code: innermost frame in /repo, or a NumPy
                # python wrapper called with out= directly from a /repo frame
                if fr is not None and (frames[-1][0] or "output array" in msg):
                    raise Fail(f"readonly-write@{fr[1]}:{fr[2]}",
                               f"{entry.name}: write into a caller-owned array at {fr[1]}:{fr[3]} `{fr[4]}` ({msg})")
        except Exception:  # noqa  (already accounted for in the first run)
            pass
    nontrivial = any(isinstance(v, (list, dict)) or hasattr(v, "__dict__") or (isinstance(v, tuple) and any(isinstance(o, (list, np.ndarray)) for o in v))
                     for k, v in call.kwargs.items() if k not in call.exempt) or n_ro >= 1
    return {"nontrivial": bool(nontrivial), "labels": labels + _case_labels(case["e"])}


def _case_labels(e):
    out = []
    for k in ("init", "kind", "argkind", "mask", "constraint", "form", "method", "bad"):
        if k in e and isinstance(e[k], (str, bool, int)) or (k in e and e[k] is None):
            out.append(f"{k}={e[k]}")
        elif k == "mask" and isinstance(e.get(k), dict):
            out.append(f"mask={e[k].get('kind', 'float')}")
    if e.get("fixed_modes"):
        out.append("fixed_modes=given")
    return out


# ----------------------------------------------------------------------------
# C18 oracle
# ----------------------------------------------------------------------------
def _norm_path(p):
    # keep the first-level index (U/S/V, weights/factors ...), anonymise deeper ones
    m = re.match(r"^(result(?:\[\d+\]|\.\w+)?)(.*)$", p)
    head, tail = (m.group(1), m.group(2)) if m else (p, "")
    return head + re.sub(r"\[\d+\]", "[i]", tail)


def c18_oracle(entry, case):
    dtype = np.dtype(case["dtype"])
    labels = [f"dtype={case['dtype']}"]
    if case.get("backend"):
        labels.append(f"backend={case['backend']}")
    with _env(case):
        ctx = Ctx(case["dtype"], case["lays"])
        call = entry.build(case["e"], ctx)
        try:
            res = call.run()
        except Exception as e:  # noqa
            _handle_exc(e, call, "c18")
            discard("expected-exception")
    if case["e"].get("return_errors") is True and isinstance(res, tuple) and len(res) == 2 and isinstance(res[1], list):
        res = res[0]                 # (decomposition, errors): same paths as without return_errors
    suffix = ""
    m = case["e"].get("mask")
    if isinstance(m, dict) and m.get("kind") == "bool":
        suffix = "@boolmask"
    n = 0
    for path, a in snap.walk_arrays(res):
        if a.ndim == 0 or a.dtype.kind in "iub":
            continue            # 0-d values / integer, boolean index-count outputs
        np_ = _norm_path(path)
        if entry.c18_exempt is not None and entry.c18_exempt(np_):
            continue
        n += 1
        ok = a.dtype == dtype
        if not ok and dtype.kind == "c" and entry.real_ok is not None and entry.real_ok(np_):
            ok = a.dtype == ctx.rdtype
        check(ok, "dtype@boolmask" if suffix else f"dtype:{np_}",
              lambda: f"{entry.name}: {path} has dtype {a.dtype}, input dtype {dtype}" + (" (boolean mask)" if suffix else ""))
    labels.append("arrays=yes" if n else "arrays=none")
    return {"nontrivial": bool(n) and dtype != np.dtype("float64"), "labels": labels + _case_labels(case["e"])}


# ----------------------------------------------------------------------------
# small strategy helpers shared by the x_reg_* modules
# ----------------------------------------------------------------------------
def enc(shape, kind="normal", **kw):
    """strategy: bulk encoded array of the given shape"""
    return st.builds(lambda s: dict({"s": list(shape), "seed": s, "k": kind}, **kw), gen.seeds)


def mask_spec(p_none=0.5):
    return st.one_of(st.none(), st.builds(lambda s, k: {"seed": s, "kind": k}, gen.seeds, st.sampled_from(["float", "bool"])))


def small_shape(min_order=2, max_order=3, min_side=2, max_side=4, max_size=48):
    return gen.shapes(min_order, max_order, min_side, max_side).filter(lambda s: gen.prod(s) <= max_size)


def container(kind, items):
    """argument kind for a pair/sequence: tuple / list"""
    return tuple(items) if kind == "tuple" else list(items)
