"""Registry entries: tensor algebra (both tenalg backends) and SVD front end."""
import numpy as np
from hypothesis import strategies as st

import tensorly as tl
from tensorly import tenalg as TA
from tensorly.tenalg import svd as SVD

from . import gen
from .x_registry import register, Call, CPLX, REAL, enc, mask_spec, small_shape, container

seeds = gen.seeds
ARGK = st.sampled_from(["list", "tuple"])


def _dispatch(name):
    # resolved at call time so that the selected tenalg backend is honoured
    def fn(**kw):
        return getattr(TA, name)(**kw)
    fn.__name__ = name
    return fn


# ---- mode_dot -------------------------------------------------------------------
@st.composite
def s_mode_dot(draw):
    shape = draw(small_shape(1, 4, 1, 4, 64))
    mode = draw(st.integers(0, len(shape) - 1))
    vec = draw(st.booleans())
    tr = draw(st.booleans()) and not vec
    j = draw(st.integers(1, 4))
    mshape = [shape[mode]] if vec else ([shape[mode], j] if tr else [j, shape[mode]])
    bad = draw(st.integers(0, 7)) == 0
    return {"X": draw(enc(shape)), "M": draw(enc(mshape)), "mode": mode, "transpose": tr, "kind": "vector" if vec else "matrix", "bad": bad}


def _grow(encd, axis):
    """same encoded array with one more entry along `axis` (used to build mismatched operands)"""
    d = dict(encd)
    d["s"] = [x + 1 if i == axis else x for i, x in enumerate(encd["s"])]
    return d


def b_mode_dot(e, ctx):
    M = e["M"]
    if e["bad"]:                         # mismatched contraction size: the call must exit by ValueError
        M = _grow(M, 0 if (e["kind"] == "vector" or e["transpose"]) else 1)
    return Call(_dispatch("mode_dot"), dict(tensor=ctx.A(e["X"]), matrix_or_vector=ctx.A(M), mode=e["mode"], transpose=e["transpose"]),
                expect_exc=e["bad"])


register("mode_dot", s_mode_dot(), b_mode_dot, dtypes=CPLX, backends=True, quick=150, flags=("cvg",))


# ---- multi_mode_dot -------------------------------------------------------------
@st.composite
def s_multi_mode_dot(draw):
    shape = draw(small_shape(2, 4, 1, 3, 64))
    nd = len(shape)
    form = draw(st.sampled_from(["all", "modes", "skip"]))
    tr = draw(st.booleans())
    c = {"X": draw(enc(shape)), "form": form, "transpose": tr, "argkind": draw(ARGK)}
    if form == "modes":
        modes = sorted(draw(st.lists(st.integers(0, nd - 1), min_size=1, max_size=nd, unique=True)))
        c["modes"] = modes
        idx = modes
    else:
        idx = list(range(nd))
        c["modes"] = None
    c["skip"] = draw(st.integers(0, len(idx) - 1)) if form == "skip" else None
    ops = []
    for m in idx:
        j = draw(st.integers(1, 3))
        vec = draw(st.booleans()) and not tr and form == "all" and False
        ops.append(draw(enc([shape[m]] if vec else ([shape[m], j] if tr else [j, shape[m]]))))
    c["ops"] = ops
    return c


def b_multi_mode_dot(e, ctx):
    ops = container(e["argkind"], [ctx.A(o) for o in e["ops"]])
    kw = dict(tensor=ctx.A(e["X"]), matrix_or_vec_list=ops, transpose=e["transpose"])
    if e["modes"] is not None:
        kw["modes"] = list(e["modes"])
    if e["skip"] is not None:
        kw["skip"] = e["skip"]
    return Call(_dispatch("multi_mode_dot"), kw)


register("multi_mode_dot", s_multi_mode_dot(), b_multi_mode_dot, dtypes=CPLX, backends=True, quick=150)


# ---- kronecker / khatri_rao -------------------------------------------------------
@st.composite
def s_kronecker(draw):
    n = draw(st.integers(1, 3))
    mats = [draw(enc([draw(st.integers(1, 3)), draw(st.integers(1, 3))])) for _ in range(n)]
    return {"mats": mats, "skip": draw(st.one_of(st.none(), st.integers(0, n - 1))) if n > 1 else None,
            "reverse": draw(st.booleans()), "argkind": draw(ARGK)}


def b_kronecker(e, ctx):
    return Call(_dispatch("kronecker"), dict(matrices=container(e["argkind"], [ctx.A(m) for m in e["mats"]]),
                                             skip_matrix=e["skip"], reverse=e["reverse"]))


register("kronecker", s_kronecker(), b_kronecker, dtypes=CPLX, backends=True, quick=150)


@st.composite
def s_khatri_rao(draw):
    n = draw(st.integers(1, 4))
    r = draw(st.integers(1, 3))
    rows = [draw(st.integers(1, 3)) for _ in range(n)]
    skip = draw(st.one_of(st.none(), st.integers(0, n - 1))) if n > 1 else None
    rem = [x for i, x in enumerate(rows) if i != skip]
    c = {"mats": [draw(enc([x, r])) for x in rows], "skip": skip, "argkind": "list",   # documented: "2D-array list"
         "weights": draw(st.one_of(st.none(), enc([r]))),
         "mask": draw(st.one_of(st.none(), st.builds(lambda s: {"seed": s, "kind": "float"}, seeds))),
         "mshape": rem}
    return c


def b_khatri_rao(e, ctx):
    return Call(_dispatch("khatri_rao"), dict(matrices=container(e["argkind"], [ctx.A(m) for m in e["mats"]]),
                                              weights=ctx.R(e["weights"]), skip_matrix=e["skip"],
                                              mask=ctx.mask(e["mask"], e["mshape"])))


register("khatri_rao", s_khatri_rao(), b_khatri_rao, dtypes=CPLX, backends=True, quick=200)


# ---- inner / outer / batched_outer / tensordot -----------------------------------
@st.composite
def s_inner(draw):
    a = draw(small_shape(1, 3, 1, 3, 27))
    k = draw(st.one_of(st.none(), st.integers(1, len(a))))
    bad = draw(st.integers(0, 5)) == 0
    if k is None:
        b = list(a)
        ash = list(a)
    else:
        pre = draw(st.lists(st.integers(1, 3), max_size=2))
        post = draw(st.lists(st.integers(1, 3), max_size=2))
        common = a[:k]
        ash = pre + common
        b = common + post
    return {"A": draw(enc(ash)), "B": draw(enc(b)), "n_modes": k, "bad": bad}


def b_inner(e, ctx):
    B = _grow(e["B"], 0) if e["bad"] else e["B"]       # mismatched shapes: must exit by ValueError
    return Call(_dispatch("inner"), dict(tensor1=ctx.A(e["A"]), tensor2=ctx.A(B), n_modes=e["n_modes"]), expect_exc=e["bad"])


register("inner", s_inner(), b_inner, dtypes=CPLX, backends=True, quick=150, flags=("cvg",))


@st.composite
def s_outer(draw):
    n = draw(st.integers(1, 3))
    return {"ts": [draw(enc(draw(small_shape(1, 2, 1, 3, 9)))) for _ in range(n)], "argkind": draw(ARGK)}


def b_outer(e, ctx):
    return Call(_dispatch("outer"), dict(tensors=container(e["argkind"], [ctx.A(t) for t in e["ts"]])))


register("outer", s_outer(), b_outer, dtypes=CPLX, backends=True, quick=150)


@st.composite
def s_batched_outer(draw):
    n = draw(st.integers(1, 3))
    b = draw(st.integers(1, 3))
    return {"ts": [draw(enc([b] + draw(small_shape(1, 2, 1, 3, 9)))) for _ in range(n)], "argkind": draw(ARGK)}


def b_batched_outer(e, ctx):
    return Call(_dispatch("batched_outer"), dict(tensors=container(e["argkind"], [ctx.A(t) for t in e["ts"]])))


register("batched_outer", s_batched_outer(), b_batched_outer, dtypes=CPLX, backends=True, quick=150)


@st.composite
def s_tensordot(draw):
    nc = draw(st.integers(0, 2))
    nb = draw(st.integers(0, 1))
    cdims = [draw(st.integers(1, 3)) for _ in range(nc)]
    bdims = [draw(st.integers(1, 3)) for _ in range(nb)]
    f1 = [draw(st.integers(1, 3)) for _ in range(draw(st.integers(0, 2)))]
    f2 = [draw(st.integers(1, 3)) for _ in range(draw(st.integers(0, 2)))]

    def place(free):
        tags = [("c", i) for i in range(nc)] + [("b", i) for i in range(nb)] + [("f", i) for i in range(len(free))]
        return list(draw(st.permutations(tags))), free
    t1, _ = place(f1)
    t2, _ = place(f2)
    sh1 = [cdims[i] if k == "c" else bdims[i] if k == "b" else f1[i] for k, i in t1]
    sh2 = [cdims[i] if k == "c" else bdims[i] if k == "b" else f2[i] for k, i in t2]
    if not sh1:
        sh1, t1 = [2], [("f", 0)]
    if not sh2:
        sh2, t2 = [2], [("f", 0)]
    m1 = [t1.index(("c", i)) for i in range(nc)]
    m2 = [t2.index(("c", i)) for i in range(nc)]
    b1 = [t1.index(("b", i)) for i in range(nb)]
    b2 = [t2.index(("b", i)) for i in range(nb)]
    return {"A": draw(enc(sh1)), "B": draw(enc(sh2)), "modes": [m1, m2], "batched": [b1, b2], "argkind": draw(ARGK)}


def b_tensordot(e, ctx):
    k = e["argkind"]
    modes = container(k, [list(e["modes"][0]), list(e["modes"][1])])
    batched = container(k, [list(e["batched"][0]), list(e["batched"][1])])
    return Call(_dispatch("tensordot"), dict(tensor1=ctx.A(e["A"]), tensor2=ctx.A(e["B"]), modes=modes, batched_modes=batched))


register("tenalg.tensordot", s_tensordot(), b_tensordot, dtypes=CPLX, backends=True, quick=150)


# ---- unfolding_dot_khatri_rao -----------------------------------------------------
@st.composite
def s_mttkrp(draw):
    shape = draw(small_shape(2, 4, 1, 3, 54))
    r = draw(st.integers(1, 3))
    return {"X": draw(enc(shape)), "factors": [draw(enc([s, r])) for s in shape], "weights": draw(st.one_of(st.none(), st.none(), enc([r]))),
            "mode": draw(st.integers(0, len(shape) - 1)), "argkind": draw(st.sampled_from(["tuple", "list", "cpt"]))}


def cp_arg(kind, w, facs):
    if kind == "cpt":
        return tl.cp_tensor.CPTensor((w, list(facs)))
    return container(kind, [w, list(facs)])


def b_mttkrp(e, ctx):
    return Call(_dispatch("unfolding_dot_khatri_rao"), dict(tensor=ctx.A(e["X"]), cp_tensor=cp_arg(e["argkind"], ctx.R(e["weights"]), [ctx.A(f) for f in e["factors"]]), mode=e["mode"]))


register("unfolding_dot_khatri_rao", s_mttkrp(), b_mttkrp, dtypes=CPLX, backends=True, quick=150)


# ---- higher_order_moment ---------------------------------------------------------
@st.composite
def s_hom(draw):
    return {"X": draw(enc([draw(st.integers(2, 4))] + draw(small_shape(1, 2, 1, 3, 6)))), "order": draw(st.integers(1, 3))}


def b_hom(e, ctx):
    return Call(_dispatch("higher_order_moment"), dict(tensor=ctx.A(e["X"]), order=e["order"]))


register("higher_order_moment", s_hom(), b_hom, dtypes=REAL, backends=True, quick=100)


# ---- svd_interface ---------------------------------------------------------------
@st.composite
def s_svd(draw, method):
    m, n = draw(st.integers(1, 5)), draw(st.integers(1, 5))
    k = draw(st.one_of(st.none(), st.integers(1, 6)))
    c = {"M": draw(enc([m, n], draw(st.sampled_from(["normal", "nonneg", "sparse"])))), "method": method, "k": k,
         "flip": draw(st.booleans()), "ubased": draw(st.booleans()),
         "nn": draw(st.sampled_from([None, None, True, "nndsvd", "nndsvda"])),
         "mask": draw(mask_spec()) if k is not None else None, "rs": draw(seeds) if method == "randomized_svd" else None}
    return c


def b_svd(e, ctx):
    M = ctx.A(e["M"])
    kw = dict(matrix=M, method=e["method"], n_eigenvecs=e["k"], flip_sign=e["flip"], u_based_flip_sign=e["ubased"],
              non_negative=e["nn"] if ctx.dtype.kind != "c" else None, mask=ctx.mask(e["mask"], M.shape), n_iter_mask_imputation=2)
    if e["rs"] is not None:
        kw["random_state"] = e["rs"]
    return Call(SVD.svd_interface, kw)


def _svd_real_ok(p):
    return p.startswith("result[1]")       # singular values are real


for _m in ("truncated_svd", "symeig_svd", "randomized_svd"):
    register(f"svd_interface.{_m}", s_svd(_m), b_svd, dtypes=CPLX if _m != "symeig_svd" else CPLX, real_ok=_svd_real_ok, quick=150)


@st.composite
def s_rrf(draw):
    m, n = draw(st.integers(1, 5)), draw(st.integers(1, 5))
    return {"A": draw(enc([m, n])), "n_dims": draw(st.integers(1, 4)), "n_iter": draw(st.integers(0, 2)), "rs": draw(seeds),
            "rskind": draw(st.sampled_from(["int", "RandomState"]))}


def b_rrf(e, ctx):
    rs = e["rs"] if e["rskind"] == "int" else np.random.RandomState(e["rs"])
    return Call(SVD.randomized_range_finder, dict(A=ctx.A(e["A"]), n_dims=e["n_dims"], n_iter=e["n_iter"], random_state=rs))


register("randomized_range_finder", s_rrf(), b_rrf, dtypes=CPLX, quick=100)


@st.composite
def s_svd_flip(draw):
    m, n, k = draw(st.integers(1, 4)), draw(st.integers(1, 4)), draw(st.integers(1, 4))
    return {"U": draw(enc([m, k])), "V": draw(enc([draw(st.integers(1, 4)), n])), "ubased": draw(st.booleans())}


def b_svd_flip(e, ctx):
    return Call(SVD.svd_flip, dict(U=ctx.A(e["U"]), V=ctx.A(e["V"]), u_based_decision=e["ubased"]))


register("svd_flip", s_svd_flip(), b_svd_flip, dtypes=REAL, quick=100)
