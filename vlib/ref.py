"""Reference implementations that share no code with tensorly.
Written with np.ndindex loops or np.einsum *sublist* calls."""
import itertools
import numpy as np


def prod(xs):
    p = 1
    for x in xs:
        p *= int(x)
    return p


# ---------------------------------------------------------------- index maps
def unfold(x, mode):
    x = np.asarray(x)
    rest = [d for i, d in enumerate(x.shape) if i != mode]
    out = np.empty((x.shape[mode], prod(rest)), dtype=x.dtype)
    for idx in np.ndindex(*x.shape):
        j = 0
        for i, d in enumerate(x.shape):
            if i != mode:
                j = j * d + idx[i]
        out[idx[mode], j] = x[idx]
    return out


def unfold_fast(x, mode):
    """same map via transpose (used where the loop would be too slow; cross-checked
    against unfold() in C01)"""
    x = np.asarray(x)
    perm = [mode] + [i for i in range(x.ndim) if i != mode]
    return np.transpose(x, perm).reshape(x.shape[mode], -1)


def matricize(x, row_modes, col_modes):
    x = np.asarray(x)
    rs = [x.shape[m] for m in row_modes]
    cs = [x.shape[m] for m in col_modes]
    out = np.empty((prod(rs), prod(cs)), dtype=x.dtype)
    for idx in np.ndindex(*x.shape):
        r = 0
        for m in row_modes:
            r = r * x.shape[m] + idx[m]
        c = 0
        for m in col_modes:
            c = c * x.shape[m] + idx[m]
        out[r, c] = x[idx]
    return out


def partial_unfold(x, mode, skip_begin, skip_end, ravel):
    """mode is counted after the skip_begin leading modes"""
    x = np.asarray(x)
    nd = x.ndim
    lead = x.shape[:skip_begin]
    trail = x.shape[nd - skip_end:] if skip_end else ()
    mid = x.shape[skip_begin:nd - skip_end]
    rows = mid[mode]
    cols = prod(mid) // rows
    out = np.empty(tuple(lead) + (rows, cols) + tuple(trail), dtype=x.dtype)
    for li in np.ndindex(*lead):
        for ti in np.ndindex(*trail):
            sub = x[li + (slice(None),) * len(mid) + ti]
            out[li + (slice(None), slice(None)) + ti] = unfold(sub, mode)
    if ravel:
        out = out.reshape(tuple(lead) + (rows * cols,) + tuple(trail))
    return out


# ---------------------------------------------------------------- products
def mode_dot_matrix(x, m, mode):
    """(x x_mode m)  with m of shape (J, I_mode)"""
    x = np.asarray(x)
    nd = x.ndim
    xs = list(range(nd))
    out = list(range(nd))
    out[mode] = nd
    return np.einsum(x, xs, np.asarray(m), [nd, mode], out)


def mode_dot_vector(x, v, mode):
    x = np.asarray(x)
    nd = x.ndim
    xs = list(range(nd))
    out = [i for i in range(nd) if i != mode]
    return np.einsum(x, xs, np.asarray(v), [mode], out)


def multi_mode_dot(x, ops, modes):
    """ops[i] acts on ORIGINAL mode modes[i]; vectors remove the mode (applied at the end)"""
    x = np.asarray(x)
    nd = x.ndim
    removed = []
    for op, m in zip(ops, modes):
        op = np.asarray(op)
        if op.ndim == 2:
            x = mode_dot_matrix(x, op, m)
        else:
            # contract but keep as size-1 to preserve numbering
            x = np.expand_dims(mode_dot_vector(x, op, m), m)
            removed.append(m)
    if removed:
        x = x.reshape([d for i, d in enumerate(x.shape) if i not in removed])
    return x


def kron(mats):
    out = np.asarray(mats[0])
    for m in mats[1:]:
        m = np.asarray(m)
        a, b = out.shape
        c, d = m.shape
        new = np.empty((a * c, b * d), dtype=np.result_type(out, m))
        for i in range(a):
            for j in range(b):
                new[i * c:(i + 1) * c, j * d:(j + 1) * d] = out[i, j] * m
        out = new
    return out


def khatri_rao(mats, weights=None, mask=None):
    mats = [np.asarray(m) for m in mats]
    r = mats[0].shape[1]
    rows = prod(m.shape[0] for m in mats)
    out = np.empty((rows, r), dtype=np.result_type(*mats))
    for c in range(r):
        col = mats[0][:, c]
        for m in mats[1:]:
            col = np.outer(col, m[:, c]).ravel()
        out[:, c] = col
    if weights is not None:
        out = out * np.asarray(weights).reshape(1, r)
    if mask is not None:
        out = out * np.asarray(mask).reshape(-1, 1)
    return out


def outer(tensors):
    out = np.asarray(tensors[0])
    for t in tensors[1:]:
        t = np.asarray(t)
        out = np.multiply.outer(out, t)
    return out


# ---------------------------------------------------------------- factorised tensors
def cp_dense(weights, factors):
    factors = [np.asarray(f) for f in factors]
    r = factors[0].shape[1]
    w = np.ones(r) if weights is None else np.asarray(weights)
    nd = len(factors)
    args = [w, [nd]]
    for i, f in enumerate(factors):
        args += [f, [i, nd]]
    args.append(list(range(nd)))
    return np.einsum(*args)


def tucker_dense(core, factors, modes=None):
    core = np.asarray(core)
    nd = core.ndim
    modes = list(range(nd)) if modes is None else list(modes)
    args = [core, list(range(nd))]
    out = list(range(nd))
    for f, m in zip(factors, modes):
        args += [np.asarray(f), [nd + m, m]]
        out[m] = nd + m
    args.append(out)
    return np.einsum(*args)


def tt_dense(cores):
    cores = [np.asarray(c) for c in cores]
    res = cores[0]  # (r0, n0, r1)
    for c in cores[1:]:
        res = np.tensordot(res, c, axes=([res.ndim - 1], [0]))
    # res: (r0, n0, ..., nk, r_end) with r0 = r_end = 1
    return res.reshape(res.shape[1:-1])


def tr_dense(cores):
    cores = [np.asarray(c) for c in cores]
    res = cores[0]
    for c in cores[1:]:
        res = np.tensordot(res, c, axes=([res.ndim - 1], [0]))
    # trace over first and last
    return np.trace(res, axis1=0, axis2=res.ndim - 1)


def ttm_dense(cores):
    """cores (r_i, in_i, out_i, r_{i+1}) -> tensor of shape (in_0..in_k, out_0..out_k)"""
    cores = [np.asarray(c) for c in cores]
    k = len(cores)
    res = cores[0]
    for c in cores[1:]:
        res = np.tensordot(res, c, axes=([res.ndim - 1], [0]))
    res = res.reshape(res.shape[1:-1])  # (in0,out0,in1,out1,...)
    perm = [2 * i for i in range(k)] + [2 * i + 1 for i in range(k)]
    return np.transpose(res, perm)


def parafac2_slices(weights, A, B, C, projections):
    """slice_i = P_i B diag(w * A[i]) C^T"""
    A, B, C = np.asarray(A), np.asarray(B), np.asarray(C)
    r = A.shape[1]
    w = np.ones(r) if weights is None else np.asarray(weights)
    out = []
    for i, P in enumerate(projections):
        out.append((np.asarray(P) @ B) @ np.diag(w * A[i]) @ C.T)
    return out


# ---------------------------------------------------------------- convex references
def pava_increasing(y):
    """least-squares isotonic (non-decreasing) regression, pool adjacent violators"""
    y = [float(v) for v in y]
    blocks = []  # (sum, count)
    for v in y:
        blocks.append([v, 1])
        while len(blocks) > 1 and blocks[-2][0] / blocks[-2][1] > blocks[-1][0] / blocks[-1][1]:
            s, c = blocks.pop()
            blocks[-1][0] += s
            blocks[-1][1] += c
    out = []
    for s, c in blocks:
        out += [s / c] * c
    return np.array(out)


def pava_decreasing(y):
    return -pava_increasing([-v for v in y])


def simplex_proj(v, radius):
    """Euclidean projection on {x>=0, sum x = radius} by bisection on the threshold"""
    v = np.asarray(v, dtype=float)
    lo = v.min() - radius / len(v) - 1.0
    hi = v.max()
    for _ in range(200):
        mid = 0.5 * (lo + hi)
        if np.maximum(v - mid, 0).sum() > radius:
            lo = mid
        else:
            hi = mid
    # refine exactly on the identified support
    sup = v - hi > 0
    if not sup.any():
        sup = v >= v.max()
    tau = (v[sup].sum() - radius) / sup.sum()
    return np.maximum(v - tau, 0)


def l1ball_proj(v, radius):
    v = np.asarray(v, dtype=float)
    if np.abs(v).sum() <= radius:
        return v.copy()
    return np.sign(v) * simplex_proj(np.abs(v), radius)


def rel_err(a, b):
    a = np.asarray(a)
    b = np.asarray(b)
    return float(np.max(np.abs(a - b))) if a.size else 0.0
