"""Shared infrastructure of C06 (reported errors) and C07 (monotone objective).

One *adapter* per (algorithm, option group): it decodes the data of a case, runs the
library once (`run`), snapshots a decomposition by deep copy (`copy`), rebuilds the dense
model of a snapshot with vlib.ref only (`mvec`), and - for C07 - recomputes the
conditioning of the normal equations the algorithm solves (`cond`).

Iterates are captured either by a callback recorder (deep copies; the algorithms reuse
the objects they hand out) or by *prefix runs* (n_iter_max = 1..K with the same seed).
Nothing in here calls tensorly to compute an expected value.
"""
import contextlib

import numpy as np
from hypothesis import strategies as st

from . import gen, ref
from .engine import check, fail, discard, Fail

SQ_TOL = 1e-9          # squared-domain tolerance of C06
MONO_REL = 1e-9        # C07 slack, relative to f_k
MONO_ABS = 1e-12       # C07 slack, relative to ||X||^2
COND_MAX = 1e8         # C07 precondition "well conditioned"


def prod(xs):
    p = 1
    for x in xs:
        p *= int(x)
    return p


@contextlib.contextmanager
def global_seed(seed):
    """some entry points (constrained_parafac 'random', CMTF) draw from the global NumPy
    RNG: seed it from the case and restore it afterwards, so that prefix runs see the
    same initialisation"""
    old = np.random.get_state()
    np.random.seed(int(seed) % (2 ** 32))
    try:
        yield
    finally:
        np.random.set_state(old)


# ----------------------------------------------------------------------------
# data tensors
# ----------------------------------------------------------------------------
KINDS_ALL = ("normal", "nonneg", "int", "lowrank", "lowrank_noise", "lowrank_nonneg", "tucker", "tr")
KINDS_NOISY = ("normal", "nonneg", "int", "lowrank_noise")
MAX_SIDE = {2: 5, 3: 5, 4: 4, 5: 3}


SCALES = (1e-4, 1e-2, 1.0, 1.0, 1e2)     # data scale class: ||X|| both well below and well above 1


@st.composite
def tensor_enc(draw, orders=(2, 3, 4), kinds=KINDS_ALL, min_side=2, max_side=None, rmax=3, scales=None):
    order = draw(st.sampled_from(list(orders)))
    hi = max_side or MAX_SIDE[order]
    shape = draw(st.lists(st.integers(min_side, hi), min_size=order, max_size=order))
    kind = draw(st.sampled_from(list(kinds)))
    enc = {"s": shape, "k": kind}
    if kind == "int" and prod(shape) <= 36:
        enc["d"] = draw(st.lists(st.integers(-4, 4), min_size=prod(shape), max_size=prod(shape)))
    else:
        enc["seed"] = draw(gen.seeds)
    if kind in ("lowrank", "lowrank_noise", "lowrank_nonneg", "tucker", "tr"):
        enc["r"] = draw(st.integers(1, rmax))
    if scales:
        sc = draw(st.sampled_from(list(scales)))
        if sc != 1.0:
            enc["scale"] = sc
    return enc


def dec_tensor(enc):
    shape = tuple(int(s) for s in enc["s"])
    k = enc["k"]
    if "d" in enc:
        a = np.array(enc["d"], dtype=float).reshape(shape)
    else:
        rs = np.random.RandomState(int(enc["seed"]) % (2 ** 32))
        r = int(enc.get("r", 1))
        if k == "normal":
            a = rs.standard_normal(shape)
        elif k == "nonneg":
            a = np.abs(rs.standard_normal(shape))
        elif k == "int":
            a = rs.randint(-4, 5, shape).astype(float)
        elif k in ("lowrank", "lowrank_noise", "lowrank_nonneg"):
            facs = [rs.standard_normal((s, r)) for s in shape]
            if k == "lowrank_nonneg":
                facs = [np.abs(f) for f in facs]
            a = ref.cp_dense(None, facs)
            if k == "lowrank_noise":
                a = a + 0.05 * rs.standard_normal(shape)
        elif k == "tucker":
            rk = [min(r, s) for s in shape]
            a = ref.tucker_dense(rs.standard_normal(rk), [rs.standard_normal((s, q)) for s, q in zip(shape, rk)])
        elif k == "tr":
            a = ref.tr_dense([rs.standard_normal((r, s, r)) for s in shape])
        else:
            raise ValueError(k)
    a = np.ascontiguousarray(a, dtype=float) * float(enc.get("scale", 1.0))
    if not np.any(a):
        discard("zero tensor")
    return a


# PARAFAC2 data: list of (J_i x K) slices ------------------------------------
@st.composite
def slices_enc(draw, kinds=("normal", "nonneg", "pf2_noise", "int"), rmax=3, min_rows=None, scales=None):
    n = draw(st.integers(2, 4))
    K = draw(st.integers(2, 5))
    lo = min_rows or 2
    equal = draw(st.booleans())
    if equal:
        J = [draw(st.integers(lo, 5))] * n
    else:
        J = [draw(st.integers(lo, 5)) for _ in range(n)]
    enc = {"J": J, "K": K, "k": draw(st.sampled_from(list(kinds))), "seed": draw(gen.seeds),
           "nd": bool(equal and draw(st.booleans()))}
    if enc["k"].startswith("pf2"):
        enc["r"] = draw(st.integers(1, min(rmax, min(J), K)))
    if scales:
        sc = draw(st.sampled_from(list(scales)))
        if sc != 1.0:
            enc["scale"] = sc
    return enc


def dec_slices(enc):
    rs = np.random.RandomState(int(enc["seed"]) % (2 ** 32))
    J, K, k = [int(j) for j in enc["J"]], int(enc["K"]), enc["k"]
    if k == "normal":
        sl = [rs.standard_normal((j, K)) for j in J]
    elif k == "nonneg":
        sl = [np.abs(rs.standard_normal((j, K))) for j in J]
    elif k == "int":
        sl = [rs.randint(-4, 5, (j, K)).astype(float) for j in J]
    elif k in ("pf2", "pf2_noise", "pf2_nonneg"):
        r = int(enc["r"])
        A = rs.uniform(0.3, 1.5, (len(J), r))
        B = rs.standard_normal((r, r))
        C = rs.standard_normal((K, r))
        if k == "pf2_nonneg":
            C = np.abs(C)
        P = [gen.orthonormal(rs.randint(0, 2 ** 31 - 1), j, r) for j in J]
        sl = ref.parafac2_slices(None, A, B, C, P)
        if k == "pf2_noise":
            sl = [s + 0.05 * rs.standard_normal(s.shape) for s in sl]
    else:
        raise ValueError(k)
    sl = [np.ascontiguousarray(s, dtype=float) * float(enc.get("scale", 1.0)) for s in sl]
    if not any(np.any(s) for s in sl):
        discard("zero tensor")
    return sl


# ----------------------------------------------------------------------------
# snapshots (deep copies) and dense models
# ----------------------------------------------------------------------------
def _arr(x):
    a = np.array(x, copy=True)
    if a.dtype == object:
        raise Fail("structure", "ragged / object array inside a decomposition")
    return a


def copy_cp(d):
    """CPTensor | (weights, factors) | (CPTensor, sparse_component) -> dict snapshot"""
    try:
        sparse = None
        if isinstance(d, tuple) and len(d) == 2 and hasattr(d[0], "factors"):
            d, sparse = d
            sparse = _arr(sparse)
        w, f = d
        return {"w": None if w is None else _arr(w), "f": [_arr(x) for x in f], "s": sparse}
    except Fail:
        raise
    except Exception as e:  # noqa
        raise Fail("structure", f"cannot read a CP decomposition from {type(d).__name__}: {type(e).__name__}: {e}")


def copy_tucker(d):
    try:
        core, f = d
        return {"core": _arr(core), "f": [_arr(x) for x in f]}
    except Fail:
        raise
    except Exception as e:  # noqa
        raise Fail("structure", f"cannot read a Tucker decomposition from {type(d).__name__}: {type(e).__name__}: {e}")


def copy_tr(d):
    try:
        return {"cores": [_arr(c) for c in d]}
    except Fail:
        raise
    except Exception as e:  # noqa
        raise Fail("structure", f"cannot read a TR decomposition from {type(d).__name__}: {type(e).__name__}: {e}")


def copy_parafac2(d):
    try:
        w, f, p = d
        return {"w": None if w is None else _arr(w), "f": [_arr(x) for x in f], "p": [_arr(x) for x in p]}
    except Fail:
        raise
    except Exception as e:  # noqa
        raise Fail("structure", f"cannot read a PARAFAC2 decomposition from {type(d).__name__}: {type(e).__name__}: {e}")


def _dense(fn, what, shape):
    try:
        m = np.asarray(fn(), dtype=float)
    except Fail:
        raise
    except Exception as e:  # noqa  (inconsistent factor shapes etc.: malformed library output)
        raise Fail("structure", f"{what}: factors do not contract: {type(e).__name__}: {e}")
    check(tuple(m.shape) == tuple(shape), "structure", lambda: f"{what}: model shape {m.shape} != data shape {tuple(shape)}")
    return m


def cp_model(s, shape):
    m = _dense(lambda: ref.cp_dense(s["w"], s["f"]), "cp", shape)
    if s.get("s") is not None:
        check(tuple(s["s"].shape) == tuple(shape), "structure", "sparse component has the wrong shape")
        m = m + s["s"]
    return m


def tucker_model(s, shape, modes=None):
    return _dense(lambda: ref.tucker_dense(s["core"], s["f"], modes), "tucker", shape)


def tr_model(s, shape):
    return _dense(lambda: ref.tr_dense(s["cores"]), "tr", shape)


def parafac2_model(s, slices):
    def build():
        A, B, C = s["f"]
        return ref.parafac2_slices(s["w"], A, B, C, s["p"])
    try:
        ms = build()
    except Exception as e:  # noqa
        raise Fail("structure", f"parafac2: factors do not contract: {type(e).__name__}: {e}")
    check(len(ms) == len(slices) and all(m.shape == x.shape for m, x in zip(ms, slices)), "structure",
          "parafac2: model slices do not have the data's shapes")
    return np.concatenate([np.asarray(m, dtype=float).ravel() for m in ms])


# ----------------------------------------------------------------------------
# comparing a reported error with the truth (C06)
# ----------------------------------------------------------------------------
def as_float(v, clause):
    try:
        a = np.asarray(v, dtype=float)
    except Exception:  # noqa
        raise Fail(clause + "/scalar", f"reported error is not a number: {type(v).__name__}")
    check(a.size == 1, clause + "/scalar", lambda: f"reported error has shape {a.shape}")
    return float(a.reshape(()))


def err_terms(xv, mv):
    """(||x-m||^2, ||m||^2, ||x||^2) of flattened data / model"""
    xv = np.asarray(xv, dtype=float).ravel()
    mv = np.asarray(mv, dtype=float).ravel()
    d = xv - mv
    return float(d @ d), float(mv @ mv), float(xv @ xv)


def cp_spread(w, factors):
    """(sum_r |w_r| prod_i ||f_i[:, r]||)^2 : the magnitude of the terms that the Gram-based
    shortcut ||X||^2 + ||M||^2 - 2<X, M> adds up.  It equals ||M||^2 up to a factor <= R^2 for
    a well-separated model and is much larger for degenerate (mutually cancelling) components."""
    r = factors[0].shape[1]
    c = np.ones(r) if w is None else np.abs(np.asarray(w, dtype=float))
    for f in factors:
        c = c * np.sqrt(np.sum(np.asarray(f, dtype=float) ** 2, axis=0))
    return float(np.sum(c)) ** 2


def rel_matches(reported, xv, mv, mag=None):
    """squared-domain agreement of a reported *relative* error with ||x-m||/||x||;
    returns (ok, message, true_relative_error).  mag (default ||m||^2) is the magnitude
    of the model that scales the tolerance."""
    t2, m2, x2 = err_terms(xv, mv)
    if mag is not None:
        m2 = max(m2, float(mag)) if np.isfinite(mag) else m2
    true_sq = t2 / x2
    if not np.isfinite(true_sq):
        return False, f"iterate is not finite (true error {true_sq})", float("nan")
    tol = SQ_TOL * (1.0 + m2 / x2)
    d = abs(reported * reported - true_sq)
    return (d <= tol,
            f"reported {float(reported)!r} (squared {reported * reported:.12e}) vs true {float(np.sqrt(true_sq))!r} "
            f"(squared {true_sq:.12e}): |diff| {d:.3e} > {tol:.3e}",
            float(np.sqrt(true_sq)))


def check_rel(reported, xv, mv, clause, mag=None):
    """reported relative error is a finite non-negative number equal to the true one"""
    r = as_float(reported, clause)
    if mag is not None and np.isfinite(mag):
        x2 = float(np.asarray(xv, dtype=float).ravel() @ np.asarray(xv, dtype=float).ravel())
        if SQ_TOL * mag >= x2:
            # components more than 3e4 times larger than the data: the tolerance 1e-9 (1 + mag/|X|^2) is >= 1, i.e. the
            # value comparison is vacuous, and the Gram-based ||model||^2 of such an iterate can cancel to a negative
            # number or overflow (seen: l2_reg / orthogonalise + normalize_factors on rank-deficient data: cp_norm -> NaN
            # with component norms 1e32 and 1e-48, reported inf with true error 1e52).  Counted discard.
            discard("degenerate iterate (|components| > 3e4 |X|): comparison vacuous")
    check(np.isfinite(r), clause + "/finite", lambda: f"reported error is {r}")
    check(r >= 0, clause + "/sign", lambda: f"reported error is negative: {r}")
    ok, msg, true = rel_matches(r, xv, mv, mag)
    check(ok, clause, msg)
    return true


def check_abs_sq(reported, true_sq, scale, clause):
    r = as_float(reported, clause)
    check(np.isfinite(r), clause + "/finite", lambda: f"reported error is {r}")
    d = abs(r - true_sq)
    check(d <= SQ_TOL * scale, clause,
          lambda: f"reported {r!r} vs true {true_sq!r}: |diff| {d:.3e} > {SQ_TOL * scale:.3e}")


def all_finite(errors, clause):
    check(isinstance(errors, (list, tuple)), clause + "/type", lambda: f"error history is a {type(errors).__name__}")
    out = []
    for i, e in enumerate(errors):
        r = as_float(e, clause)
        check(np.isfinite(r), clause + "/finite", lambda: f"errors[{i}] = {r} of {len(errors)}")
        out.append(r)
    return out


# ----------------------------------------------------------------------------
# monotonicity (C07)
# ----------------------------------------------------------------------------
def check_monotone(fs, x2, clause, first_index=0):
    """f_{k+1} <= f_k (1 + 1e-9) + 1e-12 ||X||^2 for consecutive sweeps"""
    for i, f in enumerate(fs):
        check(np.isfinite(f), clause + "/finite", lambda: f"objective after sweep {i + first_index} is {f}")
    for i in range(len(fs) - 1):
        a, b = fs[i], fs[i + 1]
        check(b <= a * (1 + MONO_REL) + MONO_ABS * x2, clause,
              lambda: f"objective rose from {a!r} (sweep {i + first_index}) to {b!r} (sweep {i + 1 + first_index}); "
                      f"rise {b - a:.3e}, ||X||^2 = {x2:.3e}; sequence {[float('%.6g' % v) for v in fs]}")


def mono_nontrivial(fs, n_sweeps):
    dec = any(fs[i] - fs[i + 1] > 1e-6 * max(fs[i], 1e-300) for i in range(len(fs) - 1))
    return bool(n_sweeps >= 3 and dec)


def cond2(h):
    h = np.asarray(h, dtype=float)
    if not np.all(np.isfinite(h)):
        return float("inf")
    try:
        c = float(np.linalg.cond(h))
    except np.linalg.LinAlgError:
        return float("inf")
    return c if np.isfinite(c) else float("inf")


def cp_gram_cond(w, factors, modes=None):
    """worst 2-norm condition number of the CP-ALS normal matrices
    (w w^T) * Hadamard_{i != mode} F_i^T F_i over the given modes"""
    r = factors[0].shape[1]
    ww = np.ones((r, r)) if w is None else np.outer(w, w)
    worst = 1.0
    for mode in (range(len(factors)) if modes is None else modes):
        h = ww.copy()
        for i, f in enumerate(factors):
            if i != mode:
                h = h * (f.T @ f)
        worst = max(worst, cond2(h))
    return worst


def tr_design_cond(cores):
    """worst condition number of the Gram of the TR-ALS design matrices (sub-chain
    unfoldings); singular values do not depend on the row / column order"""
    n = len(cores)
    worst = 1.0
    for d in range(n):
        chain = cores[(d + 1) % n]
        for j in range(2, n):
            chain = np.tensordot(chain, cores[(d + j) % n], axes=([chain.ndim - 1], [0]))
        # chain: (r_{d+1}, n_{d+1}, ..., n_{d-1}, r_d)
        r1, r0 = chain.shape[0], chain.shape[-1]
        mat = np.moveaxis(chain, 0, -1).reshape(-1, r0 * r1)
        if mat.shape[0] < mat.shape[1]:
            return float("inf")
        worst = max(worst, cond2(mat) ** 2)
    return worst


def require_conditioned(c, what="normal equations"):
    if not (c <= COND_MAX):
        discard(f"ill-conditioned {what} (cond > 1e8)")


# ----------------------------------------------------------------------------
# recorder
# ----------------------------------------------------------------------------
class Recorder:
    """harness callback, declared cb(decomposition, error=None); deep-copies what it gets"""

    def __init__(self, copier):
        self.copier = copier
        self.calls = []

    def __call__(self, decomposition, error=None):
        self.calls.append((self.copier(decomposition), error))
        return None


# ----------------------------------------------------------------------------
# initialisations
# ----------------------------------------------------------------------------
def init_spec(kinds=("svd", "random", "user"), weights=None):
    """weights: classes of CP weights of a *user* init ("none", "ones", "pos", "mixed"); default: unit weights only"""
    d = {"kind": st.sampled_from(list(kinds)), "seed": st.integers(0, 10 ** 6)}
    if weights:
        d["w"] = st.sampled_from(list(weights))
    return st.fixed_dictionaries(d)


def init_weights(spec, rs, rank):
    wk = spec.get("w", "none")
    if wk == "none":
        return None
    if wk == "ones":
        return np.ones(rank)
    w = rs.uniform(0.5, 2.5, rank)
    if wk == "mixed":
        w = w * rs.choice([-1.0, 1.0], rank)
    return w


def cp_init(spec, shape, rank, nonneg=False):
    if spec["kind"] in ("svd", "random"):
        return spec["kind"]
    rs = np.random.RandomState(spec["seed"])
    fs = [rs.standard_normal((int(s), rank)) for s in shape]        # columns are not unit-norm
    if nonneg:
        fs = [np.abs(f) + 0.01 for f in fs]
    return (init_weights(spec, rs, rank), fs)   # unit weights unless the spec asks for a weight class


def tucker_init(spec, shape, ranks, modes=None, nonneg=False):
    if spec["kind"] in ("svd", "random"):
        return spec["kind"]
    rs = np.random.RandomState(spec["seed"])
    modes = list(range(len(shape))) if modes is None else modes
    core_shape = list(shape)
    for m, r in zip(modes, ranks):
        core_shape[m] = r
    core = rs.standard_normal(core_shape)
    fs = [rs.standard_normal((int(shape[m]), r)) for m, r in zip(modes, ranks)]
    if nonneg:
        core, fs = np.abs(core) + 0.01, [np.abs(f) + 0.01 for f in fs]
    return (core, fs)


# ----------------------------------------------------------------------------
# adapters
# ----------------------------------------------------------------------------
class Adapter:
    """interface used by the oracles of C06 / C07"""
    has_callback = False
    first_call_is_init = True     # the callback is also invoked on the initial decomposition

    def data(self, case):
        return dec_tensor(case["X"])

    def xvec(self, data):
        return np.asarray(data, dtype=float).ravel()

    def cond(self, snap, case):
        return 1.0

    def errors_optional(self, case):
        """True when the entry point keeps no error history for this option set"""
        return False

    def init_snapshot(self, data, case):
        """snapshot of the initial decomposition when the harness knows it (user init), for algorithms
        without a callback; None otherwise"""
        return None

    # C06: compare one reported value with the truth; returns the true *relative* error
    def mag(self, snap):
        """squared magnitude of the terms that any evaluation of the model adds up (>= ||model||^2);
        scales the tolerances: a degenerate iterate (huge, mutually cancelling factors) cannot be
        evaluated - by the library or by the harness - more accurately than eps * mag"""
        return None

    def check_reported(self, reported, xv, mv, clause, snap=None):
        return check_rel(reported, xv, mv, clause, self.mag(snap) if snap is not None else None)

    def matches(self, reported, xv, mv, snap=None):
        r = float(np.asarray(reported, dtype=float).reshape(()))
        return rel_matches(r, xv, mv, self.mag(snap) if snap is not None else None)[0]

    # C07: objective of a snapshot (squared residual) and the squared form of a reported value
    def objective(self, snap, data, case, xv):
        return err_terms(xv, self.mvec(snap, data, case))[0]

    def reported_sq(self, r, x2):
        return r * r * x2


class CPAdapter(Adapter):
    copy = staticmethod(copy_cp)

    def mag(self, snap):
        return cp_spread(snap["w"], snap["f"])

    def mvec(self, snap, data, case=None):
        return cp_model(snap, data.shape).ravel()

    def cond(self, snap, case):
        return cp_gram_cond(snap["w"], snap["f"])


class Parafac(CPAdapter):
    has_callback = True

    def run(self, data, case, n_iter, callback=None, return_errors=True):
        from tensorly.decomposition import parafac
        kw = dict(n_iter_max=int(n_iter), init=cp_init(case["init"], data.shape, case["rank"]),
                  tol=case["tol"], random_state=case["init"]["seed"],
                  normalize_factors=bool(case.get("normalize", False)),
                  linesearch=bool(case.get("linesearch", False)), return_errors=return_errors)
        if case.get("sparsity") is not None:
            kw["sparsity"] = case["sparsity"]
        if case.get("cvg"):
            kw["cvg_criterion"] = case["cvg"]
        if case.get("fixed_modes"):
            kw["fixed_modes"] = [int(m) for m in case["fixed_modes"]]      # fresh list per call
        if case.get("l2_reg"):
            kw["l2_reg"] = float(case["l2_reg"])
        if case.get("orthogonalise"):
            kw["orthogonalise"] = case["orthogonalise"]                    # True or an iteration count
        if callback is not None:
            kw["callback"] = callback
        if case.get("api") == "class":
            # estimator interface: CP(...).fit_transform(X) returns the decomposition, the history is .errors_
            from tensorly.decomposition import CP
            kw.pop("return_errors")
            est = CP(case["rank"], **kw)
            with global_seed(case["init"]["seed"]):
                dec = est.fit_transform(data.copy())
            check(hasattr(est, "errors_"), "structure", "CP estimator has no errors_ after fit_transform")
            return dec, (est.errors_ if return_errors else None)
        with global_seed(case["init"]["seed"]):
            out = parafac(data.copy(), case["rank"], **kw)
        if return_errors:
            check(isinstance(out, tuple) and len(out) == 2, "structure", "return_errors=True did not return a pair")
            return out[0], out[1]
        return out, None

    def cond(self, snap, case):
        fixed = case.get("fixed_modes") or []
        return cp_gram_cond(snap["w"], snap["f"], modes=[m for m in range(len(snap["f"])) if m not in fixed])


class RandomisedParafac(CPAdapter):
    has_callback = True

    def errors_optional(self, case):
        return not case["tol"] and not case.get("max_stagnation", 20)

    def run(self, data, case, n_iter, callback=None, return_errors=True):
        from tensorly.decomposition import randomised_parafac
        kw = dict(n_samples=int(case["n_samples"]), n_iter_max=int(n_iter), init=case["init"]["kind"],
                  tol=case["tol"], max_stagnation=int(case.get("max_stagnation", 20)),
                  random_state=case["init"]["seed"], return_errors=return_errors)
        if callback is not None:
            kw["callback"] = callback
        with global_seed(case["init"]["seed"]):
            out = randomised_parafac(data.copy(), case["rank"], **kw)
        if return_errors:
            return out[0], out[1]
        return out, None


class NNParafacMU(CPAdapter):
    def run(self, data, case, n_iter, callback=None, return_errors=True):
        from tensorly.decomposition import non_negative_parafac
        with global_seed(case["init"]["seed"]):
            out = non_negative_parafac(data.copy(), case["rank"], n_iter_max=int(n_iter),
                                       init=cp_init(case["init"], data.shape, case["rank"], nonneg=True),
                                       tol=case["tol"], random_state=case["init"]["seed"],
                                       normalize_factors=bool(case.get("normalize", False)), return_errors=True,
                                       cvg_criterion=case.get("cvg", "abs_rec_error"),
                                       fixed_modes=[int(m) for m in case.get("fixed_modes") or []] or None)
        return out[0], out[1]


class NNParafacHALS(CPAdapter):
    def run(self, data, case, n_iter, callback=None, return_errors=True):
        from tensorly.decomposition import non_negative_parafac_hals
        sc = case.get("sparsity_coefficients")
        with global_seed(case["init"]["seed"]):
            out = non_negative_parafac_hals(data.copy(), case["rank"], n_iter_max=int(n_iter),
                                            init=cp_init(case["init"], data.shape, case["rank"], nonneg=True),
                                            tol=case["tol"], random_state=case["init"]["seed"],
                                            sparsity_coefficients=None if sc is None else list(sc),
                                            nn_modes=_nn_modes(case.get("nn_modes", "all")),
                                            normalize_factors=bool(case.get("normalize", False)),
                                            fixed_modes=[int(m) for m in case.get("fixed_modes") or []] or None,
                                            cvg_criterion=case.get("cvg", "abs_rec_error"),
                                            exact=False, return_errors=True)
        return out[0], out[1]

    def cond(self, snap, case):
        nn = case.get("nn_modes", "all")
        order = len(snap["f"])
        fixed = case.get("fixed_modes") or []
        free = [] if nn == "all" else [m for m in range(order) if (nn is None or m not in nn) and m not in fixed]
        return cp_gram_cond(snap["w"], snap["f"], modes=free) if free else 1.0


def _nn_modes(v):
    if v is None or v == "all":
        return v
    return list(v)


CONSTRAINTS = {
    "non_negative": {"non_negative": True},
    "l1": {"l1_reg": 0.05},
    "l2": {"l2_reg": 0.1},
    "l2sq": {"l2_square_reg": 0.1},
    "simplex": {"simplex": 1.0},
    "normalize": {"normalize": True},
    "smooth": {"smoothness": 0.1},
    "hard_sparse": {"hard_sparsity": 2},
    "norm_sparse": {"normalized_sparsity": 2},
    "soft_sparse": {"soft_sparsity": 1.0},
}


class ConstrainedParafac(CPAdapter):
    def run(self, data, case, n_iter, callback=None, return_errors=True):
        from tensorly.decomposition import constrained_parafac
        with global_seed(case["init"]["seed"]):
            out = constrained_parafac(data.copy(), case["rank"], n_iter_max=int(n_iter),
                                      n_iter_max_inner=int(case.get("n_inner", 5)),
                                      init=cp_init(case["init"], data.shape, case["rank"]),
                                      tol_outer=case["tol"], tol_inner=float(case.get("tol_inner", 1e-6)),
                                      random_state=case["init"]["seed"],
                                      cvg_criterion=case.get("cvg", "abs_rec_error"),
                                      fixed_modes=[int(m) for m in case.get("fixed_modes") or []] or None,
                                      return_errors=True, **CONSTRAINTS[case["constraint"]])
        return out[0], out[1]


class TuckerHOOI(Adapter):
    copy = staticmethod(copy_tucker)

    def ranks(self, case, shape):
        return [int(r) for r in case["ranks"]]

    def run(self, data, case, n_iter, callback=None, return_errors=True):
        from tensorly.decomposition import tucker
        rk = self.ranks(case, data.shape)
        with global_seed(case["init"]["seed"]):
            out = tucker(data.copy(), rk, n_iter_max=int(n_iter), init=tucker_init(case["init"], data.shape, rk),
                         tol=case["tol"], random_state=case["init"]["seed"], return_errors=True)
        return out[0], out[1]

    def mvec(self, snap, data, case=None):
        return tucker_model(snap, data.shape).ravel()

    def mag(self, snap):
        m = float(np.sum(snap["core"] ** 2))
        for f in snap["f"]:
            m *= float(np.linalg.norm(f, 2)) ** 2 if f.size and np.all(np.isfinite(f)) else 1.0
        return m


class PartialTucker(TuckerHOOI):
    def run(self, data, case, n_iter, callback=None, return_errors=True):
        from tensorly.decomposition import partial_tucker
        rk = self.ranks(case, data.shape)
        modes = [int(m) for m in case["modes"]]
        with global_seed(case["init"]["seed"]):
            out = partial_tucker(data.copy(), rk, modes=list(modes), n_iter_max=int(n_iter),
                                 init=tucker_init(case["init"], data.shape, rk, modes=modes),
                                 tol=case["tol"], random_state=case["init"]["seed"])
        check(isinstance(out, tuple) and len(out) == 2, "structure", "partial_tucker did not return (decomposition, errors)")
        return out[0], out[1]

    def mvec(self, snap, data, case=None):
        return tucker_model(snap, data.shape, modes=[int(m) for m in case["modes"]]).ravel()


class NNTuckerMU(TuckerHOOI):
    def run(self, data, case, n_iter, callback=None, return_errors=True):
        from tensorly.decomposition import non_negative_tucker
        rk = self.ranks(case, data.shape)
        with global_seed(case["init"]["seed"]):
            out = non_negative_tucker(data.copy(), rk, n_iter_max=int(n_iter),
                                      init=tucker_init(case["init"], data.shape, rk, nonneg=True),
                                      tol=case["tol"], random_state=case["init"]["seed"],
                                      normalize_factors=bool(case.get("normalize", False)), return_errors=True)
        return out[0], out[1]


class NNTuckerHALS(TuckerHOOI):
    def run(self, data, case, n_iter, callback=None, return_errors=True):
        from tensorly.decomposition import non_negative_tucker_hals
        rk = self.ranks(case, data.shape)
        sc = case.get("sparsity_coefficients")
        with global_seed(case["init"]["seed"]):
            out = non_negative_tucker_hals(data.copy(), rk, n_iter_max=int(n_iter),
                                           init=tucker_init(case["init"], data.shape, rk, nonneg=True),
                                           tol=case["tol"], random_state=case["init"]["seed"],
                                           sparsity_coefficients=None if sc is None else list(sc),
                                           core_sparsity_coefficient=case.get("core_sparsity"),
                                           normalize_factors=bool(case.get("normalize", False)),
                                           exact=False, algorithm=case["algorithm"], return_errors=True)
        return out[0], out[1]


class Parafac2(Adapter):
    copy = staticmethod(copy_parafac2)

    def mag(self, snap):
        return cp_spread(snap["w"], snap["f"])      # the P_i have orthonormal columns

    def data(self, case):
        return dec_slices(case["X"])

    def xvec(self, data):
        return np.concatenate([s.ravel() for s in data])

    def mvec(self, snap, data, case=None):
        return parafac2_model(snap, data)

    def run(self, data, case, n_iter, callback=None, return_errors=True):
        from tensorly.decomposition import parafac2
        sl = [s.copy() for s in data]
        if case["X"].get("nd"):
            sl = np.stack(sl)
        init = case["init"]["kind"]
        if init == "user":
            init = self.user_init(data, case)[0]
        with global_seed(case["init"]["seed"]):
            out = parafac2(sl, case["rank"], n_iter_max=int(n_iter), init=init,
                           normalize_factors=bool(case.get("normalize", False)), tol=case["tol"],
                           nn_modes=_nn_modes(case.get("nn_modes")), random_state=case["init"]["seed"],
                           return_errors=True, n_iter_parafac=int(case.get("n_iter_parafac", 5)),
                           linesearch=bool(case.get("linesearch", False)))
        return out[0], out[1]

    def user_init(self, data, case):
        """(init argument, snapshot of the decomposition it represents).  form "pf2": Parafac2Tensor triple
        (weights, [A, B, C], projections) with orthonormal projections; form "cp": CP pair (weights, [A, B, C])
        with B of shape (J, R) (equal row counts) which the library splits by QR.  Factors of the modes in
        nn_modes are generated non-negative (feasible start)."""
        spec = case["init"]
        rs = np.random.RandomState(spec["seed"])
        R, K, J = int(case["rank"]), data[0].shape[1], [s.shape[0] for s in data]
        nn = case.get("nn_modes")
        nn = [0, 1, 2] if nn == "all" else (nn or [])
        A = rs.uniform(0.3, 1.5, (len(data), R))
        C = rs.standard_normal((K, R))
        if 2 in nn:
            C = np.abs(C) + 0.01
        w = init_weights(spec, rs, R)
        if w is not None:
            w = np.abs(w)          # the weights multiply B; keep B's sign pattern (feasibility under nn_modes)
        if spec.get("form") == "cp" and len(set(J)) == 1 and J[0] >= R and 1 not in nn:
            B = rs.standard_normal((J[0], R))
            Q, Rm = np.linalg.qr(B)
            snap = {"w": None if w is None else w.copy(), "f": [A.copy(), Rm, C.copy()], "p": [Q.copy() for _ in J]}
            return (None if w is None else w.copy(), [A.copy(), B.copy(), C.copy()]), snap
        B = rs.standard_normal((R, R))
        if 1 in nn:
            B = np.abs(B) + 0.01
        P = [gen.orthonormal(rs.randint(0, 2 ** 31 - 1), j, R) for j in J]
        snap = {"w": None if w is None else w.copy(), "f": [A.copy(), B.copy(), C.copy()], "p": [p.copy() for p in P]}
        return (None if w is None else w.copy(), [A.copy(), B.copy(), C.copy()], [p.copy() for p in P]), snap

    def init_snapshot(self, data, case):
        return self.user_init(data, case)[1] if case["init"]["kind"] == "user" else None

    def cond(self, snap, case):
        nn = case.get("nn_modes")
        if nn is None:
            free = [0, 1, 2]
        elif nn == "all":
            free = []
        else:
            free = [m for m in range(3) if m not in nn]
        return cp_gram_cond(snap["w"], snap["f"], modes=free) if free else 1.0


class TensorRingALS(Adapter):
    has_callback = True
    copy = staticmethod(copy_tr)

    def mvec(self, snap, data, case=None):
        return tr_model(snap, data.shape).ravel()

    def mag(self, snap):
        return float(np.prod([np.sum(c ** 2) for c in snap["cores"]]))

    def run(self, data, case, n_iter, callback=None, return_errors=True):
        from tensorly.decomposition import tensor_ring_als
        kw = dict(ls_solve=case["ls_solve"], n_iter_max=int(n_iter), tol=case["tol"],
                  random_state=case["init"]["seed"])
        if callback is not None:
            kw["callback"] = callback
        with global_seed(case["init"]["seed"]):
            out = tensor_ring_als(data.copy(), [int(r) for r in case["ranks"]], **kw)
        return out, None

    def cond(self, snap, case):
        # normal_eq: cond of the Gram (= cond(design)^2) ; lstsq: cond of the design itself
        return tr_design_cond(snap["cores"]) if case["ls_solve"] == "normal_eq" else tr_lstsq_cond(snap["cores"])


class CMTF(Adapter):
    """data = (X, Y); snapshot = {"x": cp snapshot, "y": cp snapshot}; errors are reported in
    the squared, un-normalised form ||X - Xhat||^2 + ||Y - Yhat||^2"""

    def data(self, case):
        rs = np.random.RandomState(int(case["X"]["seed"]) % (2 ** 32))
        I, J, K, M = [int(v) for v in case["X"]["s"]]
        k = case["X"]["k"]
        if k == "normal":
            X, Y = rs.standard_normal((I, J, K)), rs.standard_normal((I, M))
        elif k == "nonneg":
            X, Y = np.abs(rs.standard_normal((I, J, K))), np.abs(rs.standard_normal((I, M)))
        elif k == "int":
            X, Y = rs.randint(-4, 5, (I, J, K)).astype(float), rs.randint(-4, 5, (I, M)).astype(float)
        else:   # coupled low rank (+ noise)
            r = int(case["X"]["r"])
            A, B, C, V = (rs.standard_normal((n, r)) for n in (I, J, K, M))
            X, Y = ref.cp_dense(None, [A, B, C]), A @ V.T
            if k == "coupled_noise":
                X, Y = X + 0.05 * rs.standard_normal(X.shape), Y + 0.05 * rs.standard_normal(Y.shape)
        if not (np.any(X) and np.any(Y)):
            discard("zero tensor")
        return X, Y

    def xvec(self, data):
        return np.concatenate([data[0].ravel(), data[1].ravel()])

    def mvec(self, snap, data, case=None):
        return np.concatenate([cp_model(snap["x"], data[0].shape).ravel(), cp_model(snap["y"], data[1].shape).ravel()])

    def copy(self, d):
        return {"x": copy_cp(d[0]), "y": copy_cp(d[1])}

    def mag(self, snap):
        return cp_spread(snap["x"]["w"], snap["x"]["f"]) + cp_spread(snap["y"]["w"], snap["y"]["f"])

    def cond(self, snap, case):
        return cmtf_lstsq_cond(snap)

    def check_reported(self, reported, xv, mv, clause, snap=None):
        t2, m2, x2 = err_terms(xv, mv)
        if snap is not None:
            m2 = max(m2, self.mag(snap))
        check_abs_sq(reported, t2, x2 + m2, clause)
        return float(np.sqrt(t2 / x2))

    def matches(self, reported, xv, mv, snap=None):
        t2, m2, x2 = err_terms(xv, mv)
        if snap is not None:
            m2 = max(m2, self.mag(snap))
        return abs(float(reported) - t2) <= SQ_TOL * (x2 + m2)

    def reported_sq(self, r, x2):
        return r

    def run(self, data, case, n_iter, callback=None, return_errors=True):
        from tensorly.decomposition._cmtf_als import coupled_matrix_tensor_3d_factorization
        with global_seed(case["init"]["seed"]):
            out = coupled_matrix_tensor_3d_factorization(data[0].copy(), data[1].copy(), case["rank"],
                                                         init=case["init"]["kind"], n_iter_max=int(n_iter),
                                                         tol=case["tol"],
                                                         normalize_factors=bool(case.get("normalize", False)))
        check(isinstance(out, tuple) and len(out) == 3, "structure", "CMTF did not return (tensor, matrix, errors)")
        return (out[0], out[1]), out[2]


@st.composite
def cmtf_enc(draw, kinds=("normal", "nonneg", "int", "coupled", "coupled_noise")):
    enc = {"s": [draw(st.integers(2, 5)) for _ in range(4)], "k": draw(st.sampled_from(list(kinds))),
           "seed": draw(gen.seeds)}
    if enc["k"].startswith("coupled"):
        enc["r"] = draw(st.integers(1, 3))
    return enc


# ----------------------------------------------------------------------------
# traces
# ----------------------------------------------------------------------------
def prefix_runs(A, data, case, K):
    """[(k, snapshot_k, errors_k)] for n_iter_max = 1..K (same seed, same options)"""
    out = []
    for k in range(1, int(K) + 1):
        dec, errs = A.run(data, case, k)
        out.append((k, A.copy(dec), errs))
    return out


def trace(A, data, case, via):
    """iterates of one run: [(sweep index, snapshot)] (index 0 = initial decomposition, only with
    callbacks), the reported error history (callback values or the error list of the longest run)
    and the number of sweeps actually executed"""
    if via == "callback":
        rec = Recorder(A.copy)
        dec, errs = A.run(data, case, case["n_iter"], callback=rec, return_errors=True)
        snaps = list(enumerate(s for (s, _) in rec.calls))
        if errs is None:
            errs = [e for (_, e) in rec.calls[1:] if e is not None]
        return snaps, errs, len(rec.calls) - 1
    runs = prefix_runs(A, data, case, case["n_iter"])
    snaps = [(k, s) for (k, s, _) in runs]
    s0 = A.init_snapshot(data, case)
    if s0 is not None:              # sweep 0 = the supplied initial decomposition
        snaps = [(0, s0)] + snaps
    errs = runs[-1][2]
    return snaps, errs, (len(errs) if errs is not None else len(runs))


def lstsq_cond(mat):
    """2-norm condition number of a design matrix handed to np.linalg.lstsq (inf when it is
    rank deficient or under-determined).  A numerically rank-deficient design is *not* a
    well-conditioned block problem: a noise singular value of relative size 1e-14 that happens
    to lie just above lstsq's rcond = eps * max(M, N) is inverted, the block comes back with
    entries of size 1e13 and the sweep is no longer a descent step (seen in CMTF, C07 seed 3)."""
    mat = np.asarray(mat, dtype=float)
    if not np.all(np.isfinite(mat)) or mat.shape[0] < mat.shape[1]:
        return float("inf")
    sv = np.linalg.svd(mat, compute_uv=False)
    if sv.size == 0:
        return 1.0
    return float(sv[0] / sv[-1]) if sv[-1] > 0 else float("inf")


def tr_lstsq_cond(cores):
    n = len(cores)
    worst = 1.0
    for d in range(n):
        chain = cores[(d + 1) % n]
        for j in range(2, n):
            chain = np.tensordot(chain, cores[(d + j) % n], axes=([chain.ndim - 1], [0]))
        r1, r0 = chain.shape[0], chain.shape[-1]
        worst = max(worst, lstsq_cond(np.moveaxis(chain, 0, -1).reshape(-1, r0 * r1)))
    return worst


def cmtf_lstsq_cond(snap):
    """design matrices of the CMTF block problems, rebuilt from a snapshot: A (for V),
    khatri-rao of the other two factors (for B, C), [khatri-rao(B, C); V] (for A)"""
    w, (A_, B_, C_) = snap["x"]["w"], snap["x"]["f"]
    wy, (Ay, V_) = snap["y"]["w"], snap["y"]["f"]
    if w is not None:
        A_ = A_ * w
    if wy is not None:
        V_ = V_ * wy
    worst = lstsq_cond(A_)
    worst = max(worst, lstsq_cond(ref.khatri_rao([A_, B_])), lstsq_cond(ref.khatri_rao([A_, C_])))
    worst = max(worst, lstsq_cond(np.concatenate([ref.khatri_rao([B_, C_]), V_], axis=0)))
    return worst


# ----------------------------------------------------------------------------
# hals_nnls (C07)
# ----------------------------------------------------------------------------
@st.composite
def nnls_case(draw, group):
    m, r, n = draw(st.integers(2, 6)), draw(st.integers(1, 4)), draw(st.integers(1, 5))
    c = {"m": m, "r": r, "n": n, "seed": draw(gen.seeds),
         "ukind": draw(st.sampled_from(["nonneg", "mixed", "zero_col", "collinear"])),
         "mkind": draw(st.sampled_from(["nonneg", "mixed"])),
         "v0": draw(st.sampled_from(["none", "warm", "warm", "zeros"])),
         "n_iter": draw(st.sampled_from([3, 5, 10, 30])), "tol": draw(st.sampled_from([1e-8, 0.0, 1e-2])),
         "epsilon": draw(st.sampled_from([0.0, 0.0, 1e-3])), "sparsity": None, "ridge": None}
    if group in ("sparsity", "both"):
        c["sparsity"] = draw(st.sampled_from([0.01, 0.1, 1.0]))
    if group in ("ridge", "both"):
        c["ridge"] = draw(st.sampled_from([0.01, 0.1, 1.0]))
    return c


def nnls_problem(c):
    rs = np.random.RandomState(int(c["seed"]) % (2 ** 32))
    m, r, n = c["m"], c["r"], c["n"]
    U = rs.standard_normal((m, r))
    if c["ukind"] != "mixed":
        U = np.abs(U)
    if c["ukind"] == "zero_col":
        U[:, rs.randint(0, r)] = 0.0
    if c["ukind"] == "collinear" and r >= 2:
        U[:, 1] = U[:, 0] * 2.0
    M = rs.standard_normal((m, n))
    if c["mkind"] == "nonneg":
        M = np.abs(M)
    V0 = None
    if c["v0"] == "warm":
        V0 = np.abs(rs.standard_normal((r, n))) + c["epsilon"]
    elif c["v0"] == "zeros":
        V0 = np.zeros((r, n)) + c["epsilon"]
    return U, M, V0


def nnls_objective(U, M, V, c):
    f = 0.5 * float(np.sum((M - U @ V) ** 2))
    if c["sparsity"] is not None:
        f += c["sparsity"] * float(np.sum(V))
    if c["ridge"] is not None:
        f += c["ridge"] * float(np.sum(V ** 2))
    return f


def run_hals_nnls(c):
    """returns [V0 (if supplied), V after iteration 1, 2, ...] as deep copies, and the returned V"""
    from tensorly.solvers.nnls import hals_nnls
    U, M, V0 = nnls_problem(c)
    its = []

    def cb(V, error=None):
        its.append(_arr(V))
        return None
    out = hals_nnls(U.T @ M, U.T @ U, None if V0 is None else V0.copy(), n_iter_max=int(c["n_iter"]),
                    tol=c["tol"], sparsity_coefficient=c["sparsity"], ridge_coefficient=c["ridge"],
                    exact=False, epsilon=c["epsilon"], callback=cb)
    return U, M, V0, its, _arr(out)


# ----------------------------------------------------------------------------
# regressors (C07)
# ----------------------------------------------------------------------------
@st.composite
def regr_case(draw, kind):
    # samples are at least matrices unless the output modes supply a second factor: with a single
    # weight factor the library's khatri_rao / kronecker of "all other factors" is an empty product and raises
    p = draw(st.integers(1 if kind == "cp_out" else 2, 3))
    xs = [draw(st.integers(2, 4 if p < 3 else 3)) for _ in range(p)]
    n = draw(st.integers(3, 12))
    c = {"n": n, "xs": xs, "seed": draw(gen.seeds), "rs": draw(st.integers(0, 10 ** 6)),
         "reg": draw(st.sampled_from([0.0, 0.01, 1.0, 1.0, 10.0])), "n_iter": draw(st.sampled_from([3, 4, 6, 9])),
         "ykind": draw(st.sampled_from(["normal", "linear", "linear_noise"]))}
    if kind == "cp":
        c["rank"] = draw(st.integers(1, 3))
        c["ys"] = []
    elif kind == "cp_out":
        c["rank"] = draw(st.integers(1, 3))
        c["ys"] = [draw(st.integers(1, 3)) for _ in range(draw(st.integers(1, 2)))]
    else:
        c["ranks"] = [draw(st.integers(1, min(3, s))) for s in xs]
        c["ys"] = []
    return c


def regr_data(c):
    rs = np.random.RandomState(int(c["seed"]) % (2 ** 32))
    X = rs.standard_normal([c["n"]] + list(c["xs"]))
    ysh = [c["n"]] + list(c["ys"])
    if c["ykind"] == "normal":
        y = rs.standard_normal(ysh)
    else:
        T = rs.standard_normal(list(c["xs"]) + list(c["ys"]))
        y = np.tensordot(X, T, axes=len(c["xs"]))
        if c["ykind"] == "linear_noise":
            y = y + 0.1 * rs.standard_normal(ysh)
    return X, y


def regr_fit(c, kind, n_iter):
    """fit with n_iter_max = n_iter; returns the snapshot of the fitted weights and the number of iterations"""
    X, y = regr_data(c)
    if kind in ("cp", "cp_out"):
        from tensorly.regression.cp_regression import CPRegressor
        est = CPRegressor(weight_rank=int(c["rank"]), tol=0.0, reg_W=c["reg"], n_iter_max=int(n_iter),
                          random_state=int(c["rs"]), verbose=0)
        est.fit(X.copy(), y.copy())
        snap = copy_cp(est.cp_weight_)
    else:
        from tensorly.regression.tucker_regression import TuckerRegressor
        est = TuckerRegressor(weight_ranks=[int(r) for r in c["ranks"]], tol=0.0, reg_W=c["reg"],
                              n_iter_max=int(n_iter), random_state=int(c["rs"]), verbose=0)
        est.fit(X.copy(), y.copy())
        snap = copy_tucker(est.tucker_weight_)
    return snap, int(est.n_iterations_)


def regr_blocks(snap, kind):
    """the parameter blocks of a snapshot, in update order"""
    if kind in ("cp", "cp_out"):
        return list(snap["f"])
    return list(snap["f"]) + [snap["core"]]


def regr_weight(blocks, kind, c):
    shape = list(c["xs"]) + list(c["ys"])
    if kind in ("cp", "cp_out"):
        return _dense(lambda: ref.cp_dense(None, blocks), "regressor weights", shape)
    return _dense(lambda: ref.tucker_dense(blocks[-1], blocks[:-1]), "regressor weights", shape)


def regr_objective(blocks, kind, c, X, y):
    T = regr_weight(blocks, kind, c)
    res = y - np.tensordot(X, T, axes=len(c["xs"]))
    return float(np.sum(res ** 2)) + c["reg"] * sum(float(np.sum(b ** 2)) for b in blocks)


def regr_cond(blocks, kind, c, X):
    """worst condition number of (Phi_i^T Phi_i + reg I) over the blocks, Phi_i obtained by
    linearity: column j = prediction with block i replaced by the j-th unit array"""
    worst = 1.0
    p = len(c["xs"])
    for i, b in enumerate(blocks):
        cols = []
        for j in range(b.size):
            e = np.zeros(b.size)
            e[j] = 1.0
            bl = list(blocks)
            bl[i] = e.reshape(b.shape)
            cols.append(np.tensordot(X, regr_weight(bl, kind, c), axes=p).ravel())
        phi = np.stack(cols, axis=1)
        worst = max(worst, cond2(phi.T @ phi + c["reg"] * np.eye(b.size)))
    return worst
