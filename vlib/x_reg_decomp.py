"""Registry entries (see x_registry)."""
