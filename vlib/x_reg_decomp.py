"""Registry entries: decomposition functions and their class wrappers."""
import numpy as np
from hypothesis import strategies as st

import tensorly as tl
import tensorly.decomposition as D
from tensorly.decomposition import _tucker as _TK
from tensorly.cp_tensor import CPTensor
from tensorly.tucker_tensor import TuckerTensor
from tensorly.parafac2_tensor import Parafac2Tensor

from . import gen
from .x_registry import register, Call, CPLX, REAL, enc, mask_spec, small_shape, container
from .x_reg_tenalg import cp_arg
from .x_reg_solvers import CONSTRAINTS, constraint_spec, constraint_kwargs

seeds = gen.seeds
SVDS = st.sampled_from(["truncated_svd", "truncated_svd", "symeig_svd", "randomized_svd"])


def fixed_modes_st(order, allow_last=True):
    hi = order - 1 if allow_last else order - 2
    return st.one_of(st.none(), st.none(), st.lists(st.integers(0, max(hi, 0)), unique=True, max_size=order))


def _fm(v):
    return None if v is None else list(v)


# ============================================================================
# CP family
# ============================================================================
@st.composite
def s_cp_common(draw, nn=False, max_order=3):
    shape = draw(small_shape(2, max_order, 2, 4, 48))
    rank = draw(st.integers(1, 3))
    kind = "uniform" if nn else "normal"
    init = draw(st.sampled_from(["svd", "random", "tuple", "list", "cpt"]))
    c = {"X": draw(enc(shape, "nonneg" if nn else draw(st.sampled_from(["normal", "normal", "lowrank"])))) if not nn else draw(enc(shape, "nonneg")),
         "rank": rank, "init": init, "n_iter_max": draw(st.integers(1, 3)), "rs": draw(seeds),
         "tol": draw(st.sampled_from([1e-8, 1e-8, 1e-3, 0])), "normalize_factors": draw(st.booleans()),
         "fixed_modes": draw(fixed_modes_st(len(shape))), "bad": draw(st.integers(0, 5)) == 0,
         "return_errors": draw(st.booleans())}
    if c["X"].get("k") == "lowrank":
        c["X"] = {"s": shape, "lowrank": rank, "seed": c["X"]["seed"], "nonneg": False}
    if init in ("tuple", "list", "cpt"):
        c["init_cp"] = draw(gen.cp_factors(shape, rank, kinds=(kind,), weights=("none", "ones", "pos")))
    if c["bad"]:
        c["n_iter_max"] = draw(st.integers(2, 3))
        c["tol"] = 1e-8
    return c


def _cp_init(e, ctx):
    if e["init"] in ("svd", "random"):
        return e["init"]
    w = ctx.R(e["init_cp"]["weights"])
    return cp_arg(e["init"], w, [ctx.A(f) for f in e["init_cp"]["factors"]])


@st.composite
def s_parafac(draw):
    c = draw(s_cp_common())
    c["mask"] = draw(mask_spec())
    c["svd"] = draw(SVDS)
    c["orthogonalise"] = draw(st.sampled_from([False, False, True, 1]))
    c["sparsity"] = draw(st.sampled_from([None, None, None, 0.2, 3]))
    c["l2_reg"] = draw(st.sampled_from([0, 0, 0.1]))
    c["linesearch"] = draw(st.integers(0, 2)) == 0      # a third of the cases reach the line-search iterations (6, 8)
    if c["linesearch"]:
        c["n_iter_max"] = draw(st.integers(7, 9))
        c["bad"] = False
    return c


def b_parafac(e, ctx):
    X = ctx.A(e["X"])
    cplx = ctx.dtype.kind == "c"
    kw = dict(tensor=X, rank=e["rank"], n_iter_max=e["n_iter_max"], init=_cp_init(e, ctx), svd=e["svd"],
              normalize_factors=e["normalize_factors"], orthogonalise=e["orthogonalise"], tol=e["tol"], random_state=e["rs"],
              return_errors=e["return_errors"], sparsity=None if cplx else e["sparsity"], l2_reg=e["l2_reg"],
              mask=None if cplx else ctx.mask(e["mask"], X.shape), cvg_criterion="bad" if e["bad"] else "abs_rec_error",
              fixed_modes=_fm(e["fixed_modes"]), svd_mask_repeats=2, linesearch=e["linesearch"])
    return Call(D.parafac, kw, expect_exc=e["bad"])


def _cp_real_ok(p):
    return False


register("parafac", s_parafac(), b_parafac, dtypes=CPLX, flags=("cvg",), quick=120, backends=True)


@st.composite
def s_rparafac(draw):
    c = draw(s_cp_common())
    c["n_samples"] = draw(st.integers(3, 8))
    c["svd"] = draw(SVDS)
    c["max_stagnation"] = draw(st.sampled_from([20, 0, 1]))
    return c


def b_rparafac(e, ctx):
    kw = dict(tensor=ctx.A(e["X"]), rank=e["rank"], n_samples=e["n_samples"], n_iter_max=e["n_iter_max"], init=_cp_init(e, ctx),
              svd=e["svd"], tol=e["tol"], max_stagnation=e["max_stagnation"], return_errors=e["return_errors"],
              random_state=e["rs"], verbose=0)
    return Call(D.randomised_parafac, kw)


register("randomised_parafac", s_rparafac(), b_rparafac, quick=100)


@st.composite
def s_nn_parafac(draw):
    c = draw(s_cp_common(nn=True))
    c["mask"] = draw(mask_spec())
    c["svd"] = draw(SVDS)
    return c


def b_nn_parafac(e, ctx):
    X = ctx.A(e["X"])
    kw = dict(tensor=X, rank=e["rank"], n_iter_max=e["n_iter_max"], init=_cp_init(e, ctx), svd=e["svd"], tol=e["tol"],
              random_state=e["rs"], normalize_factors=e["normalize_factors"], return_errors=e["return_errors"],
              mask=ctx.mask(e["mask"], X.shape), cvg_criterion="bad" if e["bad"] else "rec_error", fixed_modes=_fm(e["fixed_modes"]))
    return Call(D.non_negative_parafac, kw, expect_exc=e["bad"])


register("non_negative_parafac", s_nn_parafac(), b_nn_parafac, flags=("cvg",), quick=100, backends=True)


@st.composite
def s_nn_hals(draw):
    c = draw(s_cp_common(nn=True))
    n = len(c["X"]["s"])
    c["svd"] = draw(SVDS)
    c["sparsity_coefficients"] = draw(st.one_of(st.none(), st.just(0.1), st.lists(st.sampled_from([None, 0.1, 0.5]), min_size=n, max_size=n)))
    c["nn_modes"] = draw(st.one_of(st.just("all"), st.none(), st.lists(st.integers(0, n - 1), unique=True, min_size=1, max_size=n)))
    return c


def b_nn_hals(e, ctx):
    sc = e["sparsity_coefficients"]
    kw = dict(tensor=ctx.A(e["X"]), rank=e["rank"], n_iter_max=e["n_iter_max"], init=_cp_init(e, ctx), svd=e["svd"], tol=e["tol"],
              random_state=e["rs"], sparsity_coefficients=list(sc) if isinstance(sc, list) else sc, fixed_modes=_fm(e["fixed_modes"]),
              nn_modes=list(e["nn_modes"]) if isinstance(e["nn_modes"], list) else e["nn_modes"], exact=False,
              normalize_factors=e["normalize_factors"], return_errors=e["return_errors"],
              cvg_criterion="bad" if e["bad"] else "abs_rec_error")
    return Call(D.non_negative_parafac_hals, kw, expect_exc=e["bad"])


register("non_negative_parafac_hals", s_nn_hals(), b_nn_hals, flags=("cvg",), quick=100, backends=True)


@st.composite
def s_constrained(draw):
    c = draw(s_cp_common(nn=False))
    n = len(c["X"]["s"])
    c["svd"] = draw(SVDS)
    c["n_iter_max"] = min(c["n_iter_max"], 2) if not c["bad"] else 2
    c["n_iter_max_inner"] = draw(st.integers(1, 3))
    c.update(draw(constraint_spec(n)))
    return c


def b_constrained(e, ctx):
    n = len(e["X"]["s"])
    kw = dict(tensor=ctx.A(e["X"]), rank=e["rank"], n_iter_max=e["n_iter_max"], n_iter_max_inner=e["n_iter_max_inner"],
              init=_cp_init(e, ctx), svd=e["svd"], tol_outer=e["tol"] or 1e-8, random_state=e["rs"], return_errors=e["return_errors"],
              cvg_criterion="bad" if e["bad"] else "abs_rec_error", fixed_modes=_fm(e["fixed_modes"]))
    kw.update(constraint_kwargs(e, n))
    return Call(D.constrained_parafac, kw, expect_exc=e["bad"])


register("constrained_parafac", s_constrained(), b_constrained, flags=("cvg",), quick=100, backends=True)


# ============================================================================
# Tucker family
# ============================================================================
@st.composite
def s_tucker_common(draw, nn=False):
    shape = draw(small_shape(2, 3, 2, 4, 48))
    n = len(shape)
    ranks = [draw(st.integers(1, min(s, 3))) for s in shape]
    kind = "uniform" if nn else "normal"
    init = draw(st.sampled_from(["svd", "random", "tuple", "list", "tkt"]))
    c = {"X": draw(enc(shape, "nonneg" if nn else "normal")), "rank": ranks, "rankform": draw(st.sampled_from(["list", "list", "tuple"])),
         "init": init, "n_iter_max": draw(st.integers(1, 3)), "tol": draw(st.sampled_from([1e-4, 0, 1e-1])), "rs": draw(seeds),
         "return_errors": draw(st.booleans())}
    if init in ("tuple", "list", "tkt"):
        c["init_tk"] = draw(gen.tucker_factors(shape, ranks, kinds=(kind,)))
    return c


def tucker_arg(kind, core, facs):
    if kind == "tkt":
        return TuckerTensor((core, list(facs)))
    return container(kind, [core, list(facs)])


def _tk_init(e, ctx, sub=None):
    if e["init"] in ("svd", "random"):
        return e["init"]
    facs = [ctx.A(f) for f in e["init_tk"]["factors"]]
    return tucker_arg(e["init"], ctx.A(e["init_tk"]["core"]), facs)


def _rank(e):
    return container(e["rankform"], e["rank"])


@st.composite
def s_tucker(draw):
    c = draw(s_tucker_common())
    n = len(c["rank"])
    c["mask"] = draw(mask_spec())
    c["svd"] = draw(SVDS)
    c["fixed_factors"] = None
    if c["init"] in ("tuple", "list", "tkt") and draw(st.booleans()):
        c["fixed_factors"] = draw(st.lists(st.integers(0, n - 1), unique=True, min_size=1, max_size=n))
    return c


def b_tucker(e, ctx):
    X = ctx.A(e["X"])
    ff = _fm(e["fixed_factors"])
    kw = dict(tensor=X, rank=_rank(e), fixed_factors=ff, n_iter_max=e["n_iter_max"], init=_tk_init(e, ctx),
              return_errors=e["return_errors"], svd=e["svd"], tol=e["tol"], random_state=e["rs"], mask=ctx.mask(e["mask"], X.shape))
    return Call(D.tucker, kw)


register("tucker", s_tucker(), b_tucker, quick=100, backends=True)


@st.composite
def s_partial_tucker(draw):
    c = draw(s_tucker_common())
    n = len(c["rank"])
    c["modes"] = sorted(draw(st.lists(st.integers(0, n - 1), unique=True, min_size=1, max_size=n)))
    c["mask"] = draw(mask_spec())
    c["svd"] = draw(SVDS)
    if c["init"] in ("tuple", "list", "tkt"):
        # partial init: core keeps the full size on the untouched modes
        shape = c["X"]["s"]
        cshape = [c["rank"][i] if i in c["modes"] else shape[i] for i in range(n)]
        c["init_tk"] = {"core": draw(enc(cshape)), "factors": [draw(enc([shape[m], c["rank"][m]])) for m in c["modes"]]}
        c["init"] = "tuple" if c["init"] == "tkt" else c["init"]
    return c


def b_partial_tucker(e, ctx):
    X = ctx.A(e["X"])
    kw = dict(tensor=X, rank=container(e["rankform"], [e["rank"][m] for m in e["modes"]]), modes=list(e["modes"]),
              n_iter_max=e["n_iter_max"], init=_tk_init(e, ctx), tol=e["tol"], svd=e["svd"], random_state=e["rs"],
              mask=ctx.mask(e["mask"], X.shape), svd_mask_repeats=2)
    return Call(D.partial_tucker, kw)


register("partial_tucker", s_partial_tucker(), b_partial_tucker, quick=150)


@st.composite
def s_nn_tucker(draw):
    c = draw(s_tucker_common(nn=True))
    c["normalize_factors"] = draw(st.booleans())
    return c


def b_nn_tucker(e, ctx):
    kw = dict(tensor=ctx.A(e["X"]), rank=_rank(e), n_iter_max=e["n_iter_max"], init=_tk_init(e, ctx), tol=e["tol"] or 1e-4,
              random_state=e["rs"], return_errors=e["return_errors"], normalize_factors=e["normalize_factors"])
    return Call(D.non_negative_tucker, kw)


register("non_negative_tucker", s_nn_tucker(), b_nn_tucker, quick=100)


@st.composite
def s_nn_tucker_hals(draw):
    c = draw(s_tucker_common(nn=True))
    n = len(c["rank"])
    c["normalize_factors"] = draw(st.booleans())
    c["svd"] = draw(SVDS)
    c["n_iter_max"] = draw(st.integers(1, 2))
    c["sparsity_coefficients"] = draw(st.one_of(st.none(), st.just(0.1), st.lists(st.sampled_from([None, 0.1, 0.5]), min_size=n, max_size=n)))
    c["core_sparsity_coefficient"] = draw(st.sampled_from([None, 0.1]))
    c["algorithm"] = draw(st.sampled_from(["fista", "active_set"]))
    # fixed modes only make sense with a user init (the initialiser builds factors for the free modes only)
    c["fixed_modes"] = None
    if c["init"] in ("tuple", "list", "tkt") and draw(st.booleans()):
        c["fixed_modes"] = draw(st.lists(st.integers(0, n - 1), unique=True, min_size=1, max_size=n))
        if draw(st.integers(0, 2)) > 0:      # per-mode coefficients next to fixed modes: the entries the solver resets
            c["sparsity_coefficients"] = draw(st.lists(st.sampled_from([0.1, 0.5, None]), min_size=n, max_size=n))
    return c


def b_nn_tucker_hals(e, ctx):
    sc = e["sparsity_coefficients"]
    kw = dict(tensor=ctx.A(e["X"]), rank=_rank(e), n_iter_max=e["n_iter_max"], init=_tk_init(e, ctx), svd=e["svd"], tol=e["tol"],
              sparsity_coefficients=list(sc) if isinstance(sc, list) else sc, core_sparsity_coefficient=e["core_sparsity_coefficient"],
              fixed_modes=_fm(e["fixed_modes"]), random_state=e["rs"], normalize_factors=e["normalize_factors"],
              return_errors=e["return_errors"], exact=False, algorithm=e["algorithm"])
    return Call(D.non_negative_tucker_hals, kw)


register("non_negative_tucker_hals", s_nn_tucker_hals(), b_nn_tucker_hals, quick=80)


# ============================================================================
# TT / TT-matrix / TR
# ============================================================================
@st.composite
def s_tt(draw):
    shape = draw(small_shape(2, 4, 2, 4, 64))
    n = len(shape)
    form = draw(st.sampled_from(["int", "list", "list", "tuple"]))
    # ranks up to 5: larger than the unfolding allows in about half of the cases, so that the decomposition clips them
    rank = draw(st.integers(1, 3)) if form == "int" else [1] + [draw(st.integers(1, 5)) for _ in range(n - 1)] + [1]
    return {"X": draw(enc(shape)), "rank": rank, "form": form, "svd": draw(SVDS)}


def b_tt(e, ctx):
    rank = e["rank"] if e["form"] == "int" else container(e["form"], e["rank"])
    return Call(D.tensor_train, dict(input_tensor=ctx.A(e["X"]), rank=rank, svd=e["svd"]))


register("tensor_train", s_tt(), b_tt, quick=120)


@st.composite
def s_ttm(draw):
    n = draw(st.sampled_from([1, 2, 2, 3]))
    shape = [draw(st.integers(1, 3 if n < 3 else 2)) for _ in range(2 * n)]
    form = draw(st.sampled_from(["int", "list", "list"]))
    rank = draw(st.integers(1, 3)) if form == "int" else [1] + [draw(st.integers(1, 5)) for _ in range(n - 1)] + [1]
    return {"X": draw(enc(shape)), "rank": rank, "form": form, "svd": draw(SVDS)}


def b_ttm(e, ctx):
    rank = e["rank"] if e["form"] == "int" else list(e["rank"])
    return Call(D.tensor_train_matrix, dict(tensor=ctx.A(e["X"]), rank=rank, svd=e["svd"]))


register("tensor_train_matrix", s_ttm(), b_ttm, quick=120)


@st.composite
def s_tr(draw):
    shape = draw(small_shape(3, 4, 2, 4, 64))
    n = len(shape)
    mode = draw(st.integers(0, n - 1))
    form = draw(st.sampled_from(["int", "list", "tuple"]))
    if form == "int":
        rank = draw(st.integers(1, 2))
        rl = [rank] * (n + 1)
    else:
        rl = [draw(st.integers(1, 2)) for _ in range(n)]
        rl = rl + [rl[0]]
        rank = rl
    rest = gen.prod(shape) // shape[mode]
    if rl[mode] * rl[mode + 1] > min(shape[mode], rest):
        mode = max(range(n), key=lambda i: shape[i])
        if rl[mode] * rl[mode + 1] > min(shape[mode], gen.prod(shape) // shape[mode]):
            rank, form = 1, "int"
    return {"X": draw(enc(shape)), "rank": rank, "form": form, "mode": mode, "svd": draw(SVDS)}


def b_tr(e, ctx):
    rank = e["rank"] if e["form"] == "int" else container(e["form"], e["rank"])
    return Call(D.tensor_ring, dict(input_tensor=ctx.A(e["X"]), rank=rank, mode=e["mode"], svd=e["svd"]))


register("tensor_ring", s_tr(), b_tr, quick=120)


@st.composite
def s_tr_als(draw, sampled=False):
    shape = draw(small_shape(3, 3, 2, 4, 48))
    n = len(shape)
    form = draw(st.sampled_from(["int", "list"]))
    if form == "int":
        rank = draw(st.integers(1, 2))
    else:
        rank = [draw(st.integers(1, 2)) for _ in range(n)]
        rank = rank + [rank[0]]
    c = {"X": draw(enc(shape)), "rank": rank, "form": form, "n_iter_max": draw(st.integers(1, 3)),
         "tol": draw(st.sampled_from([1e-6, 0.0])), "rs": draw(seeds)}
    if sampled:
        c["n_samples"] = draw(st.one_of(st.integers(4, 8), st.lists(st.integers(4, 8), min_size=n, max_size=n)))
        c["uniform_sampling"] = draw(st.booleans())
        c["randomized_error"] = draw(st.booleans())
    else:
        c["ls_solve"] = draw(st.sampled_from(["lstsq", "normal_eq"]))
    return c


def b_tr_als(e, ctx):
    rank = e["rank"] if e["form"] == "int" else list(e["rank"])
    return Call(D.tensor_ring_als, dict(tensor=ctx.A(e["X"]), rank=rank, ls_solve=e["ls_solve"], n_iter_max=e["n_iter_max"], tol=e["tol"],
                                        random_state=e["rs"]))


def b_tr_als_sampled(e, ctx):
    rank = e["rank"] if e["form"] == "int" else list(e["rank"])
    ns = list(e["n_samples"]) if isinstance(e["n_samples"], list) else e["n_samples"]
    return Call(D.tensor_ring_als_sampled, dict(tensor=ctx.A(e["X"]), rank=rank, n_samples=ns, n_iter_max=e["n_iter_max"], tol=e["tol"],
                                                uniform_sampling=e["uniform_sampling"], randomized_error=e["randomized_error"],
                                                random_state=e["rs"]))


register("tensor_ring_als", s_tr_als(), b_tr_als, quick=80)
register("tensor_ring_als_sampled", s_tr_als(sampled=True), b_tr_als_sampled, quick=80)


# ============================================================================
# PARAFAC2, CMTF, robust PCA, power iterations
# ============================================================================
@st.composite
def s_parafac2(draw):
    K = draw(st.integers(2, 4))
    rank = draw(st.integers(1, min(K, 3)))
    I = draw(st.integers(2, 3))
    form = draw(st.sampled_from(["list", "tuple", "array"]))
    if form == "array":
        J = draw(st.integers(rank, 4))
        rows = [J] * I
    else:
        rows = [draw(st.integers(rank, 4)) for _ in range(I)]
    init = draw(st.sampled_from(["random", "svd", "p2tuple", "p2t", "cptuple"]))
    c = {"rows": rows, "K": K, "rank": rank, "form": form, "seed": draw(seeds), "init": init,
         "n_iter_max": draw(st.integers(1, 3)), "n_iter_parafac": draw(st.integers(1, 2)), "rs": draw(seeds),
         "nn_modes": draw(st.sampled_from([None, None, "all", [0], [0, 2], [2]])), "normalize_factors": draw(st.booleans()),
         "tol": draw(st.sampled_from([1e-8, 0])), "return_errors": draw(st.booleans()), "svd": draw(SVDS),
         "linesearch": draw(st.integers(0, 6)) == 0}
    if c["linesearch"]:
        c["n_iter_max"] = 8
        c["tol"] = 1e-8
    if init != "random" and init != "svd":
        c["iseed"] = draw(seeds)
        c["iweights"] = draw(st.sampled_from(["none", "ones", "pos"]))
    return c


def p2_parts(seed, I, rows, K, rank, ctx, wkind="none", nonneg=False, Bshape=None):
    rs = np.random.RandomState(int(seed) % (2 ** 32))
    f = (lambda a: np.abs(a) + 0.1) if nonneg else (lambda a: a)
    A = ctx.W(f(rs.standard_normal((I, rank))))
    B = ctx.W(f(rs.standard_normal(Bshape or (rank, rank))))
    C = ctx.W(f(rs.standard_normal((K, rank))))
    projs = [ctx.W(gen.orthonormal(rs.randint(0, 2 ** 31 - 1), r, rank)) for r in rows]
    w = None if wkind == "none" else ctx.W(np.ones(rank) if wkind == "ones" else rs.uniform(0.5, 2.0, rank))
    return w, [A, B, C], projs


def _slices(e, ctx, nonneg=False):
    rs = np.random.RandomState(int(e["seed"]) % (2 ** 32))
    sl = [rs.standard_normal((r, e["K"])) for r in e["rows"]]
    if nonneg:
        sl = [np.abs(s) for s in sl]
    if e["form"] == "array":
        return ctx.W(np.stack(sl))
    return container(e["form"], [ctx.W(s) for s in sl])


def b_parafac2(e, ctx):
    nn = e["nn_modes"] is not None
    X = _slices(e, ctx, nonneg=nn)
    I = len(e["rows"])
    init = e["init"]
    if init in ("p2tuple", "p2t"):
        w, facs, projs = p2_parts(e["iseed"], I, e["rows"], e["K"], e["rank"], ctx, e["iweights"], nonneg=nn)
        init = (w, facs, projs) if init == "p2tuple" else Parafac2Tensor((w, facs, projs))
    elif init == "cptuple":
        # a CP init: B has one row per slice row (equal row counts needed) -> only for equal rows, else fall back to random
        if len(set(e["rows"])) == 1:
            w, facs, _ = p2_parts(e["iseed"], I, e["rows"], e["K"], e["rank"], ctx, e["iweights"], nonneg=nn, Bshape=(e["rows"][0], e["rank"]))
            init = (w, facs)
        else:
            init = "random"
    kw = dict(tensor_slices=X, rank=e["rank"], n_iter_max=e["n_iter_max"], init=init, svd=e["svd"], normalize_factors=e["normalize_factors"],
              tol=e["tol"], nn_modes=list(e["nn_modes"]) if isinstance(e["nn_modes"], list) else e["nn_modes"], random_state=e["rs"],
              return_errors=e["return_errors"], n_iter_parafac=e["n_iter_parafac"], linesearch=e["linesearch"])
    return Call(D.parafac2, kw)


register("parafac2", s_parafac2(), b_parafac2, quick=80)


@st.composite
def s_cmtf(draw):
    shape = draw(small_shape(3, 3, 2, 4, 48))
    return {"X": draw(enc(shape)), "Y": draw(enc([shape[0], draw(st.integers(1, 4))])), "rank": draw(st.integers(1, 3)),
            "init": draw(st.sampled_from(["svd", "random"])), "n_iter_max": draw(st.integers(1, 3)),
            "normalize_factors": draw(st.booleans()), "tol": draw(st.sampled_from([1e-6, 0.0]))}


def b_cmtf(e, ctx):
    return Call(D.coupled_matrix_tensor_3d_factorization, dict(tensor_3d=ctx.A(e["X"]), matrix=ctx.A(e["Y"]), rank=e["rank"], init=e["init"],
                                                               n_iter_max=e["n_iter_max"], tol=e["tol"], normalize_factors=e["normalize_factors"]))


register("coupled_matrix_tensor_3d_factorization", s_cmtf(), b_cmtf, gseed=True, quick=80)


@st.composite
def s_rpca(draw):
    shape = draw(small_shape(2, 3, 2, 4, 36))
    return {"X": draw(enc(shape)), "mask": draw(mask_spec()), "n_iter_max": draw(st.integers(1, 4)),
            "reg_E": draw(st.sampled_from([1.0, 0.1])), "return_errors": draw(st.booleans())}


def b_rpca(e, ctx):
    X = ctx.A(e["X"])
    return Call(D.robust_pca, dict(X=X, mask=ctx.mask(e["mask"], X.shape), n_iter_max=e["n_iter_max"], reg_E=e["reg_E"],
                                   return_errors=e["return_errors"], verbose=0))


register("robust_pca", s_rpca(), b_rpca, quick=100)


@st.composite
def s_power(draw, symmetric=False, rank=False):
    if symmetric:
        shape = [draw(st.integers(2, 3))] * draw(st.integers(2, 3))
    else:
        shape = draw(small_shape(2, 3, 2, 3, 27))
    c = {"X": draw(enc(shape, "uniform")), "n_repeat": draw(st.integers(1, 2)), "n_iteration": draw(st.integers(1, 3))}
    if rank:
        c["rank"] = draw(st.integers(1, 2))
    return c


def _b_power(fn):
    def b(e, ctx):
        kw = dict(tensor=ctx.A(e["X"]), n_repeat=e["n_repeat"], n_iteration=e["n_iteration"], verbose=False)
        if "rank" in e:
            kw["rank"] = e["rank"]
        return Call(fn, kw)
    return b


register("power_iteration", s_power(), _b_power(D.power_iteration), gseed=True, quick=100)
register("parafac_power_iteration", s_power(rank=True), _b_power(D.parafac_power_iteration), gseed=True, quick=100)
register("symmetric_power_iteration", s_power(symmetric=True), _b_power(D.symmetric_power_iteration), gseed=True, quick=100)
register("symmetric_parafac_power_iteration", s_power(symmetric=True, rank=True), _b_power(D.symmetric_parafac_power_iteration), gseed=True, quick=100)


@st.composite
def s_sample_kr(draw):
    n = draw(st.integers(2, 4))
    r = draw(st.integers(1, 3))
    rows = [draw(st.integers(1, 4)) for _ in range(n)]
    skip = draw(st.one_of(st.none(), st.integers(0, n - 1)))
    ns = draw(st.integers(1, 6))
    rem = [x for i, x in enumerate(rows) if i != skip]
    idx = None
    if draw(st.booleans()):
        idx = [[draw(st.integers(0, x - 1)) for _ in range(ns)] for x in rem]
    return {"mats": [draw(enc([x, r])) for x in rows], "skip": skip, "n_samples": ns, "indices": idx,
            "rows_out": draw(st.booleans()), "rs": draw(seeds), "rskind": draw(st.sampled_from(["int", "RandomState"]))}


def b_sample_kr(e, ctx):
    rs = e["rs"] if e["rskind"] == "int" else np.random.RandomState(e["rs"])
    idx = None if e["indices"] is None else [np.array(i, dtype=int) for i in e["indices"]]
    return Call(D.sample_khatri_rao, dict(matrices=[ctx.A(m) for m in e["mats"]], n_samples=e["n_samples"], skip_matrix=e["skip"],
                                          indices_list=idx, return_sampled_rows=e["rows_out"], random_state=rs))


register("sample_khatri_rao", s_sample_kr(), b_sample_kr, quick=120)


# ============================================================================
# class wrappers (same cases as the functions)
# ============================================================================
def class_builder(Cls, fb, drop=("return_errors",), tensor_key="tensor", force=None):
    def b(e, ctx):
        c = fb(e, ctx)
        kw = dict(c.kwargs)
        X = kw.pop(tensor_key)
        for d in drop:
            kw.pop(d, None)
        if force:
            kw.update(force)

        def fit_transform(ctor, tensor):
            est = Cls(**ctor)
            out = est.fit_transform(tensor)
            return out, {k: v for k, v in vars(est).items() if k.endswith("_")}     # fitted attributes
        return Call(fit_transform, dict(ctor=kw, tensor=X), expect_exc=c.expect_exc)
    return b


register("CP.fit_transform", s_parafac(), class_builder(D.CP, b_parafac), dtypes=CPLX, flags=("cvg",), quick=60)
register("RandomizedCP.fit_transform", s_rparafac(), class_builder(D.RandomizedCP, b_rparafac), quick=50)
register("CP_NN.fit_transform", s_nn_parafac(), class_builder(D.CP_NN, b_nn_parafac), flags=("cvg",), quick=50)
register("CP_NN_HALS.fit_transform", s_nn_hals(), class_builder(D.CP_NN_HALS, b_nn_hals), flags=("cvg",), quick=50)
register("ConstrainedCP.fit_transform", s_constrained(), class_builder(D.ConstrainedCP, b_constrained, drop=()), flags=("cvg",), quick=50)
register("Tucker.fit_transform", s_tucker(), class_builder(D.Tucker, b_tucker, drop=()), quick=50)
register("Tucker_NN.fit_transform", s_nn_tucker(), class_builder(_TK.Tucker_NN, b_nn_tucker), quick=50)
register("Tucker_NN_HALS.fit_transform", s_nn_tucker_hals(), class_builder(_TK.Tucker_NN_HALS, b_nn_tucker_hals, drop=()), quick=40)
register("TensorTrain.fit_transform", s_tt(), class_builder(D.TensorTrain, b_tt, tensor_key="input_tensor"), quick=60)
register("TensorTrainMatrix.fit_transform", s_ttm(), class_builder(D.TensorTrainMatrix, b_ttm), quick=60)
register("TensorRing.fit_transform", s_tr(), class_builder(D.TensorRing, b_tr, tensor_key="input_tensor"), quick=60)
register("TensorRingALS.fit_transform", s_tr_als(), class_builder(D.TensorRingALS, b_tr_als), quick=40)
register("TensorRingALSSampled.fit_transform", s_tr_als(sampled=True), class_builder(D.TensorRingALSSampled, b_tr_als_sampled), quick=40)
register("Parafac2.fit_transform", s_parafac2(), class_builder(D.Parafac2, b_parafac2, drop=(), tensor_key="tensor_slices"), quick=40)
register("CPPower.fit_transform", s_power(rank=True), class_builder(D.CPPower, _b_power(D.parafac_power_iteration)), gseed=True, quick=50)
register("SymmetricCP.fit_transform", s_power(symmetric=True, rank=True), class_builder(D.SymmetricCP, _b_power(D.symmetric_parafac_power_iteration)), gseed=True, quick=50)
