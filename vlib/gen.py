"""Shared Hypothesis strategies.  Every generated case is a plain JSON value; arrays
are *encoded* and decoded with dec():

  {"s": shape, "d": [flat values]}                     explicit real data
  {"s": shape, "d": [...], "di": [...]}                explicit complex data
  {"s": shape, "seed": n, "k": kind}                   bulk data drawn from RandomState(n)
  optional "t": dtype name (default float64), "lay": memory layout
"""
import numpy as np
from hypothesis import strategies as st

DTYPES_ALL = ["bool", "int8", "uint8", "int32", "int64", "float16", "float32",
              "float64", "complex64", "complex128"]


def prod(xs):
    p = 1
    for x in xs:
        p *= int(x)
    return p


# ----------------------------------------------------------------------------
# decoding
# ----------------------------------------------------------------------------
def dec(enc, dtype=None):
    """encoded array -> np.ndarray (fresh, C-contiguous unless 'lay' asks otherwise)"""
    if enc is None:
        return None
    shape = tuple(enc["s"])
    t = dtype or enc.get("t", "float64")
    if "seed" in enc:
        rs = np.random.RandomState(int(enc["seed"]) % (2 ** 32))
        k = enc.get("k", "normal")
        if k == "normal":
            a = rs.standard_normal(shape)
        elif k == "uniform":
            a = rs.uniform(0.05, 1.0, shape)
        elif k == "nonneg":
            a = np.abs(rs.standard_normal(shape))
        elif k == "sparse":
            a = rs.standard_normal(shape) * (rs.uniform(size=shape) < 0.4)
        elif k == "sparse_nonneg":
            a = np.abs(rs.standard_normal(shape)) * (rs.uniform(size=shape) < 0.5)
        elif k == "allneg":
            a = -np.abs(rs.standard_normal(shape)) - 0.01
        elif k == "int":
            a = rs.randint(-4, 5, shape).astype(float)
        elif k == "cnormal":
            a = rs.standard_normal(shape) + 1j * rs.standard_normal(shape)
        else:
            raise ValueError(k)
        if "scale" in enc:
            a = a * enc["scale"]
        if "shift" in enc:
            a = a + enc["shift"]
    else:
        a = np.array(enc["d"], dtype=float).reshape(shape)
        if "di" in enc:
            a = a + 1j * np.array(enc["di"], dtype=float).reshape(shape)
        if "scale" in enc:
            a = a * enc["scale"]
    if np.iscomplexobj(a) and not str(t).startswith("complex"):
        t = "complex128"
    a = a.astype(t)
    return layout(a, enc.get("lay", "C"))


def layout(a, lay):
    """same values, different memory"""
    if lay == "C" or a.ndim == 0:
        return np.ascontiguousarray(a)
    if lay == "F":
        return np.asfortranarray(a)
    if lay == "T":       # transposed view of a C buffer
        b = np.ascontiguousarray(a.transpose(tuple(reversed(range(a.ndim)))))
        return b.transpose(tuple(reversed(range(a.ndim))))
    if lay == "strided":  # every second element of a larger buffer along the last axis
        big = np.zeros(a.shape[:-1] + (2 * a.shape[-1] + 1,), dtype=a.dtype)
        v = big[..., 1::2]
        v[...] = a
        return v
    if lay == "offset":   # slice of a larger buffer along the first axis
        big = np.zeros((a.shape[0] + 2,) + a.shape[1:], dtype=a.dtype)
        v = big[1:-1]
        v[...] = a
        return v
    raise ValueError(lay)


LAYOUTS = ["C", "F", "T", "strided", "offset"]


# ----------------------------------------------------------------------------
# strategies
# ----------------------------------------------------------------------------
def shapes(min_order=1, max_order=4, min_side=1, max_side=4):
    return st.lists(st.integers(min_side, max_side), min_size=min_order, max_size=max_order)


seeds = st.integers(0, 2 ** 31 - 1)


@st.composite
def arr(draw, shape, kinds=("int", "normal"), dtype=None, complex_=False):
    """encoded array of the given shape; kinds chooses among
    'int' (explicit small ints), 'dyadic' (explicit k/8), 'normal','uniform','nonneg',
    'sparse','sparse_nonneg','allneg','seedint' (bulk from a drawn seed)"""
    shape = list(shape)
    n = prod(shape)
    kind = draw(st.sampled_from(list(kinds)))
    enc = {"s": shape}
    if kind == "int":
        enc["d"] = draw(st.lists(st.integers(-4, 4), min_size=n, max_size=n))
        if complex_:
            enc["di"] = draw(st.lists(st.integers(-4, 4), min_size=n, max_size=n))
    elif kind == "posint":
        enc["d"] = draw(st.lists(st.integers(0, 5), min_size=n, max_size=n))
    elif kind == "dyadic":
        enc["d"] = [k / 8 for k in draw(st.lists(st.integers(-64, 64), min_size=n, max_size=n))]
        if complex_:
            enc["di"] = [k / 8 for k in draw(st.lists(st.integers(-64, 64), min_size=n, max_size=n))]
    else:
        enc["seed"] = draw(seeds)
        enc["k"] = {"seedint": "int"}.get(kind, kind)
        if complex_:
            enc["k"] = "cnormal"
    if dtype is not None:
        enc["t"] = dtype
    return enc


def matrix(rows, cols, **kw):
    return arr([rows, cols], **kw)


@st.composite
def cp_factors(draw, shape, rank, kinds=("int", "normal"), weights=("none", "ones", "pos", "neg", "mixed", "zero"), complex_=False):
    """returns {"weights": enc|None, "factors": [enc...]}"""
    facs = [draw(arr([s, rank], kinds=kinds, complex_=complex_)) for s in shape]
    wk = draw(st.sampled_from(list(weights)))
    if wk == "none":
        w = None
    elif wk == "ones":
        w = {"s": [rank], "d": [1.0] * rank}
    elif wk == "pos":
        w = {"s": [rank], "d": [k / 4 for k in draw(st.lists(st.integers(1, 12), min_size=rank, max_size=rank))]}
    elif wk == "neg":
        w = {"s": [rank], "d": [-k / 4 for k in draw(st.lists(st.integers(1, 12), min_size=rank, max_size=rank))]}
    elif wk == "mixed":
        w = {"s": [rank], "d": [k / 4 for k in draw(st.lists(st.integers(-12, 12).filter(lambda x: x != 0), min_size=rank, max_size=rank))]}
    else:
        w = {"s": [rank], "d": [k / 4 for k in draw(st.lists(st.integers(-8, 8), min_size=rank, max_size=rank))]}
    return {"weights": w, "factors": facs, "wkind": wk}


@st.composite
def tucker_factors(draw, shape, ranks, kinds=("int", "normal"), complex_=False):
    core = draw(arr(list(ranks), kinds=kinds, complex_=complex_))
    facs = [draw(arr([s, r], kinds=kinds, complex_=complex_)) for s, r in zip(shape, ranks)]
    return {"core": core, "factors": facs}


@st.composite
def tt_cores(draw, shape, ranks, kinds=("int", "normal")):
    """ranks has len(shape)+1 entries"""
    return [draw(arr([ranks[i], shape[i], ranks[i + 1]], kinds=kinds)) for i in range(len(shape))]


@st.composite
def ttm_cores(draw, in_shape, out_shape, ranks, kinds=("int", "normal")):
    return [draw(arr([ranks[i], in_shape[i], out_shape[i], ranks[i + 1]], kinds=kinds)) for i in range(len(in_shape))]


def dec_cp(c, dtype=None):
    w = dec(c["weights"], dtype) if c.get("weights") is not None else None
    return w, [dec(f, dtype) for f in c["factors"]]


def orthonormal(seed, n, r):
    """n x r matrix with orthonormal columns (n >= r), deterministic in seed"""
    rs = np.random.RandomState(int(seed) % (2 ** 32))
    q, rr = np.linalg.qr(rs.standard_normal((n, r)))
    return q * np.sign(np.where(np.diag(rr) == 0, 1, np.diag(rr)))


def lowrank_cp_tensor(seed, shape, rank, nonneg=False):
    rs = np.random.RandomState(int(seed) % (2 ** 32))
    facs = [rs.standard_normal((s, rank)) for s in shape]
    if nonneg:
        facs = [np.abs(f) for f in facs]
    from . import ref
    return ref.cp_dense(None, facs)


def lowrank_tucker_tensor(seed, shape, ranks):
    rs = np.random.RandomState(int(seed) % (2 ** 32))
    core = rs.standard_normal(tuple(ranks))
    facs = [rs.standard_normal((s, r)) for s, r in zip(shape, ranks)]
    from . import ref
    return ref.tucker_dense(core, facs)


@st.composite
def data_tensor(draw, min_order=2, max_order=4, min_side=2, max_side=4,
                kinds=("normal", "lowrank", "nonneg", "int"), rank_max=3):
    """encoded data tensor for decompositions:
       {"s","seed","k"} or {"lowrank": {...}}; decode with dec_data"""
    shape = draw(shapes(min_order, max_order, min_side, max_side))
    kind = draw(st.sampled_from(list(kinds)))
    if kind == "lowrank":
        return {"s": shape, "lowrank": draw(st.integers(1, rank_max)), "seed": draw(seeds), "nonneg": False}
    if kind == "lowrank_nonneg":
        return {"s": shape, "lowrank": draw(st.integers(1, rank_max)), "seed": draw(seeds), "nonneg": True}
    if kind == "int":
        return draw(arr(shape, kinds=("int",)))
    return {"s": shape, "seed": draw(seeds), "k": kind}


def dec_data(enc, dtype=None):
    if "lowrank" in enc:
        a = lowrank_cp_tensor(enc["seed"], enc["s"], enc["lowrank"], enc.get("nonneg", False))
        if "shift" in enc:
            a = a + enc["shift"]
        return a.astype(dtype or enc.get("t", "float64"))
    return dec(enc, dtype)
