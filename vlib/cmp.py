"""Comparison helpers that turn malformed library output into Fail (never a
harness exception)."""
import numpy as np
from .engine import Fail, check


def as_array(x, clause):
    try:
        a = np.asarray(x)
    except Exception as e:  # noqa
        raise Fail(clause, f"result is not array-like: {type(x).__name__}")
    if a.dtype == object:
        raise Fail(clause, f"result has object dtype / ragged structure: {type(x).__name__}")
    return a


def assert_shape(x, shape, clause):
    a = as_array(x, clause)
    check(tuple(a.shape) == tuple(int(s) for s in shape), clause,
          lambda: f"shape {tuple(a.shape)} != expected {tuple(shape)}")
    return a


def close(got, want, clause, rel=1e-9, scale=None, absolute=0.0):
    """max|got - want| <= rel * max(scale, tiny) + absolute ; shapes must agree"""
    g = as_array(got, clause)
    w = np.asarray(want)
    check(tuple(g.shape) == tuple(w.shape), clause + "/shape",
          lambda: f"shape {tuple(g.shape)} != expected {tuple(w.shape)}")
    if g.size == 0:
        return 0.0
    check(bool(np.all(np.isfinite(g))) or not bool(np.all(np.isfinite(w))), clause + "/finite",
          lambda: "non-finite entries in result")
    if scale is None:
        scale = float(np.max(np.abs(w))) if w.size else 1.0
    scale = max(float(scale), 1e-300)
    with np.errstate(all="ignore"):
        d = float(np.max(np.abs(g - w)))
    check(d <= rel * scale + absolute, clause,
          lambda: f"max abs diff {d:.3e} > {rel:g} * {scale:.3e} (+{absolute:g})")
    return d


def same_bits(got, want, clause):
    g = as_array(got, clause)
    w = np.asarray(want)
    check(tuple(g.shape) == tuple(w.shape), clause + "/shape",
          lambda: f"shape {tuple(g.shape)} != expected {tuple(w.shape)}")
    check(g.dtype == w.dtype, clause + "/dtype", lambda: f"dtype {g.dtype} != expected {w.dtype}")
    check(np.ascontiguousarray(g).tobytes() == np.ascontiguousarray(w).tobytes(), clause,
          lambda: "bytes differ")


def finite(x, clause):
    a = as_array(x, clause)
    check(bool(np.all(np.isfinite(a))), clause, lambda: "non-finite entries")
    return a


def tol_for(dtype):
    dt = np.dtype(dtype)
    if dt in (np.dtype("float32"), np.dtype("complex64")):
        return 2e-4
    if dt == np.dtype("float16"):
        return 2e-2
    return 1e-9
