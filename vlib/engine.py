"""Engine: sub-check registry, Hypothesis driver (collect first, then shrink),
process scheduler, evidence writer, replay I/O, known-finding handling.

A property module (props/cXX.py) exposes

    PROPERTY = "C01"
    RULE = "<text: how cases are generated / what is non-trivial>"
    ASSUMPTIONS = [...]
    def subchecks(tier) -> list[SubCheck]
    KNOWN_CLASSES = {name: predicate(subcheck_name, case, failure) -> bool}   (optional)
    def extra(tier, seed) -> dict      (optional: exhaustive sweeps etc.; see run_extra)

A SubCheck's oracle takes one JSON-serialisable *case* (dict) and returns a dict
(optional) {"nontrivial": bool, "labels": [str, ...]}; it raises Fail (violation
of a clause), Discard (case outside the property's domain by a counted rule), or
lets a library exception escape (classified by traceback: a frame under the
repository ==> Fail "raised:<Type>"; otherwise a harness error).
"""
import hashlib
import json
import multiprocessing as mp
import os
import signal
import sys
import time
import traceback

# every sub-check's quick example count is multiplied by this (the per-module counts were tuned on a loaded machine;
# on 16 idle cores the quick tier of a property still finishes in well under a minute)
QUICK_SCALE = float(os.environ.get("VERIF_QUICK_SCALE", "3"))
# thorough tier: per-module counts x this, in 4 independently seeded shards per sub-check (a full thorough pass over
# the 20 properties at scale 1 took about 65 minutes of wall time on 16 cores and 5.0 million oracle evaluations)
THOROUGH_SCALE = float(os.environ.get("VERIF_THOROUGH_SCALE", "2"))

VERIF_DIR = os.path.dirname(os.path.dirname(os.path.abspath(__file__)))
REPO_DIR = os.environ.get("VERIF_REPO", "/repo")


# --------------------------------------------------------------------------
# verdict exceptions
# --------------------------------------------------------------------------
class Fail(Exception):
    def __init__(self, clause, msg=""):
        super().__init__(f"{clause}: {msg}")
        self.clause = clause
        self.msg = msg


class Discard(Exception):
    def __init__(self, reason):
        super().__init__(reason)
        self.reason = reason


class CaseTimeout(BaseException):
    pass


def fail(clause, msg=""):
    raise Fail(clause, msg)


def discard(reason):
    raise Discard(reason)


def check(cond, clause, msg=""):
    if not cond:
        if callable(msg):
            msg = msg()
        raise Fail(clause, msg)


class SubCheck:
    def __init__(self, name, strategy, oracle, quick=100, thorough=2000,
                 discard_exc=(), max_discard=0.5, budget_quick=60.0,
                 budget_thorough=600.0, case_timeout=60, shards_thorough=4, shards_quick=2):
        self.name = name
        self.strategy = strategy
        self.oracle = oracle
        self.quick = quick
        self.thorough = thorough
        self.discard_exc = tuple(discard_exc)
        self.max_discard = max_discard
        self.budget_quick = budget_quick
        self.budget_thorough = budget_thorough
        self.case_timeout = case_timeout
        self.shards_thorough = shards_thorough
        self.shards_quick = shards_quick if quick >= 20 else 1


# --------------------------------------------------------------------------
# helpers
# --------------------------------------------------------------------------
def canon(case):
    return json.dumps(case, sort_keys=True, separators=(",", ":"), default=_json_default)


def _json_default(o):
    import numpy as np
    if isinstance(o, (np.integer,)):
        return int(o)
    if isinstance(o, (np.floating,)):
        return float(o)
    if isinstance(o, np.bool_):
        return bool(o)
    if isinstance(o, np.ndarray):
        return o.tolist()
    if isinstance(o, (set, frozenset)):
        return sorted(o)
    if isinstance(o, tuple):
        return list(o)
    if isinstance(o, complex):
        return [o.real, o.imag]
    return repr(o)


def case_hash(case):
    return hashlib.sha1(canon(case).encode()).hexdigest()[:16]


def derive_seed(seed, name, shard):
    h = hashlib.sha256(f"{seed}:{name}:{shard}".encode()).hexdigest()
    return int(h[:15], 16)


def repo_frame(tb):
    """innermost traceback frame located under the repository, or None"""
    found = None
    for fs in traceback.extract_tb(tb):
        fn = os.path.abspath(fs.filename)
        if fn.startswith(REPO_DIR + os.sep):
            found = (os.path.relpath(fn, REPO_DIR), fs.name, fs.lineno)
    return found


def _alarm(signum, frame):
    raise CaseTimeout()


def run_oracle(sub, case):
    """Run one oracle call and classify.  Returns (verdict, info) with verdict in
    PASS / FAIL / DISCARD / TIMEOUT / HARNESS."""
    old = signal.signal(signal.SIGALRM, _alarm)
    signal.alarm(int(sub.case_timeout))
    try:
        try:
            info = sub.oracle(case) or {}
            return "PASS", info
        finally:
            signal.alarm(0)
            signal.signal(signal.SIGALRM, old)
    except Fail as e:
        fr = repo_frame(e.__traceback__)
        return "FAIL", {"clause": e.clause, "msg": str(e.msg)[:600],
                        "bucket": e.clause}
    except Discard as e:
        return "DISCARD", {"reason": e.reason}
    except CaseTimeout:
        return "TIMEOUT", {}
    except sub.discard_exc as e:
        fr = repo_frame(e.__traceback__)
        return "DISCARD", {"reason": f"lib:{type(e).__name__}"}
    except Exception as e:  # noqa
        fr = repo_frame(e.__traceback__)
        tb = traceback.format_exc()
        if fr is not None:
            clause = f"raised:{type(e).__name__}"
            return "FAIL", {"clause": clause,
                            "msg": f"{type(e).__name__}: {str(e)[:300]} at {fr[0]}:{fr[1]}",
                            "bucket": f"{clause}@{fr[0]}:{fr[1]}"}
        return "HARNESS", {"traceback": tb[-3000:]}


def libcall(fn, *a, **k):
    """Call a library function where the property demands it does not raise:
    any exception becomes a Fail (used when no repo frame may be on the stack,
    e.g. exceptions raised by NumPy called from library code still carry a repo
    frame, so this is rarely needed)."""
    return fn(*a, **k)


# --------------------------------------------------------------------------
# the per-(subcheck, shard) job, executed in a child process
# --------------------------------------------------------------------------
def _job(mod_name, sub_name, tier, seed, shard, known_open, conn):
    t0 = time.time()
    out = {"sub": sub_name, "shard": shard, "evals": 0, "pass": 0, "fail": 0,
           "discard": {}, "timeouts": 0, "skipped_budget": 0, "nontrivial": set(),
           "labels": {}, "samples": [], "buckets": {}, "excluded_known": {},
           "harness": None, "wall": 0.0, "shrunk": {}}
    try:
        import importlib
        import hypothesis
        from hypothesis import given, settings, HealthCheck, Phase
        mod = importlib.import_module(mod_name)
        subs = {s.name: s for s in mod.subchecks(tier)}
        sub = subs[sub_name]
        known_classes = getattr(mod, "KNOWN_CLASSES", {})
        n = sub.quick if tier == "quick" else sub.thorough
        if tier == "quick" and sub.quick >= 20:
            n = int(n * QUICK_SCALE)
        if tier == "thorough" and sub.thorough >= 20:
            n = int(n * THOROUGH_SCALE)
        if tier == "quick" and sub.shards_quick > 1:
            # Hypothesis' draws within one run are correlated (it mutates earlier examples), so a small option space
            # can be covered very unevenly by a single run: split the quick budget over independently seeded runs
            n = max(1, -(-n // sub.shards_quick))
        budget = sub.budget_quick if tier == "quick" else sub.budget_thorough
        hseed = derive_seed(seed, sub_name, shard)

        def classify_known(case, info):
            for kf in known_open:
                if kf.get("subcheck") not in (None, sub_name) :
                    continue
                pred = known_classes.get(kf["class"])
                if pred is not None and pred(sub_name, case, info):
                    return kf["id"]
            return None

        def account(case):
            verdict, info = run_oracle(sub, case)
            out["evals"] += 1
            if verdict == "PASS":
                out["pass"] += 1
                for lb in info.get("labels", ()):
                    out["labels"][lb] = out["labels"].get(lb, 0) + 1
                if info.get("nontrivial", True):
                    h = case_hash(case)
                    if h not in out["nontrivial"]:
                        out["nontrivial"].add(h)
                        if len(out["samples"]) < 2:
                            out["samples"].append(case)
            elif verdict == "DISCARD":
                r = info["reason"]
                out["discard"][r] = out["discard"].get(r, 0) + 1
            elif verdict == "TIMEOUT":
                out["timeouts"] += 1
            elif verdict == "HARNESS":
                if out["harness"] is None:
                    out["harness"] = {"case": case, "traceback": info["traceback"]}
            elif verdict == "FAIL":
                kid = classify_known(case, info)
                if kid is not None:
                    out["excluded_known"][kid] = out["excluded_known"].get(kid, 0) + 1
                    return verdict, info, kid
                out["fail"] += 1
                b = info["bucket"]
                size = len(canon(case))
                cur = out["buckets"].get(b)
                if cur is None or size < cur["size"]:
                    out["buckets"][b] = {"size": size, "case": case, "clause": info["clause"],
                                         "msg": info["msg"], "count": (cur or {}).get("count", 0) + 1}
                else:
                    cur["count"] += 1
            return verdict, info, None

        common = dict(database=None, deadline=None, derandomize=False,
                      report_multiple_bugs=False, print_blob=False,
                      suppress_health_check=list(HealthCheck))

        # ---- pass 1: collect (never raises) -------------------------------
        @hypothesis.seed(hseed)
        @settings(max_examples=n, phases=[Phase.generate], **common)
        @given(sub.strategy)
        def collect(case):
            if time.time() - t0 > budget or out["harness"] is not None:
                out["skipped_budget"] += 1
                return
            account(case)

        collect()

        # ---- pass 2: shrink each bucket -----------------------------------
        shrink_budget = 20.0 if tier == "quick" else 120.0
        for b in list(out["buckets"].keys()):
            if out["harness"] is not None:
                break
            ts = time.time()
            best = {"case": out["buckets"][b]["case"], "size": out["buckets"][b]["size"],
                    "msg": out["buckets"][b]["msg"]}

            class _Found(Exception):
                pass

            @hypothesis.seed(hseed)
            @settings(max_examples=n, phases=[Phase.generate, Phase.shrink], **common)
            @given(sub.strategy)
            def shrink(case):
                if time.time() - ts > shrink_budget:
                    return
                verdict, info = run_oracle(sub, case)
                if verdict == "FAIL" and info["bucket"] == b and classify_known(case, info) is None:
                    size = len(canon(case))
                    if size < best["size"]:
                        best["size"] = size
                        best["case"] = case
                        best["msg"] = info["msg"]
                    raise _Found()

            status = "complete"
            try:
                shrink()
                status = "not-refound"
            except _Found:
                pass
            except BaseException as e:  # Flaky etc. once the budget is exhausted
                status = f"stopped:{type(e).__name__}"
            if time.time() - ts > shrink_budget:
                status = "budget"
            out["buckets"][b]["case"] = best["case"]
            out["buckets"][b]["size"] = best["size"]
            out["buckets"][b]["msg"] = best["msg"]
            out["shrunk"][b] = status
    except BaseException:
        if out["harness"] is None:
            out["harness"] = {"case": None, "traceback": traceback.format_exc()[-3000:]}
    out["wall"] = time.time() - t0
    out["nontrivial"] = sorted(out["nontrivial"])
    try:
        conn.send(json.loads(json.dumps(out, default=_json_default)))
    except BaseException:
        conn.send({"sub": sub_name, "shard": shard, "harness": {"case": None, "traceback": traceback.format_exc()[-3000:]},
                   "evals": 0, "pass": 0, "fail": 0, "discard": {}, "timeouts": 0, "skipped_budget": 0,
                   "nontrivial": [], "labels": {}, "samples": [], "buckets": {}, "excluded_known": {}, "wall": 0.0, "shrunk": {}})
    conn.close()


def run_jobs(jobs, nproc, hard_timeout):
    """jobs: list of arg tuples for _job (without conn). Runs up to nproc at once,
    kills a job that exceeds hard_timeout seconds.  Returns list of result dicts."""
    ctx = mp.get_context("fork")
    pending = list(jobs)
    running = {}
    results = []
    while pending or running:
        while pending and len(running) < nproc:
            args = pending.pop(0)
            pc, cc = ctx.Pipe(duplex=False)
            p = ctx.Process(target=_job, args=args + (cc,))
            p.daemon = True
            p.start()
            cc.close()
            running[p] = (time.time(), pc, args)
        done = []
        for p, (ts, pc, args) in running.items():
            if pc.poll(0):
                try:
                    results.append(pc.recv())
                except EOFError:
                    results.append(_dead(args, "worker died without result"))
                p.join(5)
                done.append(p)
            elif not p.is_alive():
                if pc.poll(0.2):
                    try:
                        results.append(pc.recv())
                    except EOFError:
                        results.append(_dead(args, f"worker exit code {p.exitcode}"))
                else:
                    results.append(_dead(args, f"worker exit code {p.exitcode}"))
                done.append(p)
            elif time.time() - ts > hard_timeout:
                p.kill()
                p.join(5)
                r = _dead(args, None)
                r["killed"] = True
                results.append(r)
                done.append(p)
        for p in done:
            running.pop(p)
        if not done:
            time.sleep(0.05)
    return results


def _dead(args, why):
    return {"sub": args[1], "shard": args[4], "evals": 0, "pass": 0, "fail": 0, "discard": {},
            "timeouts": 0, "skipped_budget": 0, "nontrivial": [], "labels": {}, "samples": [],
            "buckets": {}, "excluded_known": {}, "wall": 0.0, "shrunk": {},
            "harness": ({"case": None, "traceback": why} if why else None)}


# --------------------------------------------------------------------------
# replay files
# --------------------------------------------------------------------------
def write_replay(prop, sub_name, seed, case, msg, path):
    os.makedirs(os.path.dirname(path), exist_ok=True)
    with open(path, "w") as f:
        json.dump({"property": prop, "subcheck": sub_name, "seed": seed, "case": case,
                   "message": msg}, f, indent=1, default=_json_default, sort_keys=True)
        f.write("\n")


def replay_file(mod, path, tier="thorough"):
    """returns (verdict, info)"""
    with open(path) as f:
        rp = json.load(f)
    subs = {s.name: s for s in mod.subchecks(tier)}
    if rp["subcheck"] not in subs:
        return "HARNESS", {"traceback": f"unknown subcheck {rp['subcheck']} in {path}"}
    return run_oracle(subs[rp["subcheck"]], rp["case"])


def load_known(prop):
    p = os.path.join(VERIF_DIR, "known_findings.json")
    if not os.path.exists(p):
        return []
    with open(p) as f:
        data = json.load(f)
    return [e for e in data.get("findings", []) if e.get("property") == prop]


def safe_name(s):
    return "".join(c if c.isalnum() or c in "-_." else "_" for c in s)[:120]


# --------------------------------------------------------------------------
# main driver for one property
# --------------------------------------------------------------------------
def run_property(mod_name, tier, seed, only=None, nproc=None):
    import importlib
    t0 = time.time()
    mod = importlib.import_module(mod_name)
    prop = mod.PROPERTY
    nproc = nproc or min(16, os.cpu_count() or 4)
    known = load_known(prop)
    known_open = [k for k in known if k.get("status") == "open"]
    subs = mod.subchecks(tier)
    if only:
        subs = [s for s in subs if any(o in s.name for o in only)]
    violations = []   # (subcheck, bucket, path, msg)
    harness_errors = []
    lines = []

    # ---- regression tier: committed replays ------------------------------
    rdir = os.path.join(VERIF_DIR, "replays", prop)
    replay_stats = {"run": 0, "pass": 0, "known_still_failing": 0, "known_now_passing": 0}
    known_replays = {k["replay"]: k for k in known_open if k.get("replay")}
    if os.path.isdir(rdir) and not only:
        for fn in sorted(os.listdir(rdir)):
            if not fn.endswith(".json"):
                continue
            rel = os.path.join("replays", prop, fn)
            verdict, info = replay_file(mod, os.path.join(VERIF_DIR, rel))
            replay_stats["run"] += 1
            kf = known_replays.get(rel)
            if verdict == "HARNESS":
                harness_errors.append((rel, info["traceback"]))
            elif kf is not None:
                if verdict == "FAIL":
                    replay_stats["known_still_failing"] += 1
                    lines.append(f"KNOWN-FINDING: property={prop} {kf['id']}: {kf['what']}")
                else:
                    replay_stats["known_now_passing"] += 1
                    lines.append(f"NOTE: known finding {kf['id']} no longer reproduces on its committed replay ({verdict})")
            elif verdict == "FAIL":
                violations.append((f"replay:{fn}", info["bucket"], rel, info["msg"]))
            else:
                replay_stats["pass"] += 1
    for k in known_open:
        if not k.get("replay"):
            lines.append(f"KNOWN-FINDING: property={prop} {k['id']}: {k['what']}")

    # ---- generated search --------------------------------------------------
    jobs = []
    for s in subs:
        shards = s.shards_quick if tier == "quick" else s.shards_thorough
        for sh in range(shards):
            jobs.append((mod_name, s.name, tier, seed, sh, known_open))
    budgets = {s.name: (s.budget_quick if tier == "quick" else s.budget_thorough) for s in subs}
    hard = max(budgets.values(), default=60) + (60 if tier == "quick" else 400) + 60
    results = run_jobs(jobs, nproc, hard)

    per_sub = {}
    total_evals = 0
    nontrivial_total = 0
    samples = []
    excluded_known = {}
    for s in subs:
        rs = [r for r in results if r["sub"] == s.name]
        agg = {"evaluations": sum(r["evals"] for r in rs), "pass": sum(r["pass"] for r in rs),
               "fail": sum(r["fail"] for r in rs), "timeouts": sum(r["timeouts"] for r in rs),
               "skipped_budget": sum(r["skipped_budget"] for r in rs), "discard": {}, "labels": {},
               "wall_s": round(max([r["wall"] for r in rs] or [0]), 2), "killed": sum(1 for r in rs if r.get("killed"))}
        nt = set()
        for r in rs:
            nt.update(r["nontrivial"])
            for k, v in r["discard"].items():
                agg["discard"][k] = agg["discard"].get(k, 0) + v
            for k, v in r["labels"].items():
                agg["labels"][k] = agg["labels"].get(k, 0) + v
            for k, v in r["excluded_known"].items():
                excluded_known[k] = excluded_known.get(k, 0) + v
            if r.get("harness"):
                harness_errors.append((s.name, r["harness"]["traceback"] + "\ncase=" + canon(r["harness"].get("case"))[:1500]))
            for b, bd in r["buckets"].items():
                path = os.path.join("out", prop, safe_name(f"{s.name}--{b}--s{seed}") + ".json")
                write_replay(prop, s.name, seed, bd["case"], bd["msg"], os.path.join(VERIF_DIR, path))
                if not any(v[0] == s.name and v[1] == b for v in violations):
                    violations.append((s.name, b, path, bd["msg"]))
        agg["distinct_nontrivial"] = len(nt)
        nd = sum(agg["discard"].values())
        if agg["evaluations"] >= 20 and nd > s.max_discard * agg["evaluations"]:
            harness_errors.append((s.name, f"discard rate {nd}/{agg['evaluations']} exceeds {s.max_discard}: {agg['discard']}"))
        if agg["evaluations"] == 0 and not any(r.get("harness") for r in rs):
            harness_errors.append((s.name, "no case evaluated"))
        per_sub[s.name] = agg
        total_evals += agg["evaluations"]
        nontrivial_total += len(nt)
        for r in rs:
            for c in r["samples"][:1]:
                if len(samples) < 10 and not any(x["subcheck"] == s.name for x in samples):
                    cs = canon(c)
                    samples.append({"subcheck": s.name, "case": c if len(cs) < 1500 else cs[:1500] + "...(truncated)"})

    extra = {}
    if hasattr(mod, "extra") and not only:
        extra = mod.extra(tier, seed, nproc) or {}
        for v in extra.pop("violations", []):
            path = os.path.join("out", prop, safe_name(f"{v['subcheck']}--{v['bucket']}--s{seed}") + ".json")
            write_replay(prop, v["subcheck"], seed, v["case"], v["msg"], os.path.join(VERIF_DIR, path))
            violations.append((v["subcheck"], v["bucket"], path, v["msg"]))
        for h in extra.pop("harness_errors", []):
            harness_errors.append(h)
        total_evals += extra.get("evaluations", 0)
        nontrivial_total += extra.get("distinct_nontrivial", 0)
        for c in extra.pop("samples", [])[:2]:
            samples.append(c)

    wall = time.time() - t0
    coverage = {
        "evaluations": total_evals,
        "distinct_nontrivial": nontrivial_total,
        "rule": mod.RULE,
        "samples": samples,
        "subchecks": per_sub,
        "n_subchecks": len(subs),
        "replays": replay_stats,
        "excluded_known": excluded_known,
        "violation_buckets": [{"subcheck": v[0], "bucket": v[1], "replay": v[2], "message": v[3][:300]} for v in violations],
        "harness_errors": len(harness_errors),
    }
    coverage.update(extra)
    ev = {"property_id": prop, "tier": tier, "seed": int(seed), "level": "exploration",
          "coverage": coverage, "assumptions": getattr(mod, "ASSUMPTIONS", []),
          "wall_s": round(wall, 2), "violations": len(violations)}
    if not only:
        # experiments against a patched scratch tree (tools/seed_matrix.py, tools/neutral_matrix.py) redirect their evidence
        evdir = os.environ.get("VERIF_EVIDENCE_DIR") or os.path.join(VERIF_DIR, "evidence")
        os.makedirs(evdir, exist_ok=True)
        with open(os.path.join(evdir, f"{prop}.json"), "w") as f:
            json.dump(ev, f, indent=1, default=_json_default, sort_keys=True)
            f.write("\n")

    for ln in lines:
        print(ln)
    for name, agg in per_sub.items():
        print(f"  {name:55s} evals={agg['evaluations']:6d} nontrivial={agg['distinct_nontrivial']:6d} "
              f"fail={agg['fail']:4d} discard={sum(agg['discard'].values()):5d} t={agg['wall_s']:.1f}s"
              + (f" timeouts={agg['timeouts']}" if agg["timeouts"] else "")
              + (f" skipped={agg['skipped_budget']}" if agg["skipped_budget"] else ""))
    if extra:
        print("  extra:", {k: v for k, v in extra.items() if isinstance(v, (int, float, bool, str))})
    print(f"{prop} tier={tier} seed={seed} evaluations={total_evals} nontrivial={nontrivial_total} "
          f"violations={len(violations)} excluded_known={sum(excluded_known.values())} wall={wall:.1f}s")
    if harness_errors:
        for name, tb in harness_errors[:5]:
            print(f"HARNESS-ERROR in {name}:\n{tb}", file=sys.stderr)
    for v in violations:
        print(f"  violation {v[0]} [{v[1]}]: {v[3][:300]}")
        print(f"VIOLATION property={prop} replay={v[2]}")
    if violations:
        return 1
    if harness_errors:
        return 2
    return 0
