"""Deep snapshots of arguments / results."""
import numpy as np


def freeze(obj, _depth=0):
    """nested, comparable, hashable-ish structure capturing container identity-free
    content: arrays as (dtype, shape, bytes)."""
    if _depth > 8:
        return ("deep", repr(type(obj)))
    if isinstance(obj, np.ndarray):
        return ("nd", str(obj.dtype), tuple(obj.shape), np.ascontiguousarray(obj).tobytes())
    if isinstance(obj, (np.generic,)):
        return ("np", str(obj.dtype), obj.tobytes())
    if obj is None or isinstance(obj, (bool, int, float, complex, str, bytes)):
        return ("py", type(obj).__name__, obj if obj == obj else "nan")
    if isinstance(obj, (list, tuple)):
        return (type(obj).__name__, tuple(freeze(o, _depth + 1) for o in obj))
    if isinstance(obj, dict):
        return ("dict", tuple((repr(k), freeze(v, _depth + 1)) for k, v in sorted(obj.items(), key=lambda kv: repr(kv[0]))))
    if isinstance(obj, (set, frozenset)):
        return ("set", tuple(sorted(repr(o) for o in obj)))
    if isinstance(obj, np.random.RandomState):
        st = obj.get_state()
        return ("rs", st[0], st[1].tobytes(), st[2], st[3], st[4])
    if callable(obj) and not hasattr(obj, "__dict__"):
        return ("callable", repr(obj))
    # wrapper objects (CPTensor, TuckerTensor, TTTensor, Parafac2Tensor, estimators...)
    d = getattr(obj, "__dict__", None)
    if d is not None:
        return ("obj", type(obj).__name__, tuple((k, freeze(v, _depth + 1)) for k, v in sorted(d.items())))
    return ("repr", repr(obj))


def diff(a, b, path="arg"):
    """first difference between two frozen structures, as text (or None)"""
    if a == b:
        return None
    if type(a) != type(b) or not isinstance(a, tuple) or len(a) == 0:
        return f"{path}: {str(a)[:80]} -> {str(b)[:80]}"
    if a[0] != b[0]:
        return f"{path}: kind {a[0]} -> {b[0]}"
    kind = a[0]
    if kind == "nd":
        if a[1] != b[1] or a[2] != b[2]:
            return f"{path}: array {a[1]}{a[2]} -> {b[1]}{b[2]}"
        x = np.frombuffer(a[3], dtype=a[1])
        y = np.frombuffer(b[3], dtype=b[1])
        k = int(np.argmax(x != y)) if x.size else 0
        return f"{path}: array content changed at flat index {k}: {x[k] if x.size else ''} -> {y[k] if y.size else ''}"
    if kind in ("list", "tuple"):
        if len(a[1]) != len(b[1]):
            return f"{path}: {kind} length {len(a[1])} -> {len(b[1])}"
        for i, (x, y) in enumerate(zip(a[1], b[1])):
            d = diff(x, y, f"{path}[{i}]")
            if d:
                return d
    if kind == "dict":
        if len(a[1]) != len(b[1]):
            return f"{path}: dict size {len(a[1])} -> {len(b[1])}"
        for (ka, va), (kb, vb) in zip(a[1], b[1]):
            if ka != kb:
                return f"{path}: dict key {ka} -> {kb}"
            d = diff(va, vb, f"{path}[{ka}]")
            if d:
                return d
    if kind == "obj":
        if a[1] != b[1]:
            return f"{path}: object type {a[1]} -> {b[1]}"
        if len(a[2]) != len(b[2]):
            return f"{path}: attribute set changed"
        for (ka, va), (kb, vb) in zip(a[2], b[2]):
            if ka != kb:
                return f"{path}: attribute {ka} -> {kb}"
            d = diff(va, vb, f"{path}.{ka}")
            if d:
                return d
    return f"{path}: {str(a)[:60]} -> {str(b)[:60]}"


def walk_arrays(obj, path="result", _depth=0, _seen=None):
    """yield (path, ndarray) for every array reachable from a result"""
    if _seen is None:
        _seen = set()
    if _depth > 8 or id(obj) in _seen:
        return
    if isinstance(obj, np.ndarray):
        yield path, obj
        return
    if obj is None or isinstance(obj, (bool, int, float, complex, str, bytes, np.generic)):
        return
    _seen.add(id(obj))
    if isinstance(obj, (list, tuple)):
        for i, o in enumerate(obj):
            yield from walk_arrays(o, f"{path}[{i}]", _depth + 1, _seen)
        return
    if isinstance(obj, dict):
        for k, v in obj.items():
            yield from walk_arrays(v, f"{path}[{k!r}]", _depth + 1, _seen)
        return
    d = getattr(obj, "__dict__", None)
    if d is not None:
        for k, v in d.items():
            yield from walk_arrays(v, f"{path}.{k}", _depth + 1, _seen)
