#!/bin/bash
# usage: tools/seed_confirm.sh <srcdir with patch.diff demo.py meta.json> <seed-id e.g. C12-m1> <Cxx> [more Cxx ...]
# Confirms a seeded change independently in a scratch worktree and, if confirmed, stores it under /verif/seeded/<seed-id>/
SRC=$1; ID=$2; shift 2; PROPS="$@"
WT=$(mktemp -d /tmp/sc.XXXXXX); rmdir $WT
git -C /repo worktree add -q --detach $WT HEAD || exit 3
export OMP_NUM_THREADS=1 OPENBLAS_NUM_THREADS=1 MKL_NUM_THREADS=1 PYTHONDONTWRITEBYTECODE=1
cd $WT
PYTHONPATH=$WT timeout 600 /venv/bin/python $SRC/demo.py > $WT/.demo0.txt 2>&1; d0=$?
git apply $SRC/patch.diff 2>/dev/null || git apply --3way $SRC/patch.diff; ap=$?; git diff HEAD > $WT/.rebased.diff
PYTHONPATH=$WT timeout 600 /venv/bin/python $SRC/demo.py > $WT/.demo1.txt 2>&1; d1=$?
PYTHONPATH=$WT timeout 1800 /venv/bin/python -m pytest -q -p no:cacheprovider --deselect tensorly/datasets/tests/test_imports.py::test_indian_pines --deselect tensorly/tests/test_backend.py::test_svd_time tensorly > $WT/.tests.txt 2>&1; tr=$?
tsum=$(tail -1 $WT/.tests.txt)
res=""
for P in $PROPS; do
  out=$(cd /verif && VERIF_REPO=$WT timeout 1800 /venv/bin/python run_check.py $P --tier quick 2>&1); rc=$?
  first=$(echo "$out" | grep -E "violation " | head -2 | tr '\n' '|' | cut -c1-400)
  res="$res $P:rc=$rc [$first]"
done
echo "$ID apply=$ap demo_unchanged=$d0 demo_changed=$d1 tests_rc=$tr ($tsum) checks:$res"
if [ $ap -eq 0 ] && [ $d0 -eq 0 ] && [ $d1 -ne 0 ] && [ $tr -eq 0 ]; then
  mkdir -p /verif/seeded/$ID
  cp $SRC/demo.py /verif/seeded/$ID/; cp $WT/.rebased.diff /verif/seeded/$ID/patch.diff
  /venv/bin/python - "$SRC/meta.json" "/verif/seeded/$ID/meta.json" "$ID" "$d0" "$d1" "$tsum" "$res" "$(git -C /repo rev-parse --short HEAD)" <<'PY'
import json, sys
src, dst, sid, d0, d1, tsum, res, head = sys.argv[1:9]
try:
    m = json.load(open(src))
except Exception:
    m = {}
m["seed_id"] = sid
m["confirmed_by_lead"] = {"repo_commit": head, "demo_exit_unchanged": int(d0), "demo_exit_changed": int(d1),
                          "test_suite_with_change": tsum, "what_i_ran": "fresh worktree of /repo HEAD: demo.py before/after `git apply patch.diff`; full pytest suite (minus the two baseline-excluded tests) with the change; quick checks via VERIF_REPO=<worktree>",
                          "checks": res.strip()}
json.dump(m, open(dst, "w"), indent=1)
PY
fi
cp $WT/.tests.txt /tmp/last_tests_$ID.txt; cd /; git -C /repo worktree remove --force $WT
