#!/bin/bash
# usage: tools/run_all.sh [tier] [seeds...]   runs every check listed in tools/ready.txt (or $PROPS) and prints one line each
cd "$(dirname "$0")/.."
TIER=${1:-quick}; shift
SEEDS=${@:-1}
PROPS=${PROPS:-$(cat tools/ready.txt)}
for s in $SEEDS; do
 for p in $PROPS; do
  t0=$(date +%s)
  out=$(VERIF_SEED=$s timeout 3600 /venv/bin/python run_check.py $p --tier $TIER 2>&1); rc=$?
  t1=$(date +%s)
  echo "seed=$s $p rc=$rc $((t1-t0))s $(echo "$out" | grep -E "^$p tier" | sed 's/.*evaluations/evaluations/')"
  if [ $rc -ne 0 ]; then echo "$out" | grep -E "violation |VIOLATION|HARNESS" | head -8; fi
 done
done
