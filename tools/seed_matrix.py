#!/usr/bin/env python3
"""Runs every seeded change under /verif/seeded against the check(s) of the property it breaks (quick tier,
on a scratch copy of /repo with the patch applied) and writes /verif/seeded/MATRIX.md."""
import json, os, subprocess, sys, tempfile, shutil, concurrent.futures as cf

V = "/verif"


def run_one(sid):
    d = os.path.join(V, "seeded", sid)
    meta = json.load(open(os.path.join(d, "meta.json")))
    props = [meta.get("property", sid.split("-")[0])] + list(meta.get("also_breaks", []))
    tmp = tempfile.mkdtemp(prefix="sm.", dir="/tmp")
    try:
        subprocess.check_call(["rsync", "-a", "--exclude", ".git", "--exclude", "datasets/data", "/repo/", tmp + "/"])
        r = subprocess.run(["git", "apply", os.path.join(d, "patch.diff")], cwd=tmp, capture_output=True, text=True)
        if r.returncode != 0:
            r = subprocess.run(["patch", "-p1", "-s", "-i", os.path.join(d, "patch.diff")], cwd=tmp, capture_output=True, text=True)
            if r.returncode != 0:
                return sid, meta, {p: ("patch-failed", "") for p in props}
        res = {}
        for p in props:
            env = dict(os.environ, VERIF_REPO=tmp, VERIF_EVIDENCE_DIR=os.path.join(tmp, ".evidence"))
            o = subprocess.run(["/venv/bin/python", "run_check.py", p, "--tier", "quick", "--nproc", "6"], cwd=V, env=env,
                               capture_output=True, text=True, timeout=3000)
            first = [l.strip() for l in o.stdout.splitlines() if l.strip().startswith("violation ")]
            res[p] = (o.returncode, first[0][:160] if first else "")
        return sid, meta, res
    finally:
        shutil.rmtree(tmp, ignore_errors=True)


def main():
    sids = sorted(s for s in os.listdir(os.path.join(V, "seeded")) if os.path.isdir(os.path.join(V, "seeded", s)))
    obsolete = [s for s in sids if json.load(open(os.path.join(V, "seeded", s, "meta.json"))).get("obsolete")]
    sids = [s for s in sids if s not in obsolete]
    if len(sys.argv) > 1:
        sids = [s for s in sids if any(a in s for a in sys.argv[1:])]
    rows = []
    with cf.ThreadPoolExecutor(3) as ex:
        for sid, meta, res in ex.map(run_one, sids):
            det = any(rc == 1 for rc, _ in res.values())
            rows.append((sid, meta, res, det))
            print(sid, "DETECTED" if det else "MISSED", {p: rc for p, (rc, _) in res.items()}, flush=True)
    if len(sys.argv) > 1:
        return
    seed = os.environ.get("VERIF_SEED", "1")
    out_name = "MATRIX.md" if seed == "1" else f"MATRIX_seed{seed}.md"
    with open(os.path.join(V, "seeded", out_name), "w") as f:
        f.write(f"# Seeded changes vs. checks (quick tier, VERIF_SEED={seed})\n\n")
        f.write("Written by tools/seed_matrix.py; every change was produced by an independent sub-agent that saw only the property text, "
                "passes the repository's test suite, and was confirmed in a scratch worktree (see each meta.json).\n\n")
        f.write("| seed | title | needs | detected by |\n|---|---|---|---|\n")
        for sid, meta, res, det in rows:
            by = "; ".join(f"{p}: {msg}" for p, (rc, msg) in res.items() if rc == 1) or "**MISSED**"
            f.write(f"| {sid} | {str(meta.get('title',''))[:90]} | {str(meta.get('needs',''))[:200].replace('|','/')} | {by.replace('|','/')} |\n")
        n = sum(1 for r in rows if r[3])
        f.write(f"\n{n} of {len(rows)} detected.\n")
        for o in obsolete:
            f.write(f"\n{o}: not run — " + json.load(open(os.path.join(V, "seeded", o, "meta.json")))["obsolete"] + "\n")
    # machine-readable detection summary back into each meta.json (seed 1 only)
    for sid, meta, res, det in (rows if seed == "1" else []):
        meta["detected_quick_seed1"] = det
        meta["detected_by"] = {p: msg for p, (rc, msg) in res.items() if rc == 1}
        json.dump(meta, open(os.path.join(V, "seeded", sid, "meta.json"), "w"), indent=1)


if __name__ == "__main__":
    main()
