#!/usr/bin/env python3
"""Regenerates MANIFEST.json from the table below + which props/cXX.py modules exist."""
import json
import os

HERE = os.path.dirname(os.path.dirname(os.path.abspath(__file__)))

TECH = {
    "C01": ("Hypothesis property tests + exhaustive enumeration of a bounded shape/config space against np.ndindex index formulas; bitwise round trips",
            "exhaustive over 152 small shapes x all configurations; random search beyond (orders <= 6, sides <= 5, 10 dtypes, 5 memory layouts)"),
    "C02": ("Hypothesis differential testing: both tenalg backends vs. independent einsum-sublist / loop reference definitions",
            "orders 1-4, sides 1-4, real and complex values, all option combinations generated"),
    "C03": ("Hypothesis: factorised tensors vs. independent dense reference contraction; rejection of corrupted factor sets; generated operation histories on wrapper objects (every view re-checked after every mutation)",
            "orders 2-5, sides 1-4, ranks 1-4, both tenalg backends"),
    "C04": ("Hypothesis metamorphic testing: dense(transform(x)) == dense(x) plus canonical-form predicates; factorised mode products vs. dense reference",
            "degenerate classes (zero / zero-mean columns, negative and zero weights, rank 1) forced by the generators"),
    "C05": ("Hypothesis: svd_interface vs. numpy.linalg.svd reference spectrum, orthonormality, optimal-error identity, sign rule, non-negativity",
            "shapes up to 6x6 (geometric spectra up to 12x10), all methods, n_eigenvecs past max(shape), rank-deficient and repeated spectra, integer and complex128 input"),
    "C06": ("Hypothesis: every reported error recomputed from scratch from the iterate (callback copies / prefix runs) with independent dense references",
            "orders 2-4, ranks 1-3, option sets incl. normalisation, line search, early and cap exits"),
    "C07": ("Hypothesis: objective recomputed by the harness from each iterate is non-increasing sweep to sweep; ill-conditioned cases discarded by a counted rule",
            "orders 2-4; CP-ALS, HALS, HOOI, PARAFAC2, TR-ALS, CMTF, hals_nnls, regressors"),
    "C08": ("Hypothesis: structural / canonical-form predicates on every decomposition output over rank specs, stop paths and iteration caps",
            "orders 2-5; both stopping paths forced by tolerance choice"),
    "C09": ("Hypothesis: decomposition error vs. bounds computed from numpy.linalg.svd of the (sequential) unfoldings; exactness at sufficient rank",
            "orders 2-5, sides 1-4, rank vectors from 1 past the mode sizes; complex128 tensors at sufficient rank"),
    "C10": ("Hypothesis: entrywise sign / finiteness predicate on the declared non-negative modes of every non-negative decomposition",
            "signed, sparse, all-negative and integer data; iteration caps 0..6"),
    "C11": ("Hypothesis: column-wise feasibility predicates for the 8 hard constraints over scalar / list / dict specifications; double constraints must raise",
            "orders 3-4, all subsets of modes"),
    "C12": ("Hypothesis: independent optimality certificates (closed forms, PAVA, bisection simplex projection, brute force over supports / peaks), idempotence, firm non-expansiveness",
            "vectors up to 8, matrices up to 7x3, scales 1e-3..1e3"),
    "C13": ("Hypothesis: KKT residuals and objective agreement with scipy.optimize.nnls on generated well-conditioned problems",
            "1-8 unknowns, 1-5 right-hand sides, condition number <= 30"),
    "C14": ("Hypothesis: zero-budget round trip, bitwise fixed modes, metamorphic re-expression of weighted initialisations",
            "all algorithms accepting an init; budgets 0..3"),
    "C15": ("Hypothesis: deep byte snapshots of every argument before/after each call of a registry of public entry points; read-only re-run as a second detector",
            "registry of public entry points x argument kinds (views, lists, wrappers, option lists, exception exits)"),
    "C16": ("Hypothesis-generated call histories (a whole operation sequence is one generated value and shrinks as one) interpreted against a reference model: memoised results per (entry, case, seed) must repeat bit for bit across global-RNG perturbations, identically seeded generators agree, persistent estimator objects re-fit identically, global RNG state untouched by seeded calls",
            "histories of 10-30 steps over 64 seed-accepting entry points incl. class wrappers and masked randomized-SVD paths"),
    "C17": ("Hypothesis-generated operation histories with a harness-owned thread schedule (the generated order is the interleaving) interpreted against a reference model of per-thread selections over a shared default, for both managers; plus a free-running stress run with a 1 microsecond switch interval",
            "3 threads, up to 40 operations; operation-level interleavings only (no preemption inside one manager call is enumerated)"),
    "C18": ("Hypothesis: dtype of every array reachable from the result equals the input dtype over a registry of entry points at float32 / float64 / complex128",
            "registry shared with C15"),
    "C19": ("Hypothesis: predictions vs. independent contraction with the exposed weights; PLSR metamorphic relations (shift, sample permutation); fit / re-fit / predict histories on one estimator object; memory layouts and integer inputs",
            "4-15 samples, orders 2-4, ranks 1-3"),
    "C20": ("Hypothesis: congruence vs. brute force over all permutations; invariance under permutation / rescaling; metric definitions",
            "ranks 1-6 (R! enumeration), 1-3 modes"),
}


def main():
    READY = set(open(os.path.join(HERE, "tools", "ready.txt")).read().split())
    checks = []
    na = []
    for i in range(1, 21):
        pid = f"C{i:02d}"
        if os.path.exists(os.path.join(HERE, "props", pid.lower() + ".py")) and pid in READY:
            tech, bounds = TECH[pid]
            checks.append({
                "property_id": pid,
                "quick_cmd": f"/venv/bin/python run_check.py {pid} --tier quick",
                "thorough_cmd": f"/venv/bin/python run_check.py {pid} --tier thorough",
                "evidence_file": f"evidence/{pid}.json",
                "replay_cmd_template": f"/venv/bin/python run_check.py {pid} --replay {{path}}",
                "engine": "pbt",
                "level_claimed": {
                    "category": "exploration",
                    "text": ("Generated-input search (property-based testing) against an explicit, independently written oracle; "
                             "no violation found within the stated bounds is the strongest claim made. " + bounds + "."
                             + (" The bounded sub-space is enumerated completely (exhaustive: true in the evidence)." if pid == "C01" else "")),
                    "design_ref": f"DESIGN.md section 3, {pid}",
                },
                "level_note": ("Trusted base: CPython, NumPy (reshape/einsum/linalg), SciPy (nnls, linear_sum_assignment), Hypothesis. "
                               "Bounds on sizes/iterations as stated; floating-point clauses use stated tolerances; never proves absence."
                               + (" Thread interleavings are explored at the granularity of whole manager calls (harness-owned schedule)." if pid == "C17" else "")),
                "technique": tech,
            })
        else:
            na.append({"property_id": pid, "reason": "check not built yet in this revision (planned: property-based test as laid out in DESIGN.md section 3)"})
    man = {
        "version": 1,
        "setup_cmd": "/venv/bin/python -c 'import hypothesis' 2>/dev/null || /venv/bin/pip install -q --no-index --find-links /opt/veriftools/wheels hypothesis",
        "hooks": {
            "guard": "TENSORLY_VERIF",
            "enable": "no source hooks exist: tensorly is pure Python and every observable is a return value, callback argument, argument snapshot, RNG state or get_backend(); checks import /repo's working tree fresh in a new process",
            "baseline_off_cmd": "cd /repo && /venv/bin/python -m pytest -ra -q -p no:cacheprovider --timeout=900 --continue-on-collection-errors",
            "source_commits": [],
            "add_only": True,
        },
        "engines": [{"name": "pbt", "path": "run_check.py", "serves_properties": [c["property_id"] for c in checks],
                     "kind_free_text": "Hypothesis-driven property-based testing engine (vlib/engine.py): per-property sub-checks run in a 16-process pool, collect-then-shrink, replay files, known-finding exclusion"}],
        "checks": checks,
        "not_applicable": na,
        "notes": "All commands run with cwd=/verif. VERIF_SEED selects the derived Hypothesis seeds. Exit 2 = harness error (never a violation).",
    }
    with open(os.path.join(HERE, "MANIFEST.json"), "w") as f:
        json.dump(man, f, indent=1)
        f.write("\n")
    print("claimed:", [c["property_id"] for c in checks])


if __name__ == "__main__":
    main()
