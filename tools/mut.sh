#!/bin/bash
# usage: tools/mut.sh <Cxx> <sed-expr|patchfile> <file-relative-to-repo (for sed)> [extra run_check args]
# Runs a check against a scratch copy of /repo with a mutation applied. Scratch copy removed afterwards.
set -u
PROP=$1; MUT=$2; FILE=${3:-}; shift 3 || true
D=$(mktemp -d /tmp/mut.XXXXXX)
rsync -a --exclude .git --exclude 'datasets/data' /repo/ $D/
if [ -f "$MUT" ]; then (cd $D && patch -p1 -s < "$MUT") || { echo "patch failed"; rm -rf $D; exit 3; }
else sed -i -E "$MUT" $D/$FILE; diff -u /repo/$FILE $D/$FILE | head -20; fi
cd /verif
VERIF_REPO=$D timeout 1800 /venv/bin/python run_check.py $PROP "$@" 2>&1 | grep -E "VIOLATION|violation |HARNESS|^C[0-9]+ tier" | head -20
rc=${PIPESTATUS[0]}
rm -rf $D
echo "rc=$rc"
