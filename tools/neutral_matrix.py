#!/usr/bin/env python3
"""Soundness side of the seeded-change experiment: runs ALL 20 quick checks against every property-preserving
change stored under /verif/neutral/<id>/patch.diff (scratch copy of /repo + VERIF_REPO, nothing is applied to /repo)
and writes /verif/neutral/MATRIX.md.  Any exit 1 here is a false alarm of the check (or a change that is not neutral
after all - decide by looking at the replay).

usage: tools/neutral_matrix.py [id-substring ...]        env VERIF_SEED (default 1), PROPS (default all 20)
"""
import json, os, subprocess, sys, tempfile, shutil, concurrent.futures as cf

V = "/verif"
ALL = [f"C{i:02d}" for i in range(1, 21)]


def run_one(nid):
    d = os.path.join(V, "neutral", nid)
    props = os.environ.get("PROPS", " ".join(ALL)).split()
    tmp = tempfile.mkdtemp(prefix="nm.", dir="/tmp")
    try:
        subprocess.check_call(["rsync", "-a", "--exclude", ".git", "--exclude", "datasets/data", "/repo/", tmp + "/"])
        r = subprocess.run(["git", "apply", os.path.join(d, "patch.diff")], cwd=tmp, capture_output=True, text=True)
        if r.returncode != 0:
            return nid, {p: ("patch-failed", r.stderr[:100]) for p in props}
        res = {}
        for p in props:
            env = dict(os.environ, VERIF_REPO=tmp, VERIF_EVIDENCE_DIR=os.path.join(tmp, ".evidence"))
            o = subprocess.run(["/venv/bin/python", "run_check.py", p, "--tier", "quick", "--nproc", "5"], cwd=V, env=env,
                               capture_output=True, text=True, timeout=3000)
            first = [l.strip() for l in o.stdout.splitlines() if l.strip().startswith("violation ")]
            res[p] = (o.returncode, first[0][:200] if first else "")
        return nid, res
    finally:
        shutil.rmtree(tmp, ignore_errors=True)


def main():
    root = os.path.join(V, "neutral")
    nids = sorted(s for s in os.listdir(root) if os.path.isdir(os.path.join(root, s)))
    if len(sys.argv) > 1:
        nids = [s for s in nids if any(a in s for a in sys.argv[1:])]
    rows = []
    with cf.ThreadPoolExecutor(3) as ex:
        for nid, res in ex.map(run_one, nids):
            bad = {p: v for p, v in res.items() if v[0] != 0}
            rows.append((nid, res, bad))
            print(nid, "QUIET" if not bad else f"ALARM {bad}", flush=True)
    if len(sys.argv) > 1 or os.environ.get("PROPS"):
        return
    seed = os.environ.get("VERIF_SEED", "1")
    name = "MATRIX.md" if seed == "1" else f"MATRIX_seed{seed}.md"
    with open(os.path.join(root, name), "w") as f:
        f.write(f"# Property-preserving changes x all 20 quick checks (VERIF_SEED={seed})\n\n"
                "Each change alters behaviour (rounding order, RNG consumption, equally valid outputs, messages, code paths) without\n"
                "breaking any listed property and passes the repository's test suite. Every check must stay quiet (exit 0).\n\n"
                "| change | what | checks quiet | alarms |\n|---|---|---|---|\n")
        for nid, res, bad in rows:
            note = ""
            p = os.path.join(root, nid, "note.md")
            if os.path.exists(p):
                note = open(p).read().strip().splitlines()[0][:140].replace("|", "/")
            rc = os.path.join(root, nid, "reclassified.md")
            tail = (" **reclassified, see below**" if os.path.exists(rc) and bad else "")
            f.write(f"| {nid} | {note} | {sum(1 for v in res.values() if v[0] == 0)}/{len(res)} | "
                    f"{'; '.join(f'{p}: {v[1] or v[0]}' for p, v in bad.items()) or '-'}{tail} |\n")
        f.write(f"\n{sum(1 for r in rows if not r[2])} of {len(rows)} changes raise no alarm in any of the 20 checks.\n")
        for nid, res, bad in rows:
            rc = os.path.join(root, nid, "reclassified.md")
            if os.path.exists(rc):
                f.write(f"\n**{nid}** (not property-preserving after all): " + open(rc).read().strip() + "\n")


if __name__ == "__main__":
    main()
