#!/bin/bash
# development aid: which lines/branches of /repo/tensorly do the quick checks never execute?
# usage: tools/coverage_report.sh [Cxx ...]   -> /tmp/verif_cov/report.txt
cd "$(dirname "$0")/.."
D=/tmp/verif_cov; rm -rf $D; mkdir -p $D
PROPS=${@:-$(cat tools/ready.txt)}
for p in $PROPS; do VERIF_COVERAGE_DIR=$D VERIF_QUICK_SCALE=1 timeout 3000 /venv/bin/python run_check.py $p --tier quick > $D/$p.log 2>&1; echo "$p rc=$?"; done
cd $D && /venv/bin/python -m coverage combine -q --data-file=$D/.coverage $D 2>/dev/null
/venv/bin/python -m coverage report --data-file=$D/.coverage --show-missing --omit='*/tests/*,*/datasets/*,*/contrib/sparse/*,*/plugins.py,*/*_backend.py,*/utils/*,*/testing.py' > $D/report.txt 2>&1
tail -5 $D/report.txt
